#!/usr/bin/env python
"""Compare kingdon's matrix_basis / asmatrix / frommatrix with the Coq model Model/Matrix.v.
Writes a Coq file with the Python results as literals and lets vm_compute compare them with the model.
Run: PYTHONPATH=/repo /venv/bin/python compare.py"""
import itertools, random, subprocess, sys, os
import numpy as np
from kingdon import Algebra, MultiVector

HERE = os.path.dirname(os.path.abspath(__file__))
random.seed(20260926)

def zlit(v):
    v = int(v)
    return f"({v})" if v < 0 else str(v)
def lst(xs):
    return "[" + "; ".join(xs) + "]"
def matlit(m):
    m = np.asarray(m)
    assert m.ndim == 2
    return lst(lst(zlit(v) for v in row) for row in m)
def mvlit(keys, vals):
    return lst(f"({zlit(k)}, {zlit(v)})" for k, v in zip(keys, vals))

sigs = []
for d in (1, 2, 3):
    sigs += [list(s) for s in itertools.product((1, -1, 0), repeat=d)]
all4 = [list(s) for s in itertools.product((1, -1, 0), repeat=4)]
sigs += random.sample(all4, 12) + [[1, 1, 1, 1], [0, 1, 1, 1], [1, -1, 0, 1], [-1, -1, -1, -1], [0, 0, 0, 0]]
sigs += [[1, -1, 0, 1, -1]]

basis_cases = []     # (sig, matrix_basis)
as_cases = []        # (sig, start, x, asmatrix(x))
from_cases = []      # (sig, start, matrix, keys, values of frommatrix)
prod_cases = []      # (sig, start, x, y, (x*y).asmatrix() == x.asmatrix() @ y.asmatrix() in Python)
for sig in sigs:
    start = random.choice((0, 1, 2))
    alg = Algebra(signature=sig, start_index=start)
    mb = alg.matrix_basis
    assert len(mb) == 2 ** len(sig)
    basis_cases.append((sig, mb))
    canon = list(alg.canon2bin.values())
    for _ in range(3):
        nk = random.randint(1, len(canon))
        keys = random.sample(canon, nk)            # any order, sparse
        vals = [random.randint(-9, 9) for _ in keys]
        x = MultiVector.fromkeysvalues(alg, tuple(keys), list(vals))
        m = x.asmatrix()
        as_cases.append((sig, start, keys, vals, m))
        f = MultiVector.frommatrix(alg, m)
        from_cases.append((sig, start, m, list(f.keys()), list(f.values())))

with open(os.path.join(HERE, "Compare.v"), "w") as fh:
    fh.write("From KV Require Import Model.Matrix.\nLocal Open Scope Z_scope.\n")
    fh.write("Definition basis_cases : list (list Z * list mat) :=\n " +
             lst(f"({lst(zlit(s) for s in sig)}, {lst(matlit(m) for m in mb)})" for sig, mb in basis_cases) + ".\n")
    fh.write("Definition as_cases : list (list Z * Z * mv Z * mat) :=\n " +
             lst(f"({lst(zlit(s) for s in sig)}, {zlit(st)}, {mvlit(k, v)}, {matlit(m)})" for sig, st, k, v, m in as_cases) + ".\n")
    fh.write("Definition from_cases : list (list Z * Z * mat * mv Z) :=\n " +
             lst(f"({lst(zlit(s) for s in sig)}, {zlit(st)}, {matlit(m)}, {mvlit(k, v)})" for sig, st, m, k, v in from_cases) + ".\n")
    fh.write("""
Definition basis_res := map (fun c : list Z * list mat => list_eqb mat_eqb (matrix_rep (fst c)) (snd c)) basis_cases.
Definition as_res := map (fun c : list Z * Z * mv Z * mat =>
  let '(sig, st, x, m) := c in mat_eqb (asmatrix (mk_default sig st false) x) m) as_cases.
Definition from_res := map (fun c : list Z * Z * mat * mv Z =>
  let '(sig, st, m, x) := c in mv_eqb (frommatrix (mk_default sig st false) m) x) from_cases.
Eval vm_compute in (length basis_res, false_idx basis_res).
Eval vm_compute in (length as_res, false_idx as_res).
Eval vm_compute in (length from_res, false_idx from_res).
""")
out = subprocess.run(["coqc", "-Q", os.path.join(HERE, "coq"), "KV", os.path.join(HERE, "Compare.v")],
                     capture_output=True, text=True, timeout=1200)
print(out.stdout)
print(out.stderr[-2000:], file=sys.stderr)
print("signatures compared:", len(basis_cases), " asmatrix cases:", len(as_cases), " frommatrix cases:", len(from_cases))

# d = 0 in Python
try:
    Algebra(0).matrix_basis
    print("Algebra(0).matrix_basis: no exception")
except Exception as e:
    print("Algebra(0).matrix_basis raises", type(e).__name__, e)
# empty multivector
alg = Algebra(2)
print("asmatrix of the empty multivector:", repr(MultiVector.fromkeysvalues(alg, (), []).asmatrix()))
