import random, sys
from kingdon.polynomial import Polynomial as P, RationalPolynomial as RP, compare
from kingdon.codegen import AdditionChains
random.seed(int(sys.argv[1]) if len(sys.argv) > 1 else 1)
names = ['a','b','c','d']
rank = {n:i for i,n in enumerate(names)}
def cm(m): return "(%d, [%s])" % (m[0], "; ".join("%d%%nat" % rank[v] for v in m[1:]))
def cp(p): 
    args = p.args if isinstance(p, P) else p
    return "[%s]" % "; ".join(cm(m) for m in args)
def cr(r): return "(mkR %s %s)" % (cp(r.numer), cp(r.denom))
def cz(z): return "(%d)" % z
def ok_p(p): return isinstance(p, P) and all(isinstance(m[0], int) for m in p.args)
def ok_r(r): return isinstance(r, RP) and ok_p(r.numer) and ok_p(r.denom)
def sched(n):
    ac = AdditionChains(n); chain = ac[n]; out = []; known = {1}
    for s in chain:
        if s not in known:
            c = ac[s]; out.append((c[-2], s - c[-2])); known.add(s)
    return out
def cs(s): return "[%s]" % "; ".join("(%d%%nat, %d%%nat)" % ij for ij in s)
checks = []
def chk(s): checks.append(s)
pool = [P.fromname(n) for n in names] + [P(0), P(1), P(-1), P(2), P([])]
rpool = [RP.fromname(n) for n in names] + [RP([[0]]), RP([[1]]), RP([[2]]), RP([])]
ints = [0, 1, -1, 2, 3, -2]
N = int(sys.argv[2]) if len(sys.argv) > 2 else 300
for it in range(N):
    x, y = random.choice(pool), random.choice(pool); c = random.choice(ints)
    op = random.choice(['add','sub','mul','neg','addz','mulz','eq','eqz','bool','pow','cmp'])
    if op == 'add': r = x + y; chk("poly_eqb (padd %s %s) %s" % (cp(x), cp(y), cp(r)))
    elif op == 'sub': r = x - y; chk("poly_eqb (psub %s %s) %s" % (cp(x), cp(y), cp(r)))
    elif op == 'mul': r = x * y; chk("poly_eqb (pmul %s %s) %s" % (cp(x), cp(y), cp(r)))
    elif op == 'neg': r = -x; chk("poly_eqb (pneg %s) %s" % (cp(x), cp(r)))
    elif op == 'addz': r = random.choice([x + c, c + x]); chk("poly_eqb (padd_Z %s %s) %s" % (cp(x), cz(c), cp(r)))
    elif op == 'mulz': r = random.choice([x * c, c * x]); chk("poly_eqb (pmul_Z %s %s) %s" % (cp(x), cz(c), cp(r)))
    elif op == 'eq': r = None; chk("Bool.eqb (peq %s %s) %s" % (cp(x), cp(y), str(x == y).lower()))
    elif op == 'eqz': r = None; chk("Bool.eqb (peq_Z %s %s) %s" % (cp(x), cz(c), str(x == c).lower()))
    elif op == 'bool': r = None; chk("Bool.eqb (pbool %s) %s" % (cp(x), str(bool(x)).lower()))
    elif op == 'pow':
        n = random.choice([1,2,3,4,5,6,7]); 
        if len(x.args) > 3: n = min(n, 3)
        r = x ** n; chk("opt_eqb poly_eqb (ppow_chain %s %s) (Some %s)" % (cp(x), cs(sched(n)), cp(r)))
    elif op == 'cmp':
        r = None
        if x.args and y.args:
            ma, mb = random.choice(x.args), random.choice(y.args)
            chk("Z.eqb (pcompare (Some %s) (Some %s)) (%d)" % (cm(ma), cm(mb), compare(ma, mb)))
    if r is not None and ok_p(r) and len(r.args) <= 12: pool.append(r)
    if len(pool) > 60: pool.pop(random.randrange(9, len(pool)))
for it in range(N):
    x, y = random.choice(rpool), random.choice(rpool); c = random.choice(ints)
    op = random.choice(['add','sub','mul','div','neg','inv','addz','mulz','subz','rsubz','rdivz','eq','eqz','bool','pow'])
    r = None
    if op == 'add': r = x + y; chk("rpoly_eqb (radd %s %s) %s" % (cr(x), cr(y), cr(r)))
    elif op == 'sub': r = x - y; chk("rpoly_eqb (rsub %s %s) %s" % (cr(x), cr(y), cr(r)))
    elif op == 'mul': r = x * y; chk("rpoly_eqb (rmul %s %s) %s" % (cr(x), cr(y), cr(r)))
    elif op == 'div': r = x / y; chk("rpoly_eqb (rdiv %s %s) %s" % (cr(x), cr(y), cr(r)))
    elif op == 'neg': r = -x; chk("rpoly_eqb (rneg %s) %s" % (cr(x), cr(r)))
    elif op == 'inv':
        r = x.inv()
        if isinstance(r, int): assert r == 0; chk("opt_eqb rpoly_eqb (rinv %s) None" % cr(x)); r = None
        else: chk("opt_eqb rpoly_eqb (rinv %s) (Some %s)" % (cr(x), cr(r)))
    elif op == 'addz': r = random.choice([x + c, c + x]); chk("rpoly_eqb (radd_Z %s %s) %s" % (cr(x), cz(c), cr(r)))
    elif op == 'mulz': r = random.choice([x * c, c * x]); chk("rpoly_eqb (rmul_Z %s %s) %s" % (cr(x), cz(c), cr(r)))
    elif op == 'subz': r = x - c; chk("rpoly_eqb (rsub_Z %s %s) %s" % (cr(x), cz(c), cr(r)))
    elif op == 'rsubz': r = c - x; chk("rpoly_eqb (rrsub_Z %s %s) %s" % (cz(c), cr(x), cr(r)))
    elif op == 'rdivz': r = c / x; chk("rpoly_eqb (rrdiv_Z %s %s) %s" % (cz(c), cr(x), cr(r)))
    elif op == 'eq': chk("Bool.eqb (req %s %s) %s" % (cr(x), cr(y), str(x == y).lower()))
    elif op == 'eqz': chk("Bool.eqb (req_Z %s %s) %s" % (cr(x), cz(c), str(x == c).lower()))
    elif op == 'bool': chk("Bool.eqb (rbool %s) %s" % (cr(x), str(bool(x)).lower()))
    elif op == 'pow':
        n = random.choice([1,2,3,4,5,6])
        if len(x.numer.args) + len(x.denom.args) > 4: n = min(n, 2)
        r = x ** n; chk("opt_eqb rpoly_eqb (rpow_chain %s %s) (Some %s)" % (cr(x), cs(sched(n)), cr(r)))
    if r is not None and ok_r(r) and len(r.numer.args) <= 8 and len(r.denom.args) <= 8: rpool.append(r)
    if len(rpool) > 60: rpool.pop(random.randrange(8, len(rpool)))
print("From KV Require Import Model.Poly.\nLocal Open Scope Z_scope.")
print("Definition checks : list bool := [\n  %s\n]." % ";\n  ".join(checks))
print("Compute (length checks, false_idx checks).")
