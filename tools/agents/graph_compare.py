"""Compare Model/Graph.v with the real kingdon.graph on random subject trees.
Generates /tmp/kvagents/graph/py/GraphCases.v (not part of the project), to be run with coqc; every
`Eval vm_compute in false_idx ...` must print [].
Also checks, in Python only, the PROPERTY itself on the real code: the front end's decode (graph.js mirrored
here) of widget.subjects against per-blade coefficients obtained independently through getattr."""
import random, sys
import numpy as np
from kingdon import Algebra, MultiVector

random.seed(int(sys.argv[1]) if len(sys.argv) > 1 else 1)
ALGS = {'A2': Algebra(2), 'P2': Algebra(2, 0, 1), 'A3': Algebra(3)}
CANON = {n: list(a.canon2bin.values()) for n, a in ALGS.items()}


# ---------- random trees (tagged tuples) ----------
def rand_mv(an):
    canon = CANON[an]
    kind = random.choice(['sparse', 'canon', 'binary', 'perm', 'sparseperm', 'array', 'array', 'ndarray', 'nd1'])
    if kind in ('sparse',):
        keys = [k for k in canon if random.random() < 0.5] or [canon[0]]
    elif kind == 'canon':
        keys = list(canon)
    elif kind == 'binary':
        keys = sorted(canon)
    elif kind == 'perm':
        keys = random.sample(canon, len(canon))
    elif kind == 'sparseperm':
        keys = random.sample(canon, random.randint(1, len(canon)))
    else:
        keys = random.choice([list(canon), sorted(canon), random.sample(canon, random.randint(1, len(canon)))])
    if kind in ('array', 'ndarray'):
        n = random.randint(1, 3) if kind == 'array' else random.randint(1, 3)
        vals = [[random.randint(-9, 9) for _ in range(n)] for _ in keys]
        return ('mv', an, keys, vals, True, 'nparr' if kind == 'array' else 'nd')
    vals = [[random.randint(-9, 9)] for _ in keys]
    return ('mv', an, keys, vals, False, 'nd1' if kind == 'nd1' else 'list')


def rand_subj(an, depth):
    r = random.random()
    if depth <= 0 or r < 0.45:
        r2 = random.random()
        if r2 < 0.15:
            return ('num', random.randint(0, 0xFFFFFF))
        if r2 < 0.3:
            return ('str', random.randint(0, 5))
        return rand_mv(an)
    if r < 0.65:
        return ('list', [rand_subj(an, depth - 1) for _ in range(random.randint(0, 3))])
    if r < 0.8:
        return ('tuple', [rand_subj(an, depth - 1) for _ in range(random.randint(0, 3))])
    return ('call', rand_subj(an, depth - 1))


# ---------- tree -> Python object ----------
def to_py(t):
    tag = t[0]
    if tag == 'num':
        return t[1]
    if tag == 'str':
        return f"s{t[1]}"
    if tag == 'mv':
        _, an, keys, vals, arr, kind = t
        alg = ALGS[an]
        if kind == 'list':
            v = [c[0] for c in vals]
        elif kind == 'nd1':
            v = np.array([float(c[0]) for c in vals])
        elif kind == 'nparr':
            v = [np.array(c) for c in vals]
        else:
            v = np.array(vals, dtype=float)
        return MultiVector.fromkeysvalues(alg, tuple(keys), v)
    if tag == 'list':
        return [to_py(x) for x in t[1]]
    if tag == 'tuple':
        return tuple(to_py(x) for x in t[1])
    if tag == 'call':
        val = to_py(t[1])
        return lambda: val
    raise ValueError(tag)


# ---------- Coq printing ----------
def cz(n):
    n = int(n)
    return f"({n})" if n < 0 else str(n)


def clist(xs):
    return "[" + "; ".join(xs) + "]"


def czl(xs):
    return clist([cz(x) for x in xs])


def to_coq(t):
    tag = t[0]
    if tag == 'num':
        return f"SNum {cz(t[1])}"
    if tag == 'str':
        return f"SStr {t[1]}%nat"
    if tag == 'mv':
        _, an, keys, vals, arr, kind = t
        return f"SMv (mkG {czl(keys)} {clist([czl(c) for c in vals])} {'true' if arr else 'false'})"
    if tag == 'list':
        return f"SList {clist([to_coq(x) for x in t[1]])}"
    if tag == 'tuple':
        return f"STuple {clist([to_coq(x) for x in t[1]])}"
    if tag == 'call':
        return f"SCall ({to_coq(t[1])})"


def num_of(x):
    f = float(x)
    assert f == int(f), x
    return int(f)


def mv_vals(v):
    """the 'mv' entry as the front end sees it: a DataView is read as Float64Array"""
    if isinstance(v, (bytes, bytearray)):
        return [num_of(x) for x in np.frombuffer(v, dtype=np.float64)]
    return [num_of(x) for x in v]


def payload_to_coq(p):
    if isinstance(p, dict):
        assert set(p) <= {'mv', 'keys'} and 'mv' in p, p
        vals = czl(mv_vals(p['mv']))
        if 'keys' in p:
            return f"PMv {vals} (Some {czl(p['keys'])})"
        return f"PMv {vals} None"
    if isinstance(p, tuple):
        return f"PTuple {clist([payload_to_coq(x) for x in p])}"
    if isinstance(p, list):
        return f"PList {clist([payload_to_coq(x) for x in p])}"
    if isinstance(p, str):
        return f"PStr {int(p[1:])}%nat"
    if isinstance(p, (int, np.integer)):
        return f"PNum {cz(p)}"
    raise ValueError(repr(p))


# ---------- graph.js mirrored ----------
def js_to_element(o, key2idx):
    _values = mv_vals(o['mv'])
    if 'keys' in o:
        values = [0] * len(key2idx)
        for j, k in enumerate(o['keys']):
            values[key2idx[k]] = _values[j]
        return ('E', values)
    return ('E', _values)


def js_decode(x, key2idx):
    if isinstance(x, dict) and 'mv' in x:
        return js_to_element(x, key2idx)
    if isinstance(x, (list, tuple)):      # JSON: tuples are arrays
        return [js_decode(y, key2idx) for y in x]
    return x


def elem_to_coq(e):
    if isinstance(e, tuple) and e[0] == 'E':
        return f"EMv {czl(e[1])}"
    if isinstance(e, list):
        return f"EList {clist([elem_to_coq(x) for x in e])}"
    if isinstance(e, str):
        return f"EStr {int(e[1:])}%nat"
    return f"ENum {cz(e)}"


# ---------- the property, independently of graph.py: per-blade coefficients through getattr ----------
def truth(t):
    """what the front end should see for the subject t (a list of items contributed to the enclosing list)"""
    tag = t[0]
    if tag in ('num',):
        return [t[1]]
    if tag == 'str':
        return [f"s{t[1]}"]
    if tag == 'mv':
        _, an, keys, vals, arr, kind = t
        alg = ALGS[an]
        mv = to_py(t)
        cols = []
        for name in alg.canon2bin:            # canonical blade order
            c = getattr(mv, name)
            cols.append(c)
        if not arr:
            return [('E', [num_of(c) for c in cols])]
        n = len(vals[0])
        return [('E', [num_of(c[i]) if not isinstance(c, int) else c for c in cols]) for i in range(n)]
    if tag in ('list', 'tuple'):
        return [[y for x in t[1] for y in truth(x)]]
    if tag == 'call':
        return truth(t[1])


def pre_subjects_tree(raw):
    if len(raw) == 1 and raw[0][0] == 'call':
        r = raw[0][1]
        return r[1] if r[0] in ('list', 'tuple') else [r]
    return raw


out = []
out.append("From KV Require Import Model.Graph.\nLocal Open Scope Z_scope.\n")
enc_cases, dec_cases, k2i_cases, inp_cases, idx_cases = [], [], [], [], []
prop_failures = []

NCASES = 60
for c in range(NCASES):
    an = random.choice(list(ALGS))
    alg = ALGS[an]
    canon = CANON[an]
    nraw = random.choice([1, 1, 2, 3, 4])
    raw = [rand_subj(an, 3) for _ in range(nraw)]
    if c % 7 == 0:   # the "single callable returning the list of subjects" form
        raw = [('call', ('list', raw))]
    if c % 11 == 3:
        raw = [('call', raw[0])]
    w = alg.graph(*[to_py(t) for t in raw])
    subjects = w.subjects
    rawc = clist([to_coq(t) for t in raw])
    canc = czl(canon)
    enc_cases.append(f"list_eqb payload_eqb (graph_subjects {canc} {rawc}) {clist([payload_to_coq(p) for p in subjects])}")
    key2idx = w.key2idx
    dec = js_decode(subjects, key2idx)
    dec_cases.append(f"list_eqb elem_eqb (map (decode {canc}) (graph_subjects {canc} {rawc})) {clist([elem_to_coq(e) for e in dec])}")
    # property on the real code
    want = [y for t in pre_subjects_tree(raw) for y in truth(t)]
    if want != dec:
        prop_failures.append((c, raw, want, dec))
    # draggable idxs
    pga = alg.r == 1 and alg.d in (3, 4)
    pgac = f"(Some {alg.d - 1})" if pga else "None"
    pre = pre_subjects_tree(raw)
    # array-valued multivectors have .grades too
    idx_cases.append(f"list_eqb payload_eqb (draggable_points_default {canc} {pgac} (pre_subjects {rawc})) {clist([payload_to_coq(p) for p in w.draggable_points])}")
    idx_cases.append(f"list_eqb Nat.eqb (draggable_idxs {pgac} (pre_subjects {rawc})) {clist([str(i) + '%nat' for i in w.draggable_points_idxs])}")

for an, alg in ALGS.items():
    w = alg.graph()
    canon = CANON[an]
    for k in range(-1, 2 ** alg.d + 2):
        got = w.key2idx.get(k)
        k2i_cases.append(f"opt_eqb Nat.eqb (key2idx {czl(canon)} {cz(k)}) {('(Some ' + str(got) + '%nat)') if got is not None else 'None'}")

# inplacereplace on plain multivectors
for c in range(60):
    an = random.choice(list(ALGS))
    alg = ALGS[an]
    canon = CANON[an]
    while True:
        t = rand_mv(an)
        if not t[4]:
            break
    mv = to_py(t)
    other = to_py(('mv', an, canon, [[0]] * len(canon), False, 'list'))
    w = alg.graph(other, mv)
    cur = js_decode(w.subjects, w.key2idx)[1][1]
    new = [x if random.random() < 0.4 else random.randint(-9, 9) for x in cur]
    if c % 2 == 0:
        w.inplacereplace(w.pre_subjects, [(1, {'mv': new})])
    else:
        # through the traitlet, as the front end does: all draggable points are reported
        idxs = w.draggable_points_idxs
        pts = [js_decode(w.subjects, w.key2idx)[i] for i in idxs]
        rep = [{'mv': list(p[1])} for p in pts]
        if 1 in idxs:
            rep[idxs.index(1)] = {'mv': new}
            w.draggable_points = rep
        else:
            w.inplacereplace(w.pre_subjects, [(1, {'mv': new})])
    after = [[num_of(x)] for x in mv._values]
    mc = to_coq(t)[4:]   # strip "SMv "
    inp_cases.append(f"gmv_eqb (inplace_one {czl(canon)} {mc} {czl(new)}) (mkG {czl(t[2])} {clist([czl(x) for x in after])} false)")
    # and what is re-sent
    dec = js_decode(w.get_subjects(), w.key2idx)[1][1]
    want = [new[i] if canon[i] in t[2] else 0 for i in range(len(canon))]
    if dec != want:
        prop_failures.append(('inplace', c, t, new, dec, want))

for name, cases in [('enc', enc_cases), ('dec', dec_cases), ('k2i', k2i_cases), ('inp', inp_cases), ('idx', idx_cases)]:
    out.append(f"Definition {name}_cases : list bool := [\n  " + ";\n  ".join(cases) + "\n].")
    out.append(f"Eval vm_compute in (length {name}_cases, false_idx {name}_cases).\n")

open('/tmp/kvagents/graph/py/GraphCases.v', 'w').write("\n".join(out))
print("property failures on the real code:", len(prop_failures))
for f in prop_failures[:5]:
    print(f)
