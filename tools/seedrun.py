#!/venv/bin/python
"""Re-run registered checks against a kept seeded change.

  tools/seedrun.py <seeded dir name, e.g. C09_3> [property ids ... (default: the seed's own property)] [--tier quick]

Applies /verif/seeded/<name>/patch.diff in a private scratch worktree of /repo under /tmp/wt/_run_<name>,
runs the checks from a private copy of /verif (KV_REPO pointing at the patched worktree, so /verif and /repo are
not disturbed), prints the VIOLATION / summary lines, updates meta.json["checks"] / ["detected_by"], and removes
the worktree and the copy."""
import json, os, shutil, subprocess, sys, time

args = [a for a in sys.argv[1:] if not a.startswith('--')]
name = args[0]
seed = f'/verif/seeded/{name}'
meta_p = os.path.join(seed, 'meta.json')
meta = json.load(open(meta_p)) if os.path.exists(meta_p) else {'property': name[:3]}
props = args[1:] or [meta.get('property', name[:3])]
tier = 'quick'
wt = f'/tmp/wt/_run_{name}'
copy = f'/tmp/vmut/{name}'


def sh(cmd, cwd=None, timeout=7200, env=None):
    p = subprocess.run(cmd, shell=True, cwd=cwd, capture_output=True, text=True, timeout=timeout, env=env)
    return p.returncode, p.stdout + p.stderr


os.makedirs('/tmp/wt', exist_ok=True)
sh(f'git -C /repo worktree remove --force {wt}')
rc, out = sh(f'git -C /repo worktree add -q --detach {wt} HEAD')
assert rc == 0, out
try:
    rc, out = sh(f'git apply {seed}/patch.diff', wt)
    if rc != 0:
        rc, out = sh(f'git apply -3 {seed}/patch.diff', wt)
    assert rc == 0, 'patch does not apply to the current /repo HEAD: ' + out
    shutil.rmtree(copy, ignore_errors=True)
    os.makedirs('/tmp/vmut', exist_ok=True)
    sh(f'rsync -a --exclude .git --exclude .work --exclude seeded /verif/ {copy}/')
    meta.setdefault('checks', {})
    for p in props:
        t0 = time.time()
        e2 = dict(os.environ, KV_REPO=wt, KV_JOBS=os.environ.get('KV_JOBS', '8'))
        e2.pop('KV_REEXEC', None)
        rc, out = sh(f'./check {p} {tier}', copy, 7200, env=e2)
        lines = [l for l in out.splitlines() if l.startswith(('VIOLATION', 'KNOWN-FINDING', 'MACHINERY', p, 'Traceback'))]
        meta['checks'][p] = {'exit': rc, 'wall_s': round(time.time() - t0, 1), 'lines': lines[:6],
                             'detail': [l.strip()[:300] for l in out.splitlines() if l.startswith('  ')][:3]}
        print(p, 'exit', rc, f'{time.time() - t0:.0f}s')
        for l in lines[:4] + meta['checks'][p]['detail'][:2]:
            print('   ', l[:260])
        if rc not in (0, 1) or not lines:
            print(out[-1500:])
    meta['detected_by'] = sorted(p for p, c in meta['checks'].items()
                                 if c['exit'] == 1 and any(l.startswith('VIOLATION') for l in c['lines']))
    if os.path.isdir(seed):
        json.dump(meta, open(meta_p, 'w'), indent=1)
    print('detected_by', meta['detected_by'])
finally:
    shutil.rmtree(copy, ignore_errors=True)
    sh(f'git -C /repo worktree remove --force {wt}')
