#!/venv/bin/python
"""Confirm a seeded change produced by an independent sub-agent and run the registered check against it.

  tools/seedcheck.py <Cxx> <n> [more property ids to run the check for]

Uses the sub-agent's scratch worktree /tmp/wt/<Cxx> (a git worktree of /repo) and its deliverables in
/tmp/wt/<Cxx>.out/<n>/.  Steps: demo passes on the clean worktree; patch applies; the 105 tests pass
with it; the demo fails with it; the check (run from a private copy of /verif with KV_REPO pointing at
the patched worktree, so that concurrent work in /verif and /repo is not disturbed) reports a
VIOLATION.  The change is kept as /verif/seeded/<Cxx>_<n>/ with meta.json recording all of this.
"""
import json, os, shutil, subprocess, sys, time

pid, n = sys.argv[1], sys.argv[2]          # pid = worktree tag: C07 or, for later rounds, C07r2
prop = pid[:3]
props = [prop] + sys.argv[3:]
wt = f'/tmp/wt/{pid}'
src = f'/tmp/wt/{pid}.out/{n}'
patch = os.path.join(src, 'patch.diff')
dest = f'/verif/seeded/{pid}_{n}'
env = dict(os.environ, PYTHONPATH=wt, PYTHONHASHSEED='0', PYTHONDONTWRITEBYTECODE='1')


def sh(cmd, cwd=None, timeout=3600, env=env):
    p = subprocess.run(cmd, shell=True, cwd=cwd, capture_output=True, text=True, timeout=timeout, env=env)
    return p.returncode, (p.stdout + p.stderr)


meta = {'property': prop, 'n': n, 'round_tag': pid, 'steps': {}}
rc, out = sh('git status --short', wt)
assert out.strip() == '', f'worktree {wt} not clean: {out}'
rc, out = sh(f'/venv/bin/python {src}/demo.py', wt, 900)
meta['steps']['demo_clean_exit'] = rc
rc, out = sh(f'git apply {patch}', wt)
assert rc == 0, out
try:
    rc, out = sh('/venv/bin/python -m pytest -q -p no:cacheprovider -n 6 --timeout=900 2>&1 | tail -3', wt, 1800)
    meta['steps']['pytest_with_change'] = out.strip().splitlines()[-1] if out.strip() else ''
    rc, out = sh(f'/venv/bin/python {src}/demo.py', wt, 900)
    meta['steps']['demo_changed_exit'] = rc
    meta['steps']['demo_changed_tail'] = out.strip()[-400:]
    copy = f'/tmp/vmut/{pid}_{n}'
    shutil.rmtree(copy, ignore_errors=True)
    os.makedirs('/tmp/vmut', exist_ok=True)
    sh(f'rsync -a --exclude .git --exclude .work --exclude seeded /verif/ {copy}/')
    meta['checks'] = {}
    for p in props:
        t0 = time.time()
        e2 = dict(os.environ, KV_REPO=wt, KV_JOBS='6')
        e2.pop('KV_REEXEC', None)
        rc, out = sh(f'./check {p} quick', copy, 5400, env=e2)
        lines = [l for l in out.splitlines() if l.startswith(('VIOLATION', 'KNOWN-FINDING', 'MACHINERY', p))]
        meta['checks'][p] = {'exit': rc, 'wall_s': round(time.time() - t0, 1), 'lines': lines[:6],
                             'detail': [l.strip()[:300] for l in out.splitlines() if l.startswith('  ')][:3]}
    shutil.rmtree(copy, ignore_errors=True)
finally:
    sh('git checkout -- .', wt)
    sh('git clean -fdq', wt)
ok_mutant = (meta['steps']['demo_clean_exit'] == 0 and meta['steps']['demo_changed_exit'] != 0
             and '105 passed' in meta['steps']['pytest_with_change'])
meta['confirmed'] = ok_mutant
meta['detected_by'] = [p for p, c in meta.get('checks', {}).items() if c['exit'] == 1 and any(l.startswith('VIOLATION') for l in c['lines'])]
if ok_mutant:
    os.makedirs(dest, exist_ok=True)
    shutil.copy(patch, dest)
    shutil.copy(os.path.join(src, 'demo.py'), dest)
    if os.path.exists(os.path.join(src, 'notes.md')):
        shutil.copy(os.path.join(src, 'notes.md'), dest)
    meta['what_it_needs'] = 'see notes.md'
    meta['ran'] = ['demo.py on the clean worktree (exit 0)', 'git apply patch.diff', 'pytest -n 6 (105 passed)', 'demo.py with the change (non-zero exit)',
                   f'./check {" ".join(props)} quick with KV_REPO=<patched worktree> from a private copy of /verif']
    json.dump(meta, open(os.path.join(dest, 'meta.json'), 'w'), indent=1)
print(json.dumps(meta, indent=1))
