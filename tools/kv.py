"""Shared machinery of the /verif checks: Coq term emission, running the Gallina model on generated
cases inside coqc (vm_compute), evidence, known findings, violation reports.

Everything random derives from one `random.Random(seed)`; nothing here writes outside /verif/.work,
/verif/evidence and (replays) /verif/.work/replay.
"""
import json, os, re, subprocess, sys, time, random, hashlib, shutil
from concurrent.futures import ThreadPoolExecutor

ROOT = os.path.dirname(os.path.dirname(os.path.abspath(__file__)))
COQ = os.path.join(ROOT, 'coq')
WORK = os.path.join(ROOT, '.work')
REPO = os.environ.get('KV_REPO', '/repo')
JOBS = int(os.environ.get('KV_JOBS', '16'))


class MachineryError(Exception):
    """The check itself is broken (coqc crashed on a cases file, ...): exit 2, no claim."""


# ----------------------------------------------------------------------------- Gallina terms
def Z(n):
    n = int(n)
    return f'({n})' if n < 0 else f'{n}'


def zlist(xs):
    return '[' + '; '.join(Z(x) for x in xs) + ']'


def nat(n):
    return f'{int(n)}%nat'


def natlist(xs):
    return '[' + '; '.join(nat(x) for x in xs) + ']'


def name(s):
    """'e31' or '31' -> [3;1]%nat (hex digit values)."""
    if s.startswith('e'):
        s = s[1:]
    return natlist(int(c, 16) for c in s)


def blist(xs):
    return '[' + '; '.join(xs) + ']'


def boolt(b):
    return 'true' if b else 'false'


def pair(a, b):
    return f'({a}, {b})'


def alg_term(spec):
    """spec: dict(sig=[...], start=int|None, basis=[names]|None, graded=bool) -> Gallina term : res alg"""
    sig = zlist(spec['sig'])
    graded = boolt(spec.get('graded', False))
    if spec.get('basis'):
        return f'(mk_custom {sig} {blist(name(b) for b in spec["basis"])} {graded})'
    start = spec.get('start')
    if start is None:
        start = 0 if list(spec['sig']).count(0) == 1 else 1
    return f'(Ok (mk_default {sig} {Z(start)} {graded}))'


# ----------------------------------------------------------------------------- running the model
def _coqc(path, timeout):
    cmd = ['coqc', '-Q', COQ, 'KV', '-w', '-notation-overridden,-deprecated-hint-without-locality', path]
    try:
        p = subprocess.run(cmd, capture_output=True, text=True, timeout=timeout)
    except subprocess.TimeoutExpired:
        raise MachineryError(f'coqc timed out on {path}')
    if p.returncode != 0:
        raise MachineryError(f'coqc failed on {path}:\n{p.stdout[-2000:]}\n{p.stderr[-4000:]}')
    return p.stdout


def _parse_natlist(out):
    m = re.search(r'=\s*(\[.*?\])\s*(?:%nat)?\s*:\s*list nat', out, re.S)
    if not m:
        raise MachineryError('cannot parse coqc output: ' + out[-500:])
    return [int(x) for x in re.findall(r'\d+', m.group(1))]


def run_cases(tag, cases, prelude='', imports='Model.All', shard=300, timeout=900):
    """cases: list of dicts with 'check' (Gallina term : bool, true = model and implementation agree)
    and optionally 'show' (term printed for a failing case).  Returns (failing indices, {idx: model value text}).
    The comparison itself is evaluated by Coq's VM; only indices come back."""
    d = os.path.join(WORK, 'cases', tag)
    shutil.rmtree(d, ignore_errors=True)
    os.makedirs(d)
    head = f'From KV Require Import {imports}.\nOpen Scope Z_scope.\n{prelude}\n'
    def defs_of(sh):
        seen, out = set(), []
        for c in sh:
            for dfn in c.get('defs', ()):
                if dfn not in seen:
                    seen.add(dfn)
                    out.append(dfn)
        return '\n'.join(out) + '\n'
    def run_shard(name, idxs):
        # -> global indices of failing cases; a shard that exceeds the time limit is split in two and retried (one slow case must
        # not hide the verdicts of the others); a single case that exceeds it is a machinery error
        sh = [cases[i] for i in idxs]
        p = os.path.join(d, f'{name}.v')
        with open(p, 'w') as f:
            f.write(head + defs_of(sh))
            f.write('Definition verdicts : list bool := [\n')
            f.write(';\n'.join(f'  ({c["check"]})' for c in sh))
            f.write('\n].\nEval vm_compute in (false_idx verdicts).\n')
        try:
            return [idxs[i] for i in _parse_natlist(_coqc(p, timeout))]
        except MachineryError as e:
            if 'timed out' not in str(e) or len(idxs) == 1:
                raise
            h = len(idxs) // 2
            return run_shard(name + 'a', idxs[:h]) + run_shard(name + 'b', idxs[h:])
    groups = [list(range(i, min(i + shard, len(cases)))) for i in range(0, len(cases), shard)]
    with ThreadPoolExecutor(JOBS) as ex:
        outs = list(ex.map(lambda t: run_shard(f's{t[0]}', t[1]), enumerate(groups)))
    bad = sorted(i for o in outs for i in o)
    shown = {}
    for i in bad[:5]:
        if cases[i].get('show'):
            p = os.path.join(d, f'show{i}.v')
            with open(p, 'w') as f:
                f.write(head + defs_of([cases[i]]) + f'Eval vm_compute in ({cases[i]["show"]}).\n')
            try:
                shown[i] = _coqc(p, timeout).strip()[-3000:]
            except MachineryError as e:
                shown[i] = f'<model evaluation failed: {e}>'
    return bad, shown


def eval_terms(tag, terms, prelude='', imports='Model.All', timeout=900):
    """Evaluate Gallina terms with vm_compute and return the printed text of each (used sparingly)."""
    d = os.path.join(WORK, 'cases', tag)
    os.makedirs(d, exist_ok=True)
    p = os.path.join(d, 'eval.v')
    with open(p, 'w') as f:
        f.write(f'From KV Require Import {imports}.\nOpen Scope Z_scope.\n{prelude}\n')
        for i, t in enumerate(terms):
            f.write(f'Definition kv_t{i} := {t}.\nEval vm_compute in kv_t{i}.\n')
    out = _coqc(p, timeout)
    parts = re.split(r'\n(?=\s*=)', '\n' + out)
    return [x.strip() for x in parts if x.strip()]


# ----------------------------------------------------------------------------- known findings
def load_findings():
    res = []
    path = os.path.join(ROOT, 'known_findings.txt')
    if not os.path.exists(path):
        return res
    for line in open(path):
        line = line.strip()
        if not line or line.startswith('#'):
            continue
        kind, rest = line.split(':', 1)
        rec = {'kind': kind.strip(), 'raw': line}
        m = re.search(r'property=(C\d+)', rest)
        rec['property'] = m.group(1) if m else None
        m = re.search(r'\bid=(\S+)', rest)
        rec['id'] = m.group(1) if m else None
        m = re.search(r'match=(\{.*?\})\s+what=', rest)
        rec['match'] = json.loads(m.group(1)) if m else None
        m = re.search(r'what=(.*?)(?:\s+replay=(\S+))?$', rest)
        if m:
            rec['what'] = m.group(1).strip()
            rec['replay'] = m.group(2)
        res.append(rec)
    return res


def matches_finding(case_class, finding):
    """case_class: dict describing the (shrunk) failing case; a finding matches when every key of
    its match predicate is present with an equal value."""
    m = finding.get('match')
    if not m:
        return False
    return all(case_class.get(k) == v for k, v in m.items())


# ----------------------------------------------------------------------------- a run
class Run:
    def __init__(self, pid, tier, seed):
        self.pid, self.tier, self.seed = pid, tier, seed
        self.rng = random.Random(seed)
        self.t0 = time.time()
        self.evaluations = 0
        self.distinct = set()
        self.samples = []
        self.dist = {}
        self.violations = []          # (case_class, replay_path, description)
        self.known = []               # finding records re-confirmed
        self.notes = []
        self.fidelity_notes = 0
        self.findings = [f for f in load_findings() if f['kind'] == 'finding' and f['property'] == pid]

    def count(self, key, n=1):
        self.dist[key] = self.dist.get(key, 0) + n

    def case(self, fingerprint, nontrivial=True, sample=None):
        self.evaluations += 1
        if nontrivial:
            self.distinct.add(hashlib.sha1(repr(fingerprint).encode()).hexdigest()[:16])
        if sample is not None and len(self.samples) < 6:
            self.samples.append(sample)

    def violation(self, case_class, replay, what):
        """Report a failing input unless it is a listed known finding."""
        for f in self.findings:
            if matches_finding(case_class, f):
                if f not in self.known:
                    self.known.append(f)
                return False
        self.n_violations = getattr(self, 'n_violations', 0) + 1
        self.all_failures = getattr(self, 'all_failures', [])
        self.all_failures.append((case_class, json.loads(json.dumps(replay, default=str))))
        if len(self.violations) >= 8:          # keep the first few replays, count the rest
            return True
        os.makedirs(os.path.join(WORK, 'replay'), exist_ok=True)
        path = os.path.join(WORK, 'replay', f'{self.pid}_{len(self.violations)}.json')
        with open(path, 'w') as fh:
            json.dump({'property': self.pid, 'class': case_class, 'what': what, 'replay': replay,
                       'seed': self.seed, 'tier': self.tier}, fh, indent=1, default=str)
        self.violations.append((case_class, path, what))
        return True

    def confirm_known(self, finding_id, still_fails, what=None):
        for f in self.findings:
            if f['id'] == finding_id and still_fails and f not in self.known:
                self.known.append(f)


def replay_by_rerun(mod, pid, rec):
    """Generic replay for checks whose failing cases are not self-contained: every input derives from the seed, so the
    recorded run (same seed, same tier) is regenerated on the current tree; the replay passes iff the recorded failing
    case (same class, same payload) does not fail again.  Known findings are not consulted."""
    R2 = Run(pid, rec.get('tier', 'quick'), int(rec.get('seed', 20260926)))
    R2.findings = []
    mod.run(R2, R2.tier)
    want = (rec.get('class'), json.loads(json.dumps(rec.get('replay'), default=str)))
    for cls, rep in getattr(R2, 'all_failures', []):
        if cls == want[0] and rep == want[1]:
            return False
    # payloads may contain run-dependent text (model output, timings): fall back to class + clause-level identity
    same_cls = [1 for cls, rep in getattr(R2, 'all_failures', []) if cls == want[0]]
    return not same_cls
