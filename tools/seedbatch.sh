#!/bin/sh
# tools/seedbatch.sh <Cxx> ... : confirm the three changes of each finished mutation agent and run the check against them
for p in "$@"; do
  git -C /tmp/wt/$p checkout -q -- . ; git -C /tmp/wt/$p clean -fdq; git -C /tmp/wt/$p checkout -q --detach $(git -C /repo rev-parse HEAD)
  for n in 1 2 3; do
    /verif/tools/seedcheck.py $p $n $EXTRA > /tmp/wt/$p.out/seedcheck_$n.log 2>&1
    /venv/bin/python - $p $n <<'PY'
import json,sys
p,n=sys.argv[1:3]
t=open(f'/tmp/wt/{p}.out/seedcheck_{n}.log').read()
try:
    m=json.loads(t[t.index('{'):]); print(p,n,'confirmed',m.get('confirmed'),'detected_by',m.get('detected_by'),{k:(v['exit'],v['wall_s']) for k,v in m.get('checks',{}).items()}, flush=True)
except Exception as e: print(p,n,'ERR',t[-400:], flush=True)
PY
  done
done
