"""Shared generator / runner for the operator correspondences (C02-C05, C08, C13, C14):
random and exhaustive key patterns, integer-valued multivectors, running the real kingdon operator and
emitting the Gallina term that evaluates the model operator on the same operands."""
import itertools, warnings
import kv, algs

BINARY = ['gp', 'op', 'ip', 'lc', 'rc', 'sp', 'cp', 'acp', 'rp', 'add', 'sub']
UNARY = ['neg', 'reverse', 'involute', 'conjugate', 'hodge', 'unhodge']
ERRMAP = {'ZeroDivisionError': 'EZeroDiv', 'ValueError': 'EValue', 'KeyError': 'EKey', 'TypeError': 'EType',
          'IndexError': 'EIndex', 'AttributeError': 'EAttr', 'AlgebraError': 'EAlgebra',
          'NotImplementedError': 'ENotImpl'}


def err_term(e):
    return 'Err ' + ERRMAP.get(type(e).__name__, 'EOther')


def mv_term(items):
    return kv.blist(kv.pair(kv.Z(k), kv.Z(v)) for k, v in items)


def ordered_subsets(keys):
    for r in range(len(keys) + 1):
        for p in itertools.permutations(keys, r):
            yield tuple(p)


def subsets(keys):
    for r in range(len(keys) + 1):
        for c in itertools.combinations(keys, r):
            yield tuple(c)


def random_keys(rng, alg, style=None):
    canon = list(alg.canon2bin.values())
    n = len(canon)
    style = style or rng.choice(['sparse', 'sparse', 'sparse', 'grade', 'grades', 'full', 'binary', 'empty', 'single', 'dense'])
    if style == 'empty':
        ks = []
    elif style == 'single':
        ks = [rng.choice(canon)]
    elif style == 'full':
        ks = canon[:]
    elif style == 'binary':
        ks = list(range(n))
    elif style == 'grade':
        g = rng.randrange(alg.d + 1)
        ks = list(alg.indices_for_grade[g])
    elif style == 'grades':
        gs = sorted(rng.sample(range(alg.d + 1), rng.randint(1, alg.d + 1)))
        ks = [k for g in gs for k in alg.indices_for_grade[g]]
    elif style == 'dense':
        ks = [k for k in canon if rng.random() < 0.7]
    else:
        m = rng.randint(1, min(n, 6))
        ks = rng.sample(canon, m)
    if style not in ('full', 'binary', 'grade', 'grades') or rng.random() < 0.3:
        if rng.random() < 0.6:
            rng.shuffle(ks)
    return tuple(ks), style


def random_values(rng, n, lo=-9, hi=9, zero_p=0.1):
    out = []
    for _ in range(n):
        if rng.random() < zero_p:
            out.append(0)
        else:
            v = 0
            while v == 0:
                v = rng.randint(lo, hi)
            out.append(v)
    return out


def make_mv(alg, keys, values):
    from kingdon import MultiVector
    return MultiVector.fromkeysvalues(alg, tuple(keys), list(values))


def observe(mv):
    return [(int(k), int(v)) for k, v in zip(mv.keys(), mv.values())]


import operator as _op
INFIX = {'gp': _op.mul, 'op': _op.xor, 'ip': _op.or_, 'rp': _op.and_, 'sw': _op.rshift, 'proj': _op.matmul, 'add': _op.add,
         'sub': _op.sub, 'div': _op.truediv, 'neg': _op.neg, 'reverse': _op.invert}
_form = [0]


def call_impl(alg, opname, *mvs):
    """-> ('ok', items) | ('err', exception).  The three public forms of an operator are used in turn:
    alg.op(x, y), the method x.op(y) and, where kingdon defines one, the infix / prefix operator."""
    _form[0] += 1
    try:
        form = _form[0] % 3
        if form == 1 and hasattr(mvs[0], opname):
            r = getattr(mvs[0], opname)(*mvs[1:])
        elif form == 2 and opname in INFIX:
            r = INFIX[opname](*mvs)
        else:
            r = getattr(alg, opname)(*mvs)
        return 'ok', observe(r)
    except Exception as e:  # noqa
        return 'err', e


def model_call(opname, args):
    """Gallina term : res (mv Z) for operator `opname` applied to the mv terms `args` in algebra A."""
    a = ' '.join(args)
    if opname == 'polarity':
        return f'(polarity Zops A {a})'
    return f'(Ok ({opname} Zops A {a}))'


def case_for(pool, spec, alg, opname, operands, level='same'):
    """operands: list of item lists [(k, v)...]; runs the implementation, returns the case dict."""
    mvs = [make_mv(alg, [k for k, _ in it], [v for _, v in it]) for it in operands]
    kind, out = call_impl(alg, opname, *mvs)
    ref, dfn = pool.ref(spec)
    args = [mv_term(it) for it in operands]
    exp = f'(Ok {mv_term(out)})' if kind == 'ok' else f'({err_term(out)})'
    cmp = 'resmv_same' if level == 'same' else 'resmv_equiv'
    chk = f'{cmp} A {model_call(opname, args)} {exp}'
    return {'check': algs.with_alg(ref, chk), 'show': algs.with_alg(ref, model_call(opname, args), '(Err EOther)'),
            'defs': [dfn],
            'meta': {'spec': spec, 'op': opname, 'operands': operands,
                     'impl': out if kind == 'ok' else f'{type(out).__name__}: {out}'}}


def coeff_map(items):
    d = {}
    for k, v in items:
        d.setdefault(k, v)      # first match, as __getattr__
    return d


def same_element(a, b):
    """two item lists denote the same element (absent = 0)"""
    da, db = coeff_map(a), coeff_map(b)
    return all(da.get(k, 0) == db.get(k, 0) for k in set(da) | set(db))


def lin(*terms):
    """linear combination of item lists: terms = (coefficient, items)"""
    d = {}
    for c, it in terms:
        for k, v in coeff_map(it).items():
            d[k] = d.get(k, 0) + c * v
    return [(k, v) for k, v in d.items()]
