"""Observation of kingdon's caches from OUTSIDE (no source hook): class-level wrappers around the
three __getitem__ methods and module-level wrappers around do_codegen / do_compile / builtins.compile.
Records, per algebra object id: the sequence of code-generation events, the nesting of lookups
(which lookups a generation performs = the `deps` oracle of Model/Cache.v) and compile() calls."""
import builtins, threading, contextlib


def norm_keys(opdict, keys_in):
    """-> tuple of tuples (unary dicts are keyed by a flat tuple of ints)"""
    if len(keys_in) > 0 and all(isinstance(k, int) for k in keys_in):
        return (tuple(keys_in),)
    if len(keys_in) == 0:
        from kingdon.operator_dict import UnaryOperatorDict
        return ((),) if isinstance(opdict, UnaryOperatorDict) else ()
    return tuple(tuple(k) for k in keys_in)


class Probe:
    def __init__(self, barrier=None):
        self.events = []        # ('gen', opname, keys) in order
        self.lookups = []       # (depth, opname, keys, cached_before)
        self.children = {}      # (opname, keys) -> [(opname, keys), ...] direct nested lookups during its generation
        self.compiles = 0
        self.local = threading.local()
        self.barrier = barrier
        self.hold = None        # {'armed', 'entered': Event, 'release': Event}: see do_codegen below
        self.lock = threading.Lock()

    def stack(self):
        if not hasattr(self.local, 'stack'):
            self.local.stack = []
        return self.local.stack

    @contextlib.contextmanager
    def active(self):
        import kingdon.operator_dict as od
        import kingdon.codegen as cg
        probe = self
        saved = {}
        classes = [od.OperatorDict, od.UnaryOperatorDict, od.Registry]
        for cls in classes:
            if '__getitem__' in cls.__dict__:
                saved[cls] = cls.__dict__['__getitem__']

        def make(orig):
            def getitem(self_, keys_in):
                key = (self_.name if not callable(getattr(self_, 'codegen', None)) or not hasattr(self_.codegen, '__name__') or self_.name in self_.algebra.registry
                       else self_.name, norm_keys(self_, keys_in))
                key = (self_.name, norm_keys(self_, keys_in))
                cached = keys_in in self_.operator_dict
                st = probe.stack()
                with probe.lock:
                    probe.lookups.append((len(st), key[0], key[1], cached))
                    if st:
                        probe.children.setdefault(st[-1], []).append(key)
                # the lookup is pushed even when the key is cached: a changed __getitem__ may regenerate anyway,
                # and that generation event must be attributed to this lookup
                st.append(key)
                try:
                    return orig(self_, keys_in)
                finally:
                    st.pop()
            return getitem
        for cls, orig in saved.items():
            setattr(cls, '__getitem__', make(orig))
        orig_codegen, orig_compile_fn = od.do_codegen, od.do_compile
        orig_builtin_compile = builtins.compile

        def do_codegen(codegen, *mvs):
            st = probe.stack()
            hold = probe.hold
            if hold is not None and hold.get('armed'):
                # keep THIS thread inside code generation until released (another thread calls meanwhile)
                hold['armed'] = False
                hold['entered'].set()
                hold['release'].wait(timeout=10)
            if probe.barrier is not None:
                try:
                    probe.barrier.wait(timeout=0.3)
                except threading.BrokenBarrierError:
                    pass
            res = orig_codegen(codegen, *mvs)
            with probe.lock:
                probe.events.append(('gen',) + (st[-1] if st else ('?', ())))
            return res

        def do_compile(codegen, *tapes):
            st = probe.stack()
            res = orig_compile_fn(codegen, *tapes)
            with probe.lock:
                probe.events.append(('gen',) + (st[-1] if st else ('?', ())))
            return res

        def compile_(*a, **k):
            with probe.lock:
                probe.compiles += 1
            return orig_builtin_compile(*a, **k)
        od.do_codegen, od.do_compile = do_codegen, do_compile
        builtins.compile = compile_
        try:
            yield self
        finally:
            od.do_codegen, od.do_compile = orig_codegen, orig_compile_fn
            builtins.compile = orig_builtin_compile
            for cls, orig in saved.items():
                setattr(cls, '__getitem__', orig)
