"""Translation validation of the code kingdon GENERATES (codegen.py: do_codegen -> lambdify -> KingdonPrinter.doprint,
optionally after sympy.cse; func_builder): the source text of a generated function is parsed with python's `ast` into
the straight-line program of coq/Model/Slp.v, which Coq then runs on INDETERMINATES and compares with the model operator
on indeterminate multivectors (`validate2 / validate1 ... = true`).  Theory/Slp.v (`slp_validated2`, ...) turns one
`true` into: the function computes the model operator for every input in every commutative ring.

Fail closed: everything outside the shape

    def NAME(ARG, ...):
        [n, ...] = ARG          # exactly one unpacking per positional argument, in order
        x = EXPR                # assignments to a single name (cse)
        return [EXPR, ...]      # list / tuple display, or list()

    EXPR ::= name (not a parameter) | int literal | EXPR + EXPR | EXPR - EXPR | EXPR * EXPR | -EXPR | EXPR ** nat literal

raises Untranslatable(reason); the text must also compile to the very code object the function runs (a stale
linecache entry - generated names encode the set of keys, not their order - is refused).
This module IS trusted (python `ast` -> SLP, ~80 lines); sympy.cse and the printer are not."""
import ast, inspect, linecache, re
import kv, algs

IDENT = re.compile(r'[A-Za-z_][A-Za-z0-9_]*\Z')
MAXPOW = 64


class Untranslatable(Exception):
    pass


_CODE_FIELDS = ('co_code', 'co_consts', 'co_names', 'co_varnames', 'co_freevars', 'co_cellvars', 'co_argcount', 'co_posonlyargcount',
                'co_kwonlyargcount', 'co_name', 'co_firstlineno')


def _same_code(a, b):
    # == on code objects also compares co_flags, which carries the __future__ flags of the module that called compile()
    return all(getattr(a, f) == getattr(b, f) for f in _CODE_FIELDS) and (a.co_flags & 0xFFFF) == (b.co_flags & 0xFFFF)


def source_of(func):
    """the text of a generated function, checked against the code object that actually runs"""
    code = func.__code__
    src = None
    for fn in (code.co_filename, f'<{code.co_name}>', code.co_name):
        ent = linecache.cache.get(fn)
        if ent and len(ent) >= 3:
            src = ''.join(ent[2])
            try:
                mod = compile(src, code.co_filename, 'exec')
            except SyntaxError:
                continue
            if any(_same_code(c, code) for c in mod.co_consts if hasattr(c, 'co_code')):
                return src
    raise Untranslatable('no source text that compiles to the code object of the function (stale linecache entry?)')


def _name(s):
    if not IDENT.match(s):
        raise Untranslatable(f'name {s!r}')
    return f'"{s}"'


def _expr(e, params):
    if isinstance(e, ast.Name):
        # a name that no unpacking / earlier assignment binds is NOT refused here: Coq resolves names, the program then raises
        # (NameError) on indeterminates, the validation fails and the harness exhibits the failing call.  Only the parameters
        # (sequences, not coefficients) are outside the expression language.
        if not isinstance(e.ctx, ast.Load) or e.id in params:
            raise Untranslatable(f'parameter {e.id!r} used as a coefficient')
        return f'(XVar {_name(e.id)})'
    if isinstance(e, ast.Constant):
        if type(e.value) is not int:
            raise Untranslatable(f'constant {e.value!r}')
        return f'(XInt {kv.Z(e.value)})'
    if isinstance(e, ast.UnaryOp) and isinstance(e.op, ast.USub):
        return f'(XNeg {_expr(e.operand, params)})'
    if isinstance(e, ast.BinOp):
        if isinstance(e.op, ast.Pow):
            n = e.right
            if not (isinstance(n, ast.Constant) and type(n.value) is int and 0 <= n.value <= MAXPOW):
                raise Untranslatable('exponent ' + ast.dump(n))
            return f'(XPow {_expr(e.left, params)} {kv.nat(n.value)})'
        for cls, con in ((ast.Add, 'XAdd'), (ast.Sub, 'XSub'), (ast.Mult, 'XMul')):
            if isinstance(e.op, cls):
                return f'({con} {_expr(e.left, params)} {_expr(e.right, params)})'
        raise Untranslatable('operator ' + type(e.op).__name__)
    raise Untranslatable('expression ' + type(e).__name__)


def program_of(func, source=None):
    """-> Gallina term : prog (Model/Slp.v) of the generated function `func`."""
    src = source_of(func) if source is None else source
    try:
        mod = ast.parse(src)
    except SyntaxError as e:
        raise Untranslatable(f'syntax: {e}')
    if len(mod.body) != 1 or not isinstance(mod.body[0], ast.FunctionDef):
        raise Untranslatable('not a single function definition')
    fd = mod.body[0]
    a = fd.args
    if a.posonlyargs or a.kwonlyargs or a.vararg or a.kwarg or a.defaults or a.kw_defaults or fd.decorator_list:
        raise Untranslatable('signature')
    params = [x.arg for x in a.args]
    body = list(fd.body)
    if not body or not isinstance(body[-1], ast.Return):
        raise Untranslatable('no final return')
    unpack, assigned = [], set()
    for i, prm in enumerate(params):
        if i >= len(body) - 1:
            raise Untranslatable('missing unpacking of ' + prm)
        st = body[i]
        if not (isinstance(st, ast.Assign) and len(st.targets) == 1 and isinstance(st.targets[0], (ast.List, ast.Tuple))
                and isinstance(st.value, ast.Name) and st.value.id == prm
                and all(isinstance(t, ast.Name) for t in st.targets[0].elts)):
            raise Untranslatable(f'statement {i} is not the unpacking of argument {prm}')
        names = [t.id for t in st.targets[0].elts]
        if set(names) & set(params):
            raise Untranslatable('a parameter is rebound')
        unpack.append(names)
        assigned |= set(names)
    lets = []
    for st in body[len(params):-1]:
        if not (isinstance(st, ast.Assign) and len(st.targets) == 1 and isinstance(st.targets[0], ast.Name)):
            raise Untranslatable('statement ' + type(st).__name__)
        v = st.targets[0].id
        if v in params:
            raise Untranslatable('a parameter is rebound')
        lets.append(f'({_name(v)}, {_expr(st.value, params)})')
        assigned.add(v)
    rv = body[-1].value
    if isinstance(rv, (ast.List, ast.Tuple)):
        rets = [_expr(e, params) for e in rv.elts]
    elif isinstance(rv, ast.Call) and isinstance(rv.func, ast.Name) and rv.func.id == 'list' and not rv.args and not rv.keywords \
            and 'list' not in assigned and 'list' not in params:
        rets = []
    else:
        raise Untranslatable('return value is not a list display')
    return ('(mkProg ' + kv.blist(kv.blist(_name(n) for n in ns) for ns in unpack) + ' ' + kv.blist(lets) + ' ' + kv.blist(rets) + ')',
            {'unpack': unpack, 'lets': len(lets), 'rets': len(rets)})


BIN = {'gp': 'G2gp', 'op': 'G2op', 'ip': 'G2ip', 'lc': 'G2lc', 'rc': 'G2rc', 'sp': 'G2sp', 'cp': 'G2cp', 'acp': 'G2acp', 'rp': 'G2rp',
       'add': 'G2add', 'sub': 'G2sub', 'sw': 'G2sw', 'proj': 'G2proj'}
UN = {'neg': 'G1neg', 'reverse': 'G1reverse', 'involute': 'G1involute', 'conjugate': 'G1conjugate', 'hodge': 'G1hodge',
      'unhodge': 'G1unhodge', 'normsq': 'G1normsq'}
COMPOSITE = ('sw', 'proj', 'normsq')     # compared blade by blade (absent = 0): identically-zero blades are dropped on the way
PRELUDE = 'Open Scope string_scope.\n'
IMPORTS = 'Model.All Model.Slp'


def model_fun(op):
    return f'(model2 {BIN[op]} A)' if op in BIN else f'(model1 {UN[op]} A)'


def generate(alg, op, keys_in):
    """-> (keys_out, func, source text) of the function kingdon generates for `op` on the key tuples `keys_in`;
    the text is read immediately after generation and checked against the code object."""
    od = getattr(alg, op)
    keys_out, func = od[tuple(keys_in[0])] if op in UN else od[tuple(tuple(k) for k in keys_in)]
    return tuple(int(k) for k in keys_out), func, source_of(func)


def case(pool, spec, alg, op, keys_in, options=None):
    """the case dict for kv.run_cases (imports=IMPORTS, prelude=PRELUDE): `validate.. = true`.
    Raises Untranslatable."""
    keys_out, func, src = generate(alg, op, keys_in)
    term, info = program_of(func, src)
    ref, dfn = pool.ref(spec)
    level = 'c' if op in COMPOSITE else ''
    ks = ' '.join(kv.zlist(k) for k in keys_in)
    val = f'validate{len(keys_in)}{level}'
    chk = f'{val} {model_fun(op)} {ks} {kv.zlist(keys_out)} {term}'
    return {'check': algs.with_alg(ref, chk), 'defs': [dfn],
            'meta': {'spec': spec, 'op': op, 'keys_in': [list(map(int, k)) for k in keys_in], 'keys_out': list(keys_out), 'source': src,
                     'options': options or {}, 'func': func, 'lets': info['lets'], 'level': 'coefficient' if level else 'exact'}}


def concrete_case(pool, meta, inputs):
    """after a failed validation: the real function on concrete integers against the model on the same integers"""
    ref, dfn = pool.ref(meta['spec'])
    try:
        out = list(meta['func'](*[list(x) for x in inputs]))
        if all(type(v) is int or (isinstance(v, (int, float)) and not isinstance(v, bool) and v == int(v)) for v in out):
            out = [int(v) for v in out]
            exp = kv.zlist(out)
        else:
            out, exp = f'not integers: {out}'[:300], None
    except Exception as e:  # noqa
        out, exp = f'{type(e).__name__}: {e}', None
    mvs = ' '.join(kv.blist(kv.pair(kv.Z(k), kv.Z(v)) for k, v in zip(ks, xs)) for ks, xs in zip(meta['keys_in'], inputs))
    agree = 'agree_coeff_Z' if meta['level'] == 'coefficient' else 'agree_exact_Z'
    chk = 'false' if exp is None else f'{agree} {kv.zlist(meta["keys_out"])} {exp} ({model_fun(meta["op"])} Z Zops {mvs})'
    return {'check': algs.with_alg(ref, chk), 'defs': [dfn],
            'show': algs.with_alg(ref, f'{model_fun(meta["op"])} Z Zops {mvs}', '[]'), 'meta': {'inputs': inputs, 'output': out}}


# ================================================================================================================
# generated code that DIVIDES (alg.inv, alg.div): python ast -> the program type of coq/Model/SlpDiv.v (dexp / dprog).
# New functions only; nothing above changes.  Same statement shape as program_of; the expression language gains
#     EXPR / EXPR
#     EXPR ** (-n)      n a literal natural number >= 1, read as  1 / EXPR ** n
# and still refuses everything else (calls, attribute access, subscripts, floats, ** with a non-literal exponent,
# comparisons, conditional expressions, ...).
IMPORTS_DIV = 'Model.All Model.Slp Model.SlpDiv'
_DCON = {'XVar': 'DVar', 'XInt': 'DInt', 'XNeg': 'DNeg', 'XPow': 'DPow', 'XAdd': 'DAdd', 'XSub': 'DSub', 'XMul': 'DMul'}


def _dexpr(e, params):
    if isinstance(e, ast.Name):
        if not isinstance(e.ctx, ast.Load) or e.id in params:
            raise Untranslatable(f'parameter {e.id!r} used as a coefficient')
        return f'(DVar {_name(e.id)})'
    if isinstance(e, ast.Constant):
        if type(e.value) is not int:
            raise Untranslatable(f'constant {e.value!r}')
        return f'(DInt {kv.Z(e.value)})'
    if isinstance(e, ast.UnaryOp) and isinstance(e.op, ast.USub):
        return f'(DNeg {_dexpr(e.operand, params)})'
    if isinstance(e, ast.BinOp):
        if isinstance(e.op, ast.Pow):
            n = e.right
            if isinstance(n, ast.UnaryOp) and isinstance(n.op, ast.USub) and isinstance(n.operand, ast.Constant) \
                    and type(n.operand.value) is int and 1 <= n.operand.value <= MAXPOW:
                # a ** (-n), n a literal: 1 / a ** n  (what python computes on Fractions; ZeroDivisionError at 0)
                return f'(DDiv (DInt 1) (DPow {_dexpr(e.left, params)} {kv.nat(n.operand.value)}))'
            if not (isinstance(n, ast.Constant) and type(n.value) is int and 0 <= n.value <= MAXPOW):
                raise Untranslatable('exponent ' + ast.dump(n))
            return f'(DPow {_dexpr(e.left, params)} {kv.nat(n.value)})'
        for cls, con in ((ast.Add, 'DAdd'), (ast.Sub, 'DSub'), (ast.Mult, 'DMul'), (ast.Div, 'DDiv')):
            if isinstance(e.op, cls):
                return f'({con} {_dexpr(e.left, params)} {_dexpr(e.right, params)})'
        raise Untranslatable('operator ' + type(e.op).__name__)
    raise Untranslatable('expression ' + type(e).__name__)


def program_div_of(func, source=None):
    """-> Gallina term : dprog (Model/SlpDiv.v) of the generated function `func` (its text may divide)."""
    src = source_of(func) if source is None else source
    try:
        mod = ast.parse(src)
    except SyntaxError as e:
        raise Untranslatable(f'syntax: {e}')
    if len(mod.body) != 1 or not isinstance(mod.body[0], ast.FunctionDef):
        raise Untranslatable('not a single function definition')
    fd = mod.body[0]
    a = fd.args
    if a.posonlyargs or a.kwonlyargs or a.vararg or a.kwarg or a.defaults or a.kw_defaults or fd.decorator_list:
        raise Untranslatable('signature')
    params = [x.arg for x in a.args]
    body = list(fd.body)
    if not body or not isinstance(body[-1], ast.Return):
        raise Untranslatable('no final return')
    unpack, assigned = [], set()
    for i, prm in enumerate(params):
        if i >= len(body) - 1:
            raise Untranslatable('missing unpacking of ' + prm)
        st = body[i]
        if not (isinstance(st, ast.Assign) and len(st.targets) == 1 and isinstance(st.targets[0], (ast.List, ast.Tuple))
                and isinstance(st.value, ast.Name) and st.value.id == prm
                and all(isinstance(t, ast.Name) for t in st.targets[0].elts)):
            raise Untranslatable(f'statement {i} is not the unpacking of argument {prm}')
        names = [t.id for t in st.targets[0].elts]
        if set(names) & set(params):
            raise Untranslatable('a parameter is rebound')
        unpack.append(names)
        assigned |= set(names)
    lets = []
    for st in body[len(params):-1]:
        if not (isinstance(st, ast.Assign) and len(st.targets) == 1 and isinstance(st.targets[0], ast.Name)):
            raise Untranslatable('statement ' + type(st).__name__)
        v = st.targets[0].id
        if v in params:
            raise Untranslatable('a parameter is rebound')
        lets.append(f'({_name(v)}, {_dexpr(st.value, params)})')
        assigned.add(v)
    rv = body[-1].value
    if isinstance(rv, (ast.List, ast.Tuple)):
        rets = [_dexpr(e, params) for e in rv.elts]
    elif isinstance(rv, ast.Call) and isinstance(rv.func, ast.Name) and rv.func.id == 'list' and not rv.args and not rv.keywords \
            and 'list' not in assigned and 'list' not in params:
        rets = []
    else:
        raise Untranslatable('return value is not a list display')
    return ('(mkDProg ' + kv.blist(kv.blist(_name(n) for n in ns) for ns in unpack) + ' ' + kv.blist(lets) + ' ' + kv.blist(rets) + ')',
            {'unpack': unpack, 'lets': len(lets), 'rets': len(rets), 'divisions': sum(isinstance(n, ast.Div) for n in ast.walk(fd))})


def generate_div(alg, op, keys_in):
    """-> (keys_out, func, source text) of alg.inv[keys] / alg.div[keys_x, keys_y]; generation may raise (ZeroDivisionError for an
    identically zero denominator)."""
    od = getattr(alg, op)
    keys_out, func = od[tuple(keys_in[0])] if op == 'inv' else od[tuple(tuple(k) for k in keys_in)]
    return tuple(int(k) for k in keys_out), func, source_of(func)


def _case_divlike(pool, spec, alg, op, keys_in, options):
    keys_out, func, src = generate_div(alg, op, keys_in)
    term, info = program_div_of(func, src)
    ref, dfn = pool.ref(spec)
    ks = ' '.join(kv.zlist(k) for k in keys_in)
    chk = f'validate_{op} A {ks} {kv.zlist(keys_out)} {term}'
    return {'check': algs.with_alg(ref, chk), 'defs': [dfn],
            'meta': {'spec': spec, 'op': op, 'keys_in': [list(map(int, k)) for k in keys_in], 'keys_out': list(keys_out), 'source': src,
                     'options': options or {}, 'func': func, 'lets': info['lets'], 'divisions': info['divisions'], 'level': 'fraction'}}


def case_inv(pool, spec, alg, keys, options=None):
    """the case dict for kv.run_cases (imports=IMPORTS_DIV, prelude=PRELUDE): `validate_inv A keys keys_out program = true`.
    Raises Untranslatable; whatever generating the function raises (ZeroDivisionError) propagates."""
    return _case_divlike(pool, spec, alg, 'inv', [tuple(keys)], options)


def case_div(pool, spec, alg, keys_x, keys_y, options=None):
    """`validate_div A keys_x keys_y keys_out program = true`"""
    return _case_divlike(pool, spec, alg, 'div', [tuple(keys_x), tuple(keys_y)], options)


def _qc(fr):
    return f'(Qc_of {kv.Z(fr.numerator)} {kv.Z(fr.denominator)})'


def concrete_case_div(pool, meta, inputs):
    """after a failed validation: the real function on concrete rationals (fractions.Fraction) against the model over Qc on the
    same rationals, blade by blade (absent = 0).  The model raising (ZeroDivisionError: the denominator vanishes there) or the
    function raising / returning non-rationals is no witness: `check` is then `true` and meta['usable'] False."""
    from fractions import Fraction
    ref, dfn = pool.ref(meta['spec'])
    usable = True
    try:
        out = list(meta['func'](*[list(x) for x in inputs]))
        if not all(isinstance(v, (int, Fraction)) and not isinstance(v, bool) for v in out):
            usable = False
        else:
            out = [Fraction(v) for v in out]
    except Exception as e:  # noqa
        out, usable = f'{type(e).__name__}: {e}', False
    mvs = ' '.join(kv.blist(kv.pair(kv.Z(k), _qc(Fraction(v))) for k, v in zip(ks, xs)) for ks, xs in zip(meta['keys_in'], inputs))
    model = f'({meta["op"]}_model Qcops Qcdv Qcisz idF A {mvs})'
    if usable:
        chk = (f'match {model} with Err _ => true | Ok r_ => agree_coeff_Qc A {kv.zlist(meta["keys_out"])} '
               f'{kv.blist(_qc(v) for v in out)} (Ok r_) end')
    else:
        chk = 'true'
    show = f'match {model} with Ok r_ => map (fun kv_ => (fst kv_, Qcanon.this (snd kv_))) r_ | Err _ => [] end'
    return {'check': algs.with_alg(ref, chk), 'defs': [dfn], 'show': algs.with_alg(ref, show, '[]'),
            'meta': {'inputs': [[str(v) for v in x] for x in inputs], 'output': [str(v) for v in out] if usable else str(out)[:300],
                     'usable': usable}}
