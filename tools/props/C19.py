"""C19 — outer exponential / sine / cosine / tangent, exp of simple elements, square roots of Study
numbers, integer powers, norms.

A. Direct identities on the real kingdon (oracles built from its own elementary operators ^, *, +, inv()):
   outerexp/outersin/outercos/outertan against the finite sum of x^(^k)/k! computed over exact Fractions,
   exp against the truncated power series (numeric int / float / complex / Fraction and symbolic with
   numbers substituted), sqrt(x)*sqrt(x) = x and x**0.5 = sqrt(x) on Study numbers, integer powers
   against repeated products, normsq = x*~x, normalized(x) has squared norm 1.
B. Correspondence with Model/Series.v evaluated inside Coq over exact rationals: the term list of the real
   codegen_outerexp loop run on Fraction multivectors (strict: same terms, same stored keys, same order),
   outerexp/outersin/outercos (direct and through the public generated functions), __pow__ for integer
   exponents (the inverse of the implementation passed in as data for negative ones), grade0, and sqrt on
   Study numbers whose roots are rational."""
import warnings, math, itertools
from fractions import Fraction as Fr
import kv, algs, opcorr as oc

RULE = ('A1 outer*: every signature in {1,-1,0}^d for d<=4 (plus random d=5,6 signatures in the thorough tier), operands = vector / bivector / trivector / mixed grades with a scalar part / sparse random keys / '
        'empty / stored zeros, int, Fraction and float coefficients.  A2 exp: c*blade, vectors, 2-blades a^b, e0*y with a null '
        'generator, scalars, empty, used only when x*x is exactly scalar and |x*x| <= 30, int / float / complex / Fraction '
        'coefficients, every sign of the square; symbolic vectors / bivectors / blades for d<=3 with numbers substituted.  '
        'A3 sqrt: a + b*blade, a + vector, a + bivector (d<=3), scalars, a > 0 and a^2 - (bI)^2 > 0.  A4 powers -3..4 on sparse '
        'int / Fraction operands.  A5 normsq on random operands, norm/normalized on vectors, blades and products of vectors with '
        'positive squared norm.  B: random key patterns (<= 6 keys, every signature d<=2, random signatures above) with integer '
        'values.  Non-trivial = non-empty operand; distinct = distinct (section, algebra, key tuple, coefficient type, parameters).')
TRUSTED = ['Model/Series.v (hand-written after codegen_outerexp/outersin/outercos/outertan, codegen_sqrt, MultiVector.__pow__/norm/'
           'normalized/exp) tied by this correspondence; Qsops (Coq rationals kept reduced, exact square roots only)',
           'the elementary operators ^, *, +, ~, inv() of kingdon used as oracles are the subjects of C02-C05 and C07',
           'python Fractions / floats and numpy cos, cosh, sinh, sinc; sympy subs / N for the symbolic substitution',
           'printers / compile of the generated functions are not modelled: the public functions are evaluated on numbers']
ASSUMPTIONS = ['duplicate-free key tuples', 'float comparisons to 1e-9 relative (the generated code carries float constants like 0.1666..)',
               'power series truncated at 40 terms with |x*x| <= 30', 'exp only on operands whose square is exactly scalar',
               'Study numbers with positive scalar part and positive a^2 - (bI)^2',
               'for d = 0 the sum runs to k = 1 (the code always keeps the term x)']

TOL = 1e-9


# ----------------------------------------------------------------------------- small helpers
def enc(vals):
    out = []
    for v in vals:
        if isinstance(v, Fr):
            out.append(['q', v.numerator, v.denominator])
        elif isinstance(v, complex):
            out.append(['c', v.real, v.imag])
        elif isinstance(v, float):
            out.append(['f', v])
        else:
            out.append(['i', int(v)])
    return out


def dec(items):
    out = []
    for t in items:
        if t[0] == 'q':
            out.append(Fr(t[1], t[2]))
        elif t[0] == 'c':
            out.append(complex(t[1], t[2]))
        elif t[0] == 'f':
            out.append(float(t[1]))
        else:
            out.append(int(t[1]))
    return out


def mk(alg, keys, vals):
    return oc.make_mv(alg, tuple(keys), list(vals))


def cd(mv):
    d = {}
    for k, v in zip(mv.keys(), mv.values()):
        d.setdefault(k, v)
    return d


def close(a, b, tol=TOL):
    """coefficient dictionaries equal to `tol` relative to the largest coefficient (absent = 0)"""
    try:
        ca = {k: complex(v) for k, v in a.items()}
        cb = {k: complex(v) for k, v in b.items()}
    except Exception:
        return False
    allv = list(ca.values()) + list(cb.values())
    for v in allv:
        if v != v or abs(v) == float('inf'):
            return False
    m = max([abs(v) for v in allv] or [0.0])
    return all(abs(ca.get(k, 0) - cb.get(k, 0)) <= tol * (1 + m) for k in set(ca) | set(cb))


def exact(a, b):
    return all(a.get(k, 0) == b.get(k, 0) for k in set(a) | set(b))


def show(keys, vals):
    return '{' + ', '.join(f'{k}: {v!r}' for k, v in zip(keys, vals)) + '}'


def sigdesc(sig):
    return f'Algebra(signature={list(sig)})'


class Ctx:
    def __init__(self):
        self.algs = {}

    def alg(self, sig):
        t = tuple(sig)
        if t not in self.algs:
            self.algs[t] = algs.make_impl({'sig': list(sig)})
        return self.algs[t]


def rand_coeff(rng, ctype, lo=-5, hi=5, nonzero=False):
    if ctype == 'int':
        v = rng.randint(lo, hi)
        while nonzero and v == 0:
            v = rng.randint(lo, hi)
        return v
    if ctype == 'frac':
        v = Fr(rng.randint(lo * 2, hi * 2), rng.choice((1, 1, 2, 3, 4)))
        while nonzero and v == 0:
            v = Fr(rng.randint(lo * 2, hi * 2), rng.choice((1, 2, 3, 4)))
        return v
    if ctype == 'complex':
        return complex(round(rng.uniform(lo, hi), 3), round(rng.uniform(lo, hi), 3))
    v = rng.uniform(lo, hi)
    return v if (v or not nonzero) else 0.5


def rand_vals(rng, n, ctype, lo=-5, hi=5, zero_p=0.08):
    return [(0 if ctype == 'int' else Fr(0) if ctype == 'frac' else 0j if ctype == 'complex' else 0.0)
            if rng.random() < zero_p else rand_coeff(rng, ctype, lo, hi) for _ in range(n)]


def grade_keys(alg, g):
    return list(alg.indices_for_grade.get(g, ())) if 0 <= g <= alg.d else []


def rand_sig(rng, d):
    return [rng.choice((1, -1, 0)) for _ in range(d)]


# ----------------------------------------------------------------------------- A1 outer exponential family
def outer_oracle(alg, keys, vals):
    """(exp, sin, cos) coefficient dicts of sum_{k=0..max(d,1)} x^(^k)/k! over exact Fractions, with `^` of kingdon"""
    xq = mk(alg, keys, [Fr(v) for v in vals])
    S, Sn, Cs = {0: Fr(1)}, {}, {0: Fr(1)}
    P = None
    for k in range(1, max(alg.d, 1) + 1):
        P = xq if k == 1 else (P ^ xq)
        f = math.factorial(k)
        for key, v in cd(P).items():
            S[key] = S.get(key, 0) + Fr(v) / f
            tgt = Sn if k % 2 else Cs
            tgt[key] = tgt.get(key, 0) + Fr(v) / f
    return S, Sn, Cs


def tan_allowed(alg, keys):
    """outertan goes through the symbolic inverse of outercos, which takes minutes for dense patterns in d >= 5
    (and for mixed grades with a scalar part in d >= 3): those patterns are left to outersin / outercos"""
    if alg.d <= 2 or all(bin(k).count('1') == 1 for k in keys):
        return True
    if alg.d == 3:
        return 0 not in keys or len(keys) <= 4
    if alg.d == 4:
        return 0 not in keys or len(keys) <= 2
    return len(keys) <= (2 if 0 in keys else 3)


def check_outer(alg, keys, vals, do_tan=True):
    """-> (failures [(clause, text)], tan status)"""
    fails = []
    x = mk(alg, keys, vals)
    S, Sn, Cs = outer_oracle(alg, keys, vals)
    got = {}
    for nm, want, clause in (('outerexp', S, 'outerexp-sum'), ('outersin', Sn, 'outersin-odd'), ('outercos', Cs, 'outercos-even')):
        try:
            got[nm] = cd(getattr(x, nm)())
        except Exception as e:  # noqa
            fails.append((clause, f'{nm} raised {type(e).__name__}: {e}'))
            continue
        if not close(got[nm], want):
            fails.append((clause, f'{nm} = {got[nm]}, the finite sum gives { {k: float(v) for k, v in want.items()} }'))
    if len(got) == 3:
        sc = dict(got['outercos'])
        for k, v in got['outersin'].items():
            sc[k] = sc.get(k, 0) + v
        if not close(sc, got['outerexp']):
            fails.append(('outerexp-sum', f'outersin + outercos = {sc} differs from outerexp = {got["outerexp"]}'))
    status = 'skipped'
    if do_tan:
        # zero coefficients dropped: the numeric `^` stores zeros, and the inverse is generated per key pattern
        nsn = {k: v for k, v in Sn.items() if v != 0}
        ncs = {k: v for k, v in Cs.items() if v != 0}
        msn = mk(alg, list(nsn), list(nsn.values()))
        mcs = mk(alg, list(ncs), list(ncs.values()))
        try:
            want = cd(msn * mcs.inv())
            status = 'ok'
        except ZeroDivisionError:
            status = 'singular'
        except Exception:  # noqa   the oracle itself is unavailable (inverse generator fails on this key pattern: C07's subject)
            status = 'no-oracle'
        if status == 'ok':
            try:
                t = x.outertan()
                gt = cd(t)
                if not close(gt, want):
                    # ill-conditioned outercos: accept when the residual outertan * outercos = outersin holds
                    resid = cd(mk(alg, list(gt), [complex(v) for v in gt.values()]) * mk(alg, list(Cs), [complex(v) for v in Cs.values()]))
                    scale = max([abs(complex(v)) for v in gt.values()] or [0]) * max([abs(complex(v)) for v in Cs.values()] or [0])
                    if not close(resid, Sn, TOL * (1 + scale)):
                        fails.append(('outertan', f'outertan = {gt}, outersin * inverse(outercos) = { {k: float(v) for k, v in want.items()} }'))
                    else:
                        status = 'ill-conditioned'
            except Exception as e:  # noqa
                fails.append(('outertan', f'outertan raised {type(e).__name__}: {e} although outercos is invertible'))
        elif status == 'singular':
            try:
                t = cd(x.outertan())
                big = any((complex(v) != complex(v)) or abs(complex(v)) > 1e12 for v in t.values())
                if not big:
                    fails.append(('outertan', f'outercos is not invertible but outertan returned {t}'))
            except ZeroDivisionError:
                pass
            except Exception as e:  # noqa
                fails.append(('outertan', f'outercos is not invertible: outertan raised {type(e).__name__} instead of ZeroDivisionError'))
    return fails, status


def gen_outer_operand(rng, alg, ctype):
    d = alg.d
    style = rng.choice(['vector', 'bivector', 'trivector', 'mixed', 'mixed', 'sparse', 'sparse', 'scalar+grade', 'empty', 'zeros'])
    canon = list(alg.canon2bin.values())
    if style in ('vector', 'bivector', 'trivector'):
        g = {'vector': 1, 'bivector': 2, 'trivector': 3}[style]
        ks = grade_keys(alg, g)
        if not ks:
            style, ks = 'sparse', rng.sample(canon, rng.randint(1, min(len(canon), 4)))
        elif len(ks) > 6:
            ks = rng.sample(ks, 6)
    elif style == 'mixed':
        rest = [k for k in canon if k != 0]
        ks = [0] + rng.sample(rest, min(len(rest), rng.randint(1, 5)))
    elif style == 'scalar+grade':
        g = rng.randint(1, max(d, 1))
        gk = grade_keys(alg, g)
        ks = [0] + (rng.sample(gk, min(len(gk), 5)) if gk else [])
    elif style == 'empty':
        ks = []
    elif style == 'zeros':
        ks = rng.sample(canon, rng.randint(1, min(len(canon), 3)))
    else:
        ks, _ = oc.random_keys(rng, alg, 'sparse')
        ks = list(ks)
    if rng.random() < 0.5:
        rng.shuffle(ks)
    if style == 'zeros':
        vals = [0 if ctype == 'int' else Fr(0) if ctype == 'frac' else 0.0 for _ in ks]
    else:
        vals = rand_vals(rng, len(ks), ctype, -4, 4) if ctype != 'float' else rand_vals(rng, len(ks), ctype, -3, 3)
    return tuple(ks), vals, style


def part_outer(R, tier, ctx):
    rng = R.rng
    quick = tier == 'quick'
    sigs = []
    for d in range(0, 4):
        sigs += [(s, 4 if quick else 30) for s in algs.all_sigs(d)]
    s4 = algs.all_sigs(4)
    if quick:
        sigs += [(s, 1) for s in s4]
    else:
        sigs += [(s, 15) for s in s4]
        sigs += [(rand_sig(rng, rng.choice((5, 5, 6))), 2) for _ in range(1500)]
    # a Study number whose outer cosine is not invertible: cos(2 + 3/2 e12) = 3 + 3 e12 in signature (1,-1)
    special = [((1, -1), (0, 3), [Fr(2), Fr(3, 2)], 'singular-cos'), ((1, -1), (3, 0), [-1.5, 2.0], 'singular-cos')]
    # 6-D bivectors of full rank (three mutually disjoint basis bivectors: B^B^B != 0), where the outer cosine is not a Study number
    for _ in range(1 if quick else 8):
        gens = list(range(6)); rng.shuffle(gens)
        ks6 = tuple((1 << gens[2 * i]) | (1 << gens[2 * i + 1]) for i in range(3))
        special.append((tuple(rng.choice((1, 1, -1)) for _ in range(6)), ks6, [rng.randint(1, 9) / 10.0 for _ in range(3)], 'full-rank-6d'))
    work = []
    for sig, n in sigs:
        for _ in range(n):
            work.append((tuple(sig), None))
    for sig, ks, vals, st in special:
        work.append((sig, (ks, vals, st)))
    for sig, fixed in work:
        alg = ctx.alg(sig)
        if fixed:
            ks, vals, style = fixed
            ctype = 'frac' if isinstance(vals[0], Fr) else 'float'
        else:
            ctype = rng.choice(('int', 'int', 'frac', 'float'))
            ks, vals, style = gen_outer_operand(rng, alg, ctype)
        do_tan = tan_allowed(alg, ks)
        fails, status = check_outer(alg, ks, vals, do_tan)
        R.count(f'd={alg.d}'); R.count('outer=' + style); R.count('coeff=' + ctype); R.count('outertan=' + status)
        for cl in ('outerexp-sum', 'outersin-odd', 'outercos-even'):
            R.count('clause=' + cl)
        if status != 'skipped':
            R.count('clause=outertan')
        R.case(('outer', tuple(sig), tuple(ks), ctype, style), bool(ks),
               sample={'section': 'outerexp', 'algebra': sigdesc(sig), 'x': show(ks, vals)})
        seen = set()
        for clause, text in fails:
            if clause in seen:
                continue
            seen.add(clause)
            R.violation({'clause': clause}, {'kind': 'outer', 'sig': list(sig), 'keys': list(ks), 'vals': enc(vals), 'tan': do_tan},
                        f'{clause}: x = {show(ks, vals)} in {sigdesc(sig)}: {text}'[:1500])


# ----------------------------------------------------------------------------- A2 exp
def series(alg, keys, vals, N=40):
    cx = any(isinstance(v, complex) for v in vals)
    conv = complex if cx else float
    xf = mk(alg, keys, [conv(v) for v in vals])
    S = {0: conv(1)}
    term = None
    for k in range(1, N + 1):
        term = xf if k == 1 else term * xf
        term = mk(alg, term.keys(), [v / k for v in term.values()])
        for key, v in cd(term).items():
            S[key] = S.get(key, 0) + v
    return S


def square_class(alg, keys, vals):
    """-> ('nonsimple'|'large'|'pos'|'zero'|'neg'|'complex', s)"""
    x = mk(alg, keys, vals)
    xx = cd(x * x)
    if any(v != 0 for k, v in xx.items() if k != 0):
        return 'nonsimple', None
    s = xx.get(0, 0)
    if abs(complex(s)) > 30:
        return 'large', s
    c = complex(s)
    if c.imag != 0:
        return 'complex', s
    return ('pos' if c.real > 0 else 'neg' if c.real < 0 else 'zero'), s


def check_exp(alg, keys, vals):
    """the operand is assumed simple (square_class); -> failures"""
    import numpy as np
    x = mk(alg, keys, vals)
    try:
        with np.errstate(all='ignore'):
            e = cd(x.exp())
    except Exception as ex:  # noqa
        return [('exp-raises', f'exp raised {type(ex).__name__}: {ex}')]
    P = series(alg, keys, vals)
    if not close(e, P):
        return [('exp-series', f'exp = {e}, the power series gives {P}')]
    return []


def gen_exp_operand(rng, alg, ctype):
    d = alg.d
    canon = list(alg.canon2bin.values())
    style = rng.choice(['blade', 'blade', 'vector', 'vector', 'twoblade', 'null', 'sum', 'scalar', 'empty'])
    lo, hi = (-3, 3)
    if style == 'blade' or (style in ('vector', 'twoblade', 'null') and d == 0):
        style = 'blade'
        ks = [rng.choice(canon)]
        vals = [rand_coeff(rng, ctype, lo, hi)]
    elif style == 'vector':
        gk = grade_keys(alg, 1)
        ks = rng.sample(gk, rng.randint(1, len(gk)))
        vals = rand_vals(rng, len(ks), ctype, lo, hi)
    elif style == 'twoblade':
        if d < 2:
            return gen_exp_operand(rng, alg, ctype)
        gk = grade_keys(alg, 1)
        rr = (-1, 1) if ctype in ('int',) else (-2, 2)
        a = mk(alg, gk, rand_vals(rng, len(gk), ctype, *rr, zero_p=0.2))
        b = mk(alg, gk, rand_vals(rng, len(gk), ctype, *rr, zero_p=0.2))
        w = a ^ b
        ks, vals = list(w.keys()), list(w.values())
    elif style == 'null':
        nulls = [i for i, s in enumerate(alg.signature) if s == 0]
        if not nulls:
            return gen_exp_operand(rng, alg, ctype)
        e0 = 1 << rng.choice(nulls)
        others = [k for k in canon if not (k & e0)]
        yk = rng.sample(others, rng.randint(1, min(len(others), 4)))
        w = mk(alg, [e0], [1 if ctype == 'int' else Fr(1) if ctype == 'frac' else 1.0]) * mk(alg, yk, rand_vals(rng, len(yk), ctype, lo, hi))
        ks, vals = list(w.keys()), list(w.values())
    elif style == 'sum':
        ks = rng.sample(canon, rng.randint(1, min(len(canon), 3)))
        vals = rand_vals(rng, len(ks), ctype, -2, 2)
    elif style == 'scalar':
        ks, vals = [0], [rand_coeff(rng, ctype, lo, hi)]
    else:
        ks, vals = [], []
    if ctype == 'float' and ks:
        # rescale so that the series converges in 40 terms
        x = mk(alg, ks, vals)
        s = abs(complex(cd(x * x).get(0, 0)))
        if s > 25:
            f = 4.5 / math.sqrt(s)
            vals = [v * f for v in vals]
    return tuple(ks), list(vals), style


def check_exp_symbolic(alg, kind, key, nums):
    """exp of a symbolic vector / bivector / blade, numbers substituted, against the numeric power series"""
    import sympy
    if kind == 'vector':
        x = alg.vector(name='v')
    elif kind == 'bivector':
        x = alg.bivector(name='B')
    else:
        x = alg.multivector(name='x', keys=(key,))
    syms = list(x.values())
    nums = list(nums)[:len(syms)]
    try:
        e = x.exp()
        sub = dict(zip(syms, nums))
        got = {k: complex(sympy.N(sympy.sympify(c).subs(sub))) for k, c in zip(e.keys(), e.values())}
    except Exception as ex:  # noqa
        return [('exp-symbolic', f'symbolic exp / substitution raised {type(ex).__name__}: {ex}')], x
    P = series(alg, x.keys(), nums)
    if not close(got, P):
        return [('exp-symbolic', f'symbolic exp at {nums} = {got}, the power series gives {P}')], x
    return [], x


ARRAY_CASES = [
    {'sig': [1, -1], 'grade': 1, 'vals': [[.7, .2], [0., 0.]],
     'py': 'Algebra(1,1).vector([np.array([.7,.2]), np.array([0.,0.])]).exp()'},
    {'sig': [1, 1, 1], 'grade': 2, 'vals': [[.1, .4], [.2, -.3], [.3, .5]],
     'py': 'Algebra(3).bivector([np.array([.1,.4]), np.array([.2,-.3]), np.array([.3,.5])]).exp()'},
    {'sig': [1, 1], 'grade': 1, 'vals': [[.5, -1.2, 0.3], [.25, .75, -2.]],
     'py': 'Algebra(2).vector([np.array([.5,-1.2,.3]), np.array([.25,.75,-2.])]).exp()'},
]


def check_exp_array(case):
    """element-wise exp of a multivector with numpy-array coefficients = exp of each slice"""
    import numpy as np
    alg = algs.make_impl({'sig': case['sig']})
    keys = grade_keys(alg, case['grade'])
    arrs = [np.array(v, dtype=float) for v in case['vals']]
    x = alg.vector(arrs) if case['grade'] == 1 else alg.bivector(arrs)
    try:
        with np.errstate(all='ignore'):
            e = cd(x.exp())
    except Exception as ex:  # noqa
        return False, f'raises {type(ex).__name__}: {ex}'
    for i in range(len(case['vals'][0])):
        with np.errstate(all='ignore'):
            want = cd(mk(alg, keys, [float(a[i]) for a in arrs]).exp())
        try:
            got = {k: (np.asarray(v).reshape(-1)[i] if np.asarray(v).size > 1 else np.asarray(v).reshape(-1)[0]) for k, v in e.items()}
        except Exception as ex:  # noqa
            return False, f'result not indexable: {type(ex).__name__}: {ex}'
        if not close(got, want):
            return False, f'slice {i}: {got} differs from the exp of the slice {want}'
    return True, ''


SYMCALL_CASES = [
    {'sig': [1, 1, 1], 'kind': 'bivector', 'args': [0.1, 0.2, 0.3], 'py': "e = Algebra(3).bivector(name='B').exp(); e(0.1, 0.2, 0.3)"},
    {'sig': [1, 1], 'kind': 'vector', 'args': [0.4, -0.3], 'py': "e = Algebra(2).vector(name='v').exp(); e(0.4, -0.3)"},
]


def check_exp_symcall(case):
    """evaluating the symbolic exp by calling it = the numeric exp at the same numbers"""
    import numpy as np
    alg = algs.make_impl({'sig': case['sig']})
    x = alg.bivector(name='B') if case['kind'] == 'bivector' else alg.vector(name='v')
    try:
        with np.errstate(all='ignore'):
            e = x.exp()
            got = cd(e(*case['args']))
    except Exception as ex:  # noqa
        return False, f'raises {type(ex).__name__}: {ex}'
    want = series(alg, x.keys(), case['args'])
    if not close(got, want):
        return False, f'{got} differs from the numeric power series {want}'
    return True, ''


NPINT_CASES = [
    {'sig': [1, 1], 'grade': 1, 'vals': [2, 0], 'py': 'Algebra(2).vector([np.int64(2), np.int64(0)]).exp()'},
    {'sig': [1, -1], 'grade': 2, 'vals': [1], 'py': 'Algebra(1,1).bivector([np.int64(1)]).exp()'},
    {'sig': [-1, -1], 'grade': 1, 'vals': [1, 2], 'py': 'Algebra(0,2).vector([np.int64(1), np.int64(2)]).exp()'},
    {'sig': [1, 1], 'grade': 1, 'vals': [1, 2], 'dtype': 'int32', 'py': 'Algebra(2).vector([np.int32(1), np.int32(2)]).exp()'},
    # same root cause (a numpy scalar that is not a python float/int subclass with a positive square): np.float32
    {'sig': [1, 1], 'grade': 1, 'vals': [1, 2], 'dtype': 'float32', 'py': 'Algebra(2).vector([np.float32(1), np.float32(2)]).exp()'},
]


def check_exp_npint(case):
    """numpy integer (and float32) coefficients: exp = exp of the same python numbers"""
    import numpy as np
    alg = algs.make_impl({'sig': case['sig']})
    keys = grade_keys(alg, case['grade'])
    ty = getattr(np, case.get('dtype', 'int64'))
    try:
        with np.errstate(all='ignore'):
            got = cd(mk(alg, keys, [ty(v) for v in case['vals']]).exp())
    except Exception as ex:  # noqa
        return False, f'raises {type(ex).__name__}: {ex}'
    want = series(alg, keys, case['vals'])
    if not close(got, want, 1e-5 if case.get('dtype') == 'float32' else TOL):
        return False, f'{got} differs from the power series {want} (np.float64 / python int coefficients give the right value)'
    return True, ''


def part_exp(R, tier, ctx):
    rng = R.rng
    quick = tier == 'quick'
    n = 450 if quick else 12000
    dmax = 4 if quick else 6
    done = 0
    attempts = 0
    while done < n and attempts < 4 * n:
        attempts += 1
        d = rng.choice([1, 2, 2, 3, 3, 4, 4, 5, 6][:dmax + 3]) if rng.random() > 0.03 else 0
        d = min(d, dmax)
        sig = [rng.choice((1, 1, -1, -1, 0)) for _ in range(d)]       # every sign of the square frequent
        alg = ctx.alg(sig)
        ctype = rng.choice(('int', 'int', 'float', 'float', 'complex', 'frac'))
        ks, vals, style = gen_exp_operand(rng, alg, ctype)
        cls, s = square_class(alg, ks, vals)
        if cls in ('nonsimple', 'large'):
            R.count('exp-skip=' + cls)
            continue
        done += 1
        fails = check_exp(alg, ks, vals)
        R.count(f'd={alg.d}'); R.count('exp=' + style); R.count('coeff=' + ctype); R.count('square=' + cls); R.count('clause=exp-series')
        R.case(('exp', tuple(sig), tuple(ks), ctype, cls), bool(ks),
               sample={'section': 'exp', 'algebra': sigdesc(sig), 'x': show(ks, vals), 'square': repr(s)})
        for clause, text in fails:
            R.violation({'clause': clause}, {'kind': 'exp', 'sig': list(sig), 'keys': list(ks), 'vals': enc(vals)},
                        f'{clause}: x = {show(ks, vals)} (x*x = {s!r}) in {sigdesc(sig)}: {text}'[:1500])
    # symbolic
    nsym = 16 if quick else 300
    for _ in range(nsym):
        d = rng.choice((1, 2, 2, 3, 3))
        sig = rand_sig(rng, d)
        alg = ctx.alg(sig)
        kind = rng.choice(('vector', 'bivector', 'blade')) if d >= 2 else rng.choice(('vector', 'blade'))
        key = rng.choice([k for k in alg.canon2bin.values()])
        nums = [round(rng.uniform(-2, 2), 2) or 0.5 for _ in range(4)]
        if rng.random() < 0.3:
            nums = [rng.randint(-2, 2) or 1 for _ in range(4)]
        fails, x = check_exp_symbolic(alg, kind, key, nums)
        cls, _s = square_class(alg, x.keys(), nums[:len(x.keys())])
        R.count('exp=symbolic-' + kind); R.count(f'd={d}'); R.count('square=' + cls); R.count('clause=exp-symbolic')
        R.case(('exp-sym', tuple(sig), kind, key if kind == 'blade' else None, tuple(nums)), True,
               sample={'section': 'exp symbolic', 'algebra': sigdesc(sig), 'x': kind, 'at': nums})
        for clause, text in fails:
            R.violation({'clause': clause}, {'kind': 'exp-sym', 'sig': list(sig), 'sym': kind, 'key': key, 'nums': nums},
                        f'{clause}: symbolic {kind} in {sigdesc(sig)}: {text}'[:1500])
    # the three input classes of exp outside python numbers / sympy substitution: one report each
    for clause, cases, fn, kindname, descr in (
            ('exp-numpy-array', ARRAY_CASES, check_exp_array, 'exp-array', 'exp of a multivector with numpy-array coefficients (element-wise exp expected)'),
            ('exp-symbolic-call', SYMCALL_CASES, check_exp_symcall, 'exp-symcall', 'calling a symbolic exp result with numbers (numeric exp at those numbers expected)'),
            ('exp-numpy-int', NPINT_CASES, check_exp_npint, 'exp-npint', 'exp of a multivector with numpy integer coefficients')):
        reported = False
        for i, c in enumerate(cases):
            ok, text = fn(c)
            R.count('clause=' + clause)
            R.case((kindname, i), True)
            if not ok and not reported:
                reported = True
                R.violation({'clause': clause}, {'kind': kindname, 'case': i, 'py': c['py']}, f'{clause}: {descr}: `{c["py"]}` {text}'[:1500])


# ----------------------------------------------------------------------------- A3 sqrt
def gen_study(rng, alg, ctype):
    """-> (keys, vals, style) of a Study number a + bI with a > 0, a^2 - bI^2 > 0, or None"""
    d = alg.d
    canon = [k for k in alg.canon2bin.values() if k != 0]
    style = rng.choice(['blade', 'blade', 'pss', 'vector', 'bivector', 'scalar']) if d else 'scalar'
    if style == 'blade':
        bk = [rng.choice(canon)]
    elif style == 'pss':
        bk = [len(alg) - 1]
    elif style == 'vector':
        gk = grade_keys(alg, 1)
        bk = rng.sample(gk, rng.randint(1, len(gk)))
    elif style == 'bivector':
        gk = grade_keys(alg, 2)
        if not gk or d > 3:
            style, bk = 'blade', [rng.choice(canon)]
        else:
            bk = rng.sample(gk, rng.randint(1, len(gk)))
    else:
        bk = []
    bv = [rand_coeff(rng, ctype, -4, 4, nonzero=rng.random() < 0.9) for _ in bk]
    s = 0
    if bk:
        sq = cd(mk(alg, bk, bv) * mk(alg, bk, bv))
        if any(v != 0 for k, v in sq.items() if k != 0):
            return None
        s = sq.get(0, 0)
    a = rand_coeff(rng, ctype, 1, 6, nonzero=True)
    a = abs(a)
    if a * a - s <= 0:
        a = a + (int(math.isqrt(int(s))) + 1 if ctype in ('int', 'frac') else math.sqrt(s))
    if not (a > 0 and a * a - s > 0):
        return None
    ks, vals = [0] + bk, [a] + bv
    if rng.random() < 0.3:
        order = list(range(len(ks))); rng.shuffle(order)
        ks, vals = [ks[i] for i in order], [vals[i] for i in order]
    return tuple(ks), vals, style


def check_sqrt(alg, keys, vals):
    fails = []
    x = mk(alg, keys, vals)
    try:
        r = x.sqrt()
        rr = cd(r * r)
    except Exception as e:  # noqa
        return [('sqrt-square', f'sqrt raised {type(e).__name__}: {e}')]
    if not close(rr, cd(x)):
        fails.append(('sqrt-square', f'sqrt(x) = {cd(r)}, sqrt(x)*sqrt(x) = {rr}'))
    try:
        p = x ** 0.5
        if list(p.keys()) != list(r.keys()) or list(p.values()) != list(r.values()):
            fails.append(('pow-half', f'x**0.5 = {cd(p)} but x.sqrt() = {cd(r)}'))
    except Exception as e:  # noqa
        fails.append(('pow-half', f'x**0.5 raised {type(e).__name__}: {e}'))
    return fails


def part_sqrt(R, tier, ctx):
    rng = R.rng
    quick = tier == 'quick'
    n = 260 if quick else 8000
    dmax = 4 if quick else 6
    for _ in range(n):
        d = rng.choice([0, 1, 2, 2, 3, 3, 4, 4, 5, 6][:dmax + 4])
        d = min(d, dmax)
        sig = rand_sig(rng, d)
        alg = ctx.alg(sig)
        ctype = rng.choice(('int', 'float', 'float', 'frac'))
        g = gen_study(rng, alg, ctype)
        if g is None:
            R.count('sqrt-skip'); continue
        ks, vals, style = g
        fails = check_sqrt(alg, ks, vals)
        R.count(f'd={d}'); R.count('sqrt=' + style); R.count('coeff=' + ctype); R.count('clause=sqrt-square'); R.count('clause=pow-half')
        R.case(('sqrt', tuple(sig), tuple(ks), ctype), len(ks) > 1, sample={'section': 'sqrt', 'algebra': sigdesc(sig), 'x': show(ks, vals)})
        for clause, text in fails:
            R.violation({'clause': clause}, {'kind': 'sqrt', 'sig': list(sig), 'keys': list(ks), 'vals': enc(vals)},
                        f'{clause}: x = {show(ks, vals)} in {sigdesc(sig)}: {text}'[:1500])


# ----------------------------------------------------------------------------- A4 integer powers
def check_pow(alg, keys, vals, n):
    x = mk(alg, keys, vals)
    if n == 0:
        try:
            p = x ** 0
        except Exception as e:  # noqa
            return [('pow-int', f'x**0 raised {type(e).__name__}: {e}')], 'ok'
        return ([] if exact(cd(p), {0: 1}) else [('pow-int', f'x**0 = {cd(p)}')]), 'ok'
    if n > 0:
        want = x
        for _ in range(n - 1):
            want = want * x
        try:
            p = x ** n
        except Exception as e:  # noqa
            return [('pow-int', f'x**{n} raised {type(e).__name__}: {e}')], 'ok'
        return ([] if exact(cd(p), cd(want)) else [('pow-int', f'x**{n} = {cd(p)}, the repeated product gives {cd(want)}')]), 'ok'
    try:
        xi = x.inv()
    except ZeroDivisionError:
        try:
            p = x ** n
            return [('pow-int', f'x is not invertible but x**{n} = {cd(p)}')], 'singular'
        except ZeroDivisionError:
            return [], 'singular'
        except Exception as e:  # noqa
            return [('pow-int', f'x is not invertible: x**{n} raised {type(e).__name__} instead of ZeroDivisionError')], 'singular'
    want = xi
    for _ in range(-n - 1):
        want = want * xi
    try:
        p = x ** n
    except Exception as e:  # noqa
        return [('pow-int', f'x**{n} raised {type(e).__name__}: {e}')], 'ok'
    same = exact(cd(p), cd(want)) if all(isinstance(v, (int, Fr)) for v in vals) else close(cd(p), cd(want))
    return ([] if same else [('pow-int', f'x**{n} = {cd(p)}, the repeated product of the inverse gives {cd(want)}')]), 'ok'


def part_pow(R, tier, ctx):
    rng = R.rng
    quick = tier == 'quick'
    n = 110 if quick else 3500
    dmax = 4 if quick else 6
    for _ in range(n):
        d = min(rng.choice([0, 1, 2, 2, 3, 3, 4, 4, 5, 6]), dmax)
        sig = rand_sig(rng, d)
        alg = ctx.alg(sig)
        ctype = rng.choice(('int', 'int', 'frac', 'float'))
        ks, st = oc.random_keys(rng, alg, rng.choice(['sparse', 'sparse', 'grade', 'single', 'empty', 'dense'] if d <= 3 else ['sparse', 'single', 'grade']))
        ks = ks[:5]
        vals = rand_vals(rng, len(ks), ctype, -3, 3)
        for p in range(-3, 5):
            if p < 0 and (ctype == 'float' or d > (3 if quick else 4) or (d >= 3 and len(ks) > 4)):
                continue
            v = vals if p >= 0 or ctype == 'frac' else [Fr(t) for t in vals]
            fails, status = check_pow(alg, ks, v, p)
            R.count(f'd={d}'); R.count(f'power={p}'); R.count('clause=pow-int'); R.count('coeff=' + ctype)
            if status == 'singular':
                R.count('pow=non-invertible')
            R.case(('pow', tuple(sig), tuple(ks), ctype, p), bool(ks), sample={'section': 'pow', 'algebra': sigdesc(sig), 'x': show(ks, v), 'n': p})
            for clause, text in fails:
                R.violation({'clause': clause}, {'kind': 'pow', 'sig': list(sig), 'keys': list(ks), 'vals': enc(v), 'n': p},
                            f'{clause}: x = {show(ks, v)} in {sigdesc(sig)}: {text}'[:1500])


# ----------------------------------------------------------------------------- A5 norms
def check_normsq(alg, keys, vals):
    x = mk(alg, keys, vals)
    try:
        ns = cd(x.normsq())
    except Exception as e:  # noqa
        return [('normsq', f'normsq raised {type(e).__name__}: {e}')]
    want = cd(x * ~x)
    ok = exact(ns, want) if all(isinstance(v, (int, Fr)) for v in vals) else close(ns, want, 1e-12)
    return [] if ok else [('normsq', f'normsq = {ns}, x * ~x = {want}')]


def positive_norm(alg, keys, vals):
    x = mk(alg, keys, vals)
    ns = cd(x * ~x)
    s = ns.get(0, 0)
    if not (s > 0):
        return False
    return all(abs(v) <= 1e-13 * s for k, v in ns.items() if k != 0) if any(isinstance(v, float) for v in vals) \
        else all(v == 0 for k, v in ns.items() if k != 0)


def check_normalized(alg, keys, vals):
    fails = []
    x = mk(alg, keys, vals)
    try:
        nsq = cd(x.normsq())
        nm = x.norm()
        nn = cd(nm * nm)
        if not close(nn, nsq):
            fails.append(('normsq', f'norm(x) = {cd(nm)}, norm*norm = {nn} but normsq = {nsq}'))
    except Exception as e:  # noqa
        fails.append(('normsq', f'norm raised {type(e).__name__}: {e}'))
    try:
        n = x.normalized()
        one = cd(n.normsq())
        if not close(one, {0: 1.0}):
            fails.append(('normalized', f'normalized(x) = {cd(n)} has squared norm {one}'))
    except Exception as e:  # noqa
        fails.append(('normalized', f'normalized raised {type(e).__name__}: {e}'))
    return fails


def gen_versor(rng, alg, ctype):
    d = alg.d
    canon = list(alg.canon2bin.values())
    style = rng.choice(['vector', 'blade', 'rotor', 'rotor', 'versor3', 'scalar'])
    gk = grade_keys(alg, 1)
    if style == 'vector' and gk:
        return tuple(gk), rand_vals(rng, len(gk), ctype, -4, 4), style
    if style == 'blade' or not gk:
        return (rng.choice(canon),), [rand_coeff(rng, ctype, -4, 4, nonzero=True)], 'blade'
    if style == 'scalar':
        return (0,), [rand_coeff(rng, ctype, -4, 4, nonzero=True)], style
    w = mk(alg, gk, rand_vals(rng, len(gk), ctype, -3, 3))
    for _ in range(1 if style == 'rotor' else 2):
        w = w * mk(alg, gk, rand_vals(rng, len(gk), ctype, -3, 3))
    return tuple(w.keys()), list(w.values()), style


def part_norm(R, tier, ctx):
    rng = R.rng
    quick = tier == 'quick'
    n = 160 if quick else 5000
    dmax = 4 if quick else 6
    for _ in range(n):
        d = min(rng.choice([0, 1, 2, 2, 3, 3, 4, 4, 5, 6]), dmax)
        sig = rand_sig(rng, d)
        alg = ctx.alg(sig)
        ctype = rng.choice(('int', 'int', 'frac', 'float'))
        ks, st = oc.random_keys(rng, alg)
        ks = ks[:6]
        vals = rand_vals(rng, len(ks), ctype, -5, 5)
        R.count(f'd={d}'); R.count('clause=normsq'); R.count('coeff=' + ctype)
        R.case(('normsq', tuple(sig), tuple(ks), ctype), bool(ks), sample={'section': 'normsq', 'algebra': sigdesc(sig), 'x': show(ks, vals)})
        for clause, text in check_normsq(alg, ks, vals):
            R.violation({'clause': clause}, {'kind': 'normsq', 'sig': list(sig), 'keys': list(ks), 'vals': enc(vals)},
                        f'{clause}: x = {show(ks, vals)} in {sigdesc(sig)}: {text}'[:1500])
    done = attempts = 0
    while done < n and attempts < 5 * n:
        attempts += 1
        d = min(rng.choice([0, 1, 2, 2, 3, 3, 4, 4, 5]), dmax if quick else 5)
        sig = rand_sig(rng, d)
        if rng.random() < 0.5:
            sig = [1] * d
        alg = ctx.alg(sig)
        ctype = rng.choice(('int', 'frac', 'float'))
        ks, vals, style = gen_versor(rng, alg, ctype)
        if len(ks) > 8 or not positive_norm(alg, ks, vals):
            R.count('norm-skip'); continue
        done += 1
        R.count(f'd={d}'); R.count('clause=normalized'); R.count('norm=' + style); R.count('coeff=' + ctype)
        R.case(('normalized', tuple(sig), tuple(ks), ctype), True, sample={'section': 'normalized', 'algebra': sigdesc(sig), 'x': show(ks, vals)})
        for clause, text in check_normalized(alg, ks, vals):
            R.violation({'clause': clause}, {'kind': 'normalized', 'sig': list(sig), 'keys': list(ks), 'vals': enc(vals)},
                        f'{clause}: x = {show(ks, vals)} in {sigdesc(sig)}: {text}'[:1500])


# ----------------------------------------------------------------------------- B model tie
PRELUDE = ('From Coq Require Import QArith.\nOpen Scope Z_scope.\n'
           'Definition Zsops : sops Z := mkSops Z Zops (fun v j => Z.div v j) Z.sqrt (fun v => v).\n'
           'Definition kv_errf : mv Q -> res (mv Q) := fun _ => Err EOther.\n')


def q(v):
    v = Fr(v)
    return f'(Qmake {kv.Z(v.numerator)} {v.denominator}%positive)'


def mvq(items):
    return kv.blist(kv.pair(kv.Z(k), q(v)) for k, v in items)


def items_of(mv):
    return [(int(k), Fr(v)) for k, v in zip(mv.keys(), mv.values())]


def rat_sqrt(v):
    """exact square root of a non-negative rational, or None"""
    v = Fr(v)
    if v < 0:
        return None
    n, d = math.isqrt(v.numerator), math.isqrt(v.denominator)
    return Fr(n, d) if n * n == v.numerator and d * d == v.denominator else None


def model_patterns(R, tier, ctx):
    """(sig, keys, int values, style) for the outerexp / pow / grade0 ties"""
    rng = R.rng
    quick = tier == 'quick'
    out = []

    def vals_for(ks, zero_p=0.1):
        return oc.random_values(rng, len(ks), -5, 5, zero_p)
    for d in (0, 1, 2):
        for sig in algs.all_sigs(d):
            alg = ctx.alg(sig)
            for _ in range(3 if quick else 12):
                ks, st = oc.random_keys(rng, alg)
                out.append((sig, ks[:6], vals_for(ks[:6]), st))
            out.append((sig, (), [], 'empty'))
    nrand = 70 if quick else 2600
    for i in range(nrand):
        d = rng.choice((3, 3, 4, 4) if quick else (3, 4, 4, 5, 5, 6))
        sig = rand_sig(rng, d)
        alg = ctx.alg(sig)
        kind = rng.choice(['random', 'random', 'vector', 'bivector', 'bivector-simple', 'mixed', 'mixed', 'zero', 'empty'])
        if kind == 'vector':
            gk = grade_keys(alg, 1); ks = tuple(rng.sample(gk, rng.randint(1, len(gk))))
        elif kind == 'bivector':
            gk = grade_keys(alg, 2); ks = tuple(rng.sample(gk, min(len(gk), rng.randint(2, 6))))
        elif kind == 'bivector-simple':
            ks = (rng.choice(grade_keys(alg, 2)),)
        elif kind == 'mixed':
            rest = [k for k in alg.canon2bin.values() if k]
            ks = tuple([0] + rng.sample(rest, rng.randint(1, 5)))
            if rng.random() < 0.5:
                ks = tuple(rng.sample(ks, len(ks)))
        elif kind == 'zero':
            ks = tuple(rng.sample(list(alg.canon2bin.values()), rng.randint(1, 3)))
        elif kind == 'empty':
            ks = ()
        else:
            ks, _ = oc.random_keys(rng, alg); ks = ks[:6]
        vals = [0] * len(ks) if kind == 'zero' else vals_for(ks, 0.1 if kind == 'random' else 0.03)
        out.append((sig, ks, vals, kind))
    return out


def part_model(R, tier, ctx):
    from kingdon.codegen import codegen_outerexp, codegen_outersin, codegen_outercos
    rng = R.rng
    quick = tier == 'quick'
    pool = algs.AlgPool()
    cases = []

    def add(sig, check, meta, show_t=None):
        ref, dfn = pool.ref({'sig': list(sig)})
        c = {'check': algs.with_alg(ref, check), 'defs': [dfn], 'meta': meta}
        if show_t:
            c['show'] = algs.with_alg(ref, show_t, '(Err EOther)')
        cases.append(c)

    pats = model_patterns(R, tier, ctx)
    for sig, ks, vals, style in pats:
        alg = ctx.alg(sig)
        d = alg.d
        X = oc.mv_term(list(zip(ks, vals)))
        rep = {'kind': 'outer', 'sig': list(sig), 'keys': list(ks), 'vals': enc(vals), 'tan': False}
        base = {'sig': list(sig), 'x': list(zip(ks, vals)), 'replay': rep}
        xq = mk(alg, ks, [Fr(v) for v in vals])
        R.count(f'd={d}'); R.count('model=' + style)
        # --- 1. the real loop over Fractions, term by term
        try:
            Ws = codegen_outerexp(xq, asterms=True)
            terms = [items_of(w) for w in Ws]
        except Exception as e:  # noqa
            R.violation({'clause': 'outerexp-terms-model'}, rep, f'codegen_outerexp(asterms=True) raised {type(e).__name__}: {e} on {base["x"]} in {sigdesc(sig)}')
            continue
        R.case(('terms', tuple(sig), tuple(ks)), bool(ks), sample={'section': 'outerexp terms (model)', 'algebra': sigdesc(sig), 'x': base['x'], 'terms': len(terms)})
        R.count(f'terms={len(terms)}'); R.count('clause=outerexp-terms-model')
        lit = kv.blist(mvq(t) for t in terms)
        mt = f'outerexp_terms Qsops A (mvQ {X})'
        add(sig, f'match {mt} with Ok Ws => list_eqb (mvQ_equiv A) Ws {lit} | Err _ => false end',
            dict(base, kind='value', clause='outerexp-terms-model', what='term list of codegen_outerexp', impl=str(terms)), mt)
        add(sig, f'match {mt} with Ok Ws => list_eqb mvQ_same Ws {lit} | Err _ => false end', dict(base, kind='fidelity'))
        # --- final results, direct on Fractions
        for nm, fn in (('outerexp', codegen_outerexp), ('outersin', codegen_outersin), ('outercos', codegen_outercos)):
            try:
                r = items_of(fn(xq))
            except Exception as e:  # noqa
                R.violation({'clause': 'outerexp-terms-model'}, rep, f'codegen_{nm} raised {type(e).__name__}: {e} on {base["x"]} in {sigdesc(sig)}')
                continue
            mt2 = f'{nm} Qsops A (mvQ {X})'
            R.case((nm + '-direct', tuple(sig), tuple(ks)), bool(ks))
            add(sig, f'match {mt2} with Ok r => mvQ_equiv A r {mvq(r)} | Err _ => false end',
                dict(base, kind='value', clause='outerexp-terms-model', what=f'codegen_{nm} on Fractions', impl=str(r)), mt2)
            add(sig, f'match {mt2} with Ok r => mvQ_same r {mvq(r)} | Err _ => false end', dict(base, kind='fidelity'))
        # --- the public generated functions (float constants): coefficients are multiples of 1/d!
        xi = mk(alg, ks, list(vals))
        f = math.factorial(max(d, 1))
        for nm in ('outerexp', 'outersin', 'outercos'):
            try:
                r = getattr(xi, nm)()
            except Exception as e:  # noqa
                R.violation({'clause': 'outerexp-sum'}, rep, f'{nm} raised {type(e).__name__}: {e} on {base["x"]} in {sigdesc(sig)}')
                continue
            rounded, bad = [], None
            for k, v in zip(r.keys(), r.values()):
                rr = round(float(v) * f)
                if abs(float(v) * f - rr) >= 1e-6 * (1 + abs(rr)):
                    bad = (k, v)
                rounded.append((int(k), Fr(rr, f)))
            R.case((nm + '-public', tuple(sig), tuple(ks)), bool(ks))
            if bad:
                R.violation({'clause': 'outerexp-sum'}, rep, f'{nm} of integer x = {base["x"]} in {sigdesc(sig)}: coefficient {bad[1]!r} of blade {bad[0]} is not a multiple of 1/{f}')
                continue
            mt2 = f'{nm} Qsops A (mvQ {X})'
            add(sig, f'match {mt2} with Ok r => mvQ_equiv A r {mvq(rounded)} | Err _ => false end',
                dict(base, kind='value', clause='outerexp-terms-model', what=f'public {nm}', impl=str(rounded)), mt2)
        # --- 3. grade0
        try:
            g0 = oc.observe(xi.grade(0))
        except Exception as e:  # noqa
            R.violation({'clause': 'grade0-model'}, {'kind': 'grade0', 'sig': list(sig), 'keys': list(ks), 'vals': enc(vals)}, f'x.grade(0) raised {type(e).__name__}: {e}')
            g0 = None
        if g0 is not None:
            R.case(('grade0', tuple(sig), tuple(ks)), bool(ks)); R.count('clause=grade0-model')
            add(sig, f'match grade_sel Zops A [0%nat] {X} with Ok g => mv_eqb g (grade0 Zsops {X}) && mv_eqb g {oc.mv_term(g0)} | Err _ => false end',
                dict(base, kind='value', clause='grade0-model', what='x.grade(0)', impl=str(g0),
                     replay={'kind': 'grade0', 'sig': list(sig), 'keys': list(ks), 'vals': enc(vals)}),
                f'Ok (grade0 Zsops {X})')
    # --- 2. integer powers
    npow = 90 if quick else 3000
    for i in range(npow):
        d = rng.choice((0, 1, 2, 2, 3, 3, 4) if quick else (1, 2, 3, 3, 4, 4, 5, 6))
        sig = rand_sig(rng, d)
        alg = ctx.alg(sig)
        ks, st = oc.random_keys(rng, alg, rng.choice(['sparse', 'sparse', 'single', 'grade', 'empty', 'dense'] if d <= 3 else ['sparse', 'single']))
        ks = ks[:5]
        vals = oc.random_values(rng, len(ks), -3, 3, 0.1)
        X = oc.mv_term(list(zip(ks, vals)))
        x = mk(alg, ks, list(vals))
        base = {'sig': list(sig), 'x': list(zip(ks, vals))}
        for p in range(0, 5):
            try:
                out = oc.observe(x ** p)
            except Exception as e:  # noqa
                R.violation({'clause': 'pow-int'}, {'kind': 'pow', 'sig': list(sig), 'keys': list(ks), 'vals': enc(vals), 'n': p}, f'x**{p} raised {type(e).__name__}: {e} on {base["x"]}')
                continue
            R.case(('pow-model', tuple(sig), tuple(ks), p), bool(ks)); R.count('clause=pow-model'); R.count(f'd={d}'); R.count(f'power={p}')
            mt = f'pow_model Qsops kv_errf kv_errf A (mvQ {X}) (PInt {kv.Z(p)})'
            rep = {'kind': 'pow', 'sig': list(sig), 'keys': list(ks), 'vals': enc(vals), 'n': p}
            add(sig, f'match {mt} with Ok r => mvQ_equiv A r (mvQ {oc.mv_term(out)}) | Err _ => false end',
                dict(base, kind='value', clause='pow-model', what=f'x ** {p}', impl=str(out), replay=rep), mt)
            add(sig, f'match {mt} with Ok r => mvQ_same r (mvQ {oc.mv_term(out)}) | Err _ => false end', dict(base, kind='fidelity'))
        if d <= 3 and len(ks) <= 4:
            xq = mk(alg, ks, [Fr(v) for v in vals])
            try:
                xinv = items_of(xq.inv())
            except ZeroDivisionError:
                R.count('pow=non-invertible')
                xinv = None
            if xinv is not None:
                for p in (-1, -2, -3):
                    try:
                        out = items_of(xq ** p)
                    except Exception as e:  # noqa
                        R.violation({'clause': 'pow-int'}, {'kind': 'pow', 'sig': list(sig), 'keys': list(ks), 'vals': enc([Fr(v) for v in vals]), 'n': p},
                                    f'x**{p} raised {type(e).__name__}: {e} on {base["x"]} although x.inv() exists')
                        continue
                    R.case(('pow-model', tuple(sig), tuple(ks), p), bool(ks)); R.count('clause=pow-model'); R.count(f'd={d}'); R.count(f'power={p}')
                    mt = f'pow_model Qsops (fun _ => Ok {mvq(xinv)}) kv_errf A (mvQ {X}) (PInt {kv.Z(p)})'
                    rep = {'kind': 'pow', 'sig': list(sig), 'keys': list(ks), 'vals': enc([Fr(v) for v in vals]), 'n': p}
                    add(sig, f'match {mt} with Ok r => mvQ_equiv A r {mvq(out)} | Err _ => false end',
                        dict(base, kind='value', clause='pow-model', what=f'x ** {p}', impl=str(out), replay=rep), mt)
                    add(sig, f'match {mt} with Ok r => mvQ_same r {mvq(out)} | Err _ => false end', dict(base, kind='fidelity'))
    # --- 4. sqrt on Study numbers with rational roots: x = y*y, y = c + (blade or vector part)
    nsq = 70 if quick else 2500
    made = attempts = 0
    while made < nsq and attempts < 6 * nsq:
        attempts += 1
        d = rng.choice((0, 1, 2, 2, 3, 3, 4) if quick else (1, 2, 3, 3, 4, 4, 5, 6))
        sig = rand_sig(rng, d)
        alg = ctx.alg(sig)
        canon = [k for k in alg.canon2bin.values() if k]
        mode = rng.choice(['blade', 'blade', 'vector', 'scalar']) if d else 'scalar'
        c = Fr(rng.randint(1, 6), rng.choice((1, 1, 2, 3)))
        if mode == 'blade':
            bk = [rng.choice(canon)]
        elif mode == 'vector':
            gk = grade_keys(alg, 1); bk = rng.sample(gk, rng.randint(1, len(gk)))
        else:
            bk = []
        bv = [Fr(rng.randint(-4, 4) or 1, rng.choice((1, 1, 2))) for _ in bk]
        y = mk(alg, [0] + bk, [c] + bv)
        xx = y * y
        xd = {k: v for k, v in cd(xx).items()}
        if any(v != 0 for k, v in xd.items() if k != 0 and k not in bk):
            continue
        ks = [0] + bk
        vals = [xd.get(k, Fr(0)) for k in ks]
        a = vals[0]
        if bk:
            bI = mk(alg, bk, vals[1:])
            sq = cd(bI * bI)
            if any(v != 0 for k, v in sq.items() if k != 0):
                continue
            s = sq.get(0, Fr(0))
            rn = rat_sqrt(a * a - s)
            if rn is None or rn <= 0 or a <= 0:
                continue
            r2 = rat_sqrt((a + rn) / 2)
            if r2 is None or r2 <= 0:
                continue
        else:
            if rat_sqrt(a) is None or a <= 0:
                continue
        if rng.random() < 0.3:
            order = list(range(len(ks))); rng.shuffle(order)
            ks, vals = [ks[i] for i in order], [vals[i] for i in order]
        x = mk(alg, ks, vals)
        rep = {'kind': 'sqrt', 'sig': list(sig), 'keys': list(ks), 'vals': enc(vals)}
        try:
            r = x.sqrt()
            out = [(int(k), Fr(float(v)).limit_denominator(10 ** 6)) for k, v in zip(r.keys(), r.values())]
        except Exception as e:  # noqa
            R.violation({'clause': 'sqrt-square'}, rep, f'sqrt raised {type(e).__name__}: {e} on x = {show(ks, vals)} in {sigdesc(sig)}')
            continue
        made += 1
        R.case(('sqrt-model', tuple(sig), tuple(ks), tuple(vals)), len(ks) > 1); R.count('clause=sqrt-model'); R.count(f'd={d}'); R.count('sqrt-model=' + mode)
        mt = f'sqrt_model Qsops A {mvq(list(zip(ks, vals)))}'
        add(sig, f'mvQ_equiv A ({mt}) {mvq(out)}',
            dict(sig=list(sig), x=[(k, str(v)) for k, v in zip(ks, vals)], kind='value', clause='sqrt-model', what='x.sqrt()', impl=str(out), replay=rep), f'Ok ({mt})')
    bad, shown = kv.run_cases('C19', cases, prelude=PRELUDE, imports='Model.All Model.Series')
    for i in bad:
        m = cases[i]['meta']
        if m['kind'] == 'fidelity':
            R.fidelity_notes += 1
            continue
        R.violation({'clause': m['clause']}, dict(m['replay'], impl=m['impl'], model=shown.get(i)),
                    f'{m["clause"]}: {m["what"]} on x = {m["x"]} in {sigdesc(m["sig"])}: implementation {m["impl"][:600]} differs in value from Model/Series.v '
                    f'(model: {(shown.get(i) or "")[:600]})')


# ----------------------------------------------------------------------------- entry points
def run(R, tier):
    warnings.filterwarnings('ignore')
    import numpy as np
    ctx = Ctx()
    with np.errstate(all='ignore'):
        part_outer(R, tier, ctx)
        part_exp(R, tier, ctx)
        part_sqrt(R, tier, ctx)
        part_pow(R, tier, ctx)
        part_norm(R, tier, ctx)
        part_model(R, tier, ctx)


def replay(R, rec):
    """re-run the direct identity on the recorded input; True iff the property holds on it"""
    warnings.filterwarnings('ignore')
    import numpy as np
    r = rec['replay']
    kind = r.get('kind')
    try:
        with np.errstate(all='ignore'):
            if kind == 'exp-array':
                return check_exp_array(ARRAY_CASES[r['case']])[0]
            if kind == 'exp-symcall':
                return check_exp_symcall(SYMCALL_CASES[r['case']])[0]
            if kind == 'exp-npint':
                return check_exp_npint(NPINT_CASES[r['case']])[0]
            alg = algs.make_impl({'sig': list(r['sig'])})
            if kind == 'exp-sym':
                return not check_exp_symbolic(alg, r['sym'], r['key'], r['nums'])[0]
            keys, vals = tuple(r['keys']), dec(r['vals'])
            if kind == 'outer':
                return not check_outer(alg, keys, vals, r.get('tan', True))[0]
            if kind == 'exp':
                return not check_exp(alg, keys, vals)
            if kind == 'sqrt':
                return not check_sqrt(alg, keys, vals)
            if kind == 'pow':
                return not check_pow(alg, keys, vals, int(r['n']))[0]
            if kind == 'normsq':
                return not check_normsq(alg, keys, vals)
            if kind == 'normalized':
                return not check_normalized(alg, keys, vals)
            if kind == 'grade0':
                x = mk(alg, keys, vals)
                return sorted(oc.observe(x.grade(0))) == sorted((k, v) for k, v in zip(keys, vals) if k == 0)
    except Exception:
        return False
    return True
