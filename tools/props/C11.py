"""C11 — registered (compiled) expressions equal direct evaluation.

Direct oracle on the implementation: for expression trees over the documented operator surface,
`alg.register(f)(*args)` and `alg.register(symbolic=True)(f)(*args)` against the plain `f(*args)`:
the same coefficient on every blade (a plain number result = a scalar multivector).  A registered
function that RAISES although f returns is a violation only inside the supported fragment
(Theory/Tape.v `supported`, mirrored by `supported()` below); one that returns a DIFFERENT value is
a violation everywhere.  When f itself raises nothing is demanded of the registered function.

Model correspondence: the Coq interpreters of Model/Tape.v (`plain_Z` = MultiVector semantics,
`registered_Z` = TapeRecorder + compiled call tree, with the method tables of Gen/Dunder.v) are
evaluated by coqc on the integer, division-free cases and compared with the implementation: values
(coefficient level) and the key tuple the recorder tracks for the result (exactly, except below
sw / proj / normsq where kingdon drops identically-zero blades: fidelity note)."""
import itertools, warnings, math
from fractions import Fraction
import kv, algs, opcorr as oc

RULE = ('expression trees over the README operator table: infix and method forms of every binary operator, unary members, ~ and -, '
        'grade (varargs and tuple), ** n for -3..3, dual/undual (auto, polarity, hodge, unknown kind), norm, normalized, a number on '
        'either side of every infix operator, methods called with a number, coefficient access (canonical, permuted and foreign '
        'spellings) used as a number on either side of + - * and against other coefficients, calls of other registered functions '
        '(also nested and with coefficient arguments), explicit calls of reflected members; every one-level form over the arguments, '
        'every two-level tree whose operands come from a reduced operand set (thorough: exhaustive, quick: sampled) and random '
        'deeper trees; 1-3 arguments with random key patterns (sparse, permuted, grade blocks, full, single, empty) in random '
        'algebras d<=4 (all signatures incl. degenerate, start indices, custom bases); integer coefficients for division-free trees '
        '(these also run through the Coq model), floats where inverse / division / roots occur.  Non-trivial = f returns a non-zero '
        'element; distinct = distinct (algebra, tree, key patterns).')
TRUSTED = ['Model/Tape.v (hand-written after taperecorder.py / Registry / do_compile / the MultiVector members, tied to the source by the '
           'translated method tables and the pinned source text of Gen/Dunder.v and by this correspondence)',
           'a number literal is embedded in the compiled source through str(): exact for int and float, which is what is generated',
           'the name in the compiled expression denotes the function generated for (operator, ordered keys): C09',
           'inverse, division, square root and the outer exponentials are parameters of the theorem (C07/C19); on the implementation '
           'they are compared to 1e-9 relative']
ASSUMPTIONS = ['functions are named (def): a lambda cannot be registered (its __name__ is not an identifier) - reported as a finding',
               'Python arithmetic between two plain numbers other than + - * and unary minus (/, **, ^, |, &, ~ on coefficients) is '
               'not modelled and not generated',
               'duplicate-free argument key tuples inside the algebra; at most 26 parameters',
               'inv / div / sqrt do not depend on the storage order of their operand (hypothesis ext_ok of the theorems)']

INFIX = {'+': 'IAdd', '-': 'ISub', '*': 'IMul', '/': 'IDiv', '^': 'IXor', '|': 'IOr', '&': 'IAnd', '>>': 'IRshift', '@': 'IMatmul'}
BIN_METHODS = ['gp', 'ip', 'sp', 'lc', 'rc', 'op', 'rp', 'sw', 'proj', 'cp', 'acp', 'add', 'sub', 'div']
UN_METHODS = ['neg', 'reverse', 'involute', 'conjugate', 'normsq', 'inv', 'sqrt', 'polarity', 'unpolarity', 'hodge', 'unhodge']
TAPE_UN = set(UN_METHODS) | {'__neg__', '__invert__', 'outerexp', 'outersin', 'outercos', 'outertan'}
TAPE_BIN = set(BIN_METHODS) | {'__mul__', '__rshift__', '__or__', '__xor__', '__and__', '__matmul__',
                               '__add__', '__radd__', '__sub__', '__truediv__'}
SWAPPED = {'__rsub__', '__rtruediv__', '__rmul__', '__rrshift__', '__rmatmul__', '__ror__', '__rxor__', '__rand__'}
FLOATY = {'inv', 'div', 'sqrt', '/', 'norm', 'normalized', '__truediv__', 'outerexp', 'outersin', 'outercos', 'outertan', 'exp'}
COMPOSITE = {'sw', 'proj', 'normsq', '>>', '@', '__rshift__', '__matmul__'}
NAMES = 'abc'


# ----------------------------------------------------------------------------- trees
def src(t):
    k = t[0]
    if k == 'arg': return NAMES[t[1]]
    if k == 'num': return f'({t[1]!r})'
    if k == 'meth1': return f'{src(t[2])}.{t[1]}()'
    if k == 'meth2': return f'{src(t[2])}.{t[1]}({src(t[3])})'
    if k == 'prefix': return f'({t[1]}{src(t[2])})'
    if k == 'infix': return f'({src(t[2])} {t[1]} {src(t[3])})'
    if k == 'pow': return f'({src(t[1])} ** {t[2]})'
    if k == 'grade':
        return f'{src(t[1])}.grade({tuple(t[2])!r})' if t[3] else f'{src(t[1])}.grade({", ".join(map(str, t[2]))})'
    if k == 'coeff': return f'{src(t[1])}.{t[2]}'
    if k in ('dual', 'undual'):
        return f'{src(t[1])}.{k}()' if t[2] == 'auto' else f'{src(t[1])}.{k}(kind={t[2]!r})'
    if k in ('norm', 'normalized'): return f'{src(t[1])}.{k}()'
    if k == 'call': return f'g{t[1]}({", ".join(src(a) for a in t[2])})'
    raise ValueError(k)


def gal(t):
    k = t[0]
    if k == 'arg': return f'(EArg {t[1]}%nat)'
    if k == 'num': return f'(ENum {kv.Z(t[1])})'
    if k == 'meth1': return f'(EMeth1 "{t[1]}" {gal(t[2])})'
    if k == 'meth2': return f'(EMeth2 "{t[1]}" {gal(t[2])} {gal(t[3])})'
    if k == 'prefix': return f'(EPrefix {"PNeg" if t[1] == "-" else "PInvert"} {gal(t[2])})'
    if k == 'infix': return f'(EInfix {INFIX[t[1]]} {gal(t[2])} {gal(t[3])})'
    if k == 'pow': return f'(EPow {gal(t[1])} {kv.Z(t[2])})'
    if k == 'grade': return f'(EGrade {gal(t[1])} {kv.natlist(t[2])})'
    if k == 'coeff': return f'(ECoeff {gal(t[1])} {kv.name(t[2])})'
    if k in ('dual', 'undual'):
        kind = {'auto': 'KAuto', 'polarity': 'KPolarity', 'hodge': 'KHodge'}.get(t[2], 'KUnknown')
        return f'({"EDual" if k == "dual" else "EUndual"} {gal(t[1])} {kind})'
    if k == 'norm': return f'(ENorm {gal(t[1])})'
    if k == 'normalized': return f'(ENormalized {gal(t[1])})'
    if k == 'call': return f'(ECall {t[1]}%nat {kv.blist(gal(a) for a in t[2])})'
    raise ValueError(k)


def children(t):
    k = t[0]
    if k in ('arg', 'num'): return []
    if k in ('meth1', 'prefix'): return [t[2]]
    if k in ('meth2', 'infix'): return [t[2], t[3]]
    if k == 'call': return list(t[2])
    return [t[1]]


def size(t):
    return 1 + sum(size(c) for c in children(t))


def labels(t):
    """operator names occurring in the tree"""
    k = t[0]
    own = {t[1]} if k in ('meth1', 'meth2', 'infix') else {k} if k in ('norm', 'normalized', 'pow') else set()
    if k == 'pow' and t[2] < 0:
        own.add('inv')
    for c in children(t):
        own |= labels(c)
    return own


def isnum(t):
    """a Python number in BOTH worlds (Theory/Tape.v isnum)"""
    k = t[0]
    if k == 'num': return True
    if k == 'prefix': return isnum(t[2]) and t[1] == '-'
    if k == 'infix': return isnum(t[2]) and isnum(t[3])
    return False


def supported(t):
    """Theory/Tape.v `supported` (the fragment on which the compiled function must return)"""
    k = t[0]
    if k in ('arg', 'num'): return True
    if k == 'meth1': return supported(t[2]) and not isnum(t[2]) and t[1] in TAPE_UN
    if k == 'meth2': return supported(t[2]) and supported(t[3]) and not isnum(t[2]) and t[1] in TAPE_BIN and t[1] not in SWAPPED
    if k == 'prefix': return supported(t[2]) and (t[1] == '-' if isnum(t[2]) else True)
    if k == 'infix':
        if not (supported(t[2]) and supported(t[3])): return False
        if isnum(t[2]):
            return t[1] in ('+', '-', '*') if isnum(t[3]) else t[1] in ('+', '-', '*', '^')
        return True
    if k == 'call': return all(supported(a) for a in t[2]) and any(not isnum(a) for a in t[2])
    return supported(t[1]) and not isnum(t[1])


def noswap(t):
    return not (t[0] == 'meth2' and t[1] in SWAPPED) and all(noswap(c) for c in children(t))


def pnum(t):
    """a plain Python number in the PLAIN function (coefficient access yields one there)"""
    k = t[0]
    if k in ('num', 'coeff'): return True
    if k in ('prefix', 'meth1'): return pnum(t[2])
    if k == 'infix': return pnum(t[2]) and pnum(t[3])
    if k == 'pow': return pnum(t[1])
    return False


def python_number_semantics(t):
    """the plain function applies Python's own number semantics that the model does not cover (and the recorder
    cannot reproduce): / ** ^ | & >> @ ~ or a method on plain numbers obtained by coefficient access"""
    k = t[0]
    own = False
    if k == 'infix': own = pnum(t[2]) and pnum(t[3]) and t[1] not in ('+', '-', '*')
    elif k == 'prefix': own = t[1] == '~' and pnum(t[2])
    elif k in ('meth1', 'meth2'): own = pnum(t[2])
    elif k in ('pow', 'grade', 'dual', 'undual', 'norm', 'normalized'): own = pnum(t[1])
    return own or any(python_number_semantics(c) for c in children(t))


def has_coeff(t):
    return t[0] == 'coeff' or any(has_coeff(c) for c in children(t))


def callees(t):
    s = {t[1]} if t[0] == 'call' else set()
    for c in children(t):
        s |= callees(c)
    return s


# the other registered functions a body may call: (number of parameters, body)
A0, A1, A2 = ('arg', 0), ('arg', 1), ('arg', 2)
CALLEES = [
    (2, ('infix', '+', ('infix', '*', A0, A1), A0)),                       # g0(x, y) = x*y + x
    (1, ('infix', '-', ('num', 2), ('grade', A0, (1,), False))),          # g1(x) = 2 - <x>_1
    (2, ('call', 0, [('prefix', '~', A1), ('call', 1, [A0])])),            # g2(x, y) = g0(~y, g1(x))
    (1, ('infix', '*', ('coeff', A0, 'e'), A0)),                          # g3(x) = x.e * x
]


# ----------------------------------------------------------------------------- generation
def one_level(x, y, alg, blades):
    """every one-level form over the operands x (and y)"""
    out = []
    for s in INFIX:
        out.append(('infix', s, x, y))
    for m in BIN_METHODS:
        out.append(('meth2', m, x, y))
    for m in UN_METHODS:
        out.append(('meth1', m, x))
    out += [('prefix', '-', x), ('prefix', '~', x), ('norm', x), ('normalized', x)]
    for n in (2, -2, 1):
        for s in INFIX:
            out.append(('infix', s, x, ('num', n)))
            out.append(('infix', s, ('num', n), x))
    for m in ('gp', 'op', 'add', 'sub', 'sw', 'div', 'ip'):
        out.append(('meth2', m, x, ('num', 3)))
    d = alg.d
    for gs in [(0,), (1,), (d,), (0, 1), (1, 2), tuple(range(d + 1)), (), (2, 1), (d + 1,)]:
        out.append(('grade', x, gs, False))
    out.append(('grade', x, (0, 1), True))
    for n in range(-3, 4):
        out.append(('pow', x, n))
    for kind in ('auto', 'polarity', 'hodge', 'poincare'):
        out += [('dual', x, kind), ('undual', x, kind)]
    for b in blades:
        c = ('coeff', x, b)
        out += [c, ('infix', '*', c, y), ('infix', '*', y, c), ('infix', '+', c, y), ('infix', '-', c, y), ('infix', '-', y, c),
                ('infix', '^', c, y), ('infix', '|', c, y), ('infix', '/', y, c), ('meth2', 'gp', y, c),
                ('infix', '*', c, ('coeff', y, b)), ('infix', '-', ('num', 2), c), ('infix', '+', c, ('num', 2)), ('prefix', '-', c),
                ('infix', '*', ('num', 3), c)]
    out += [('call', 0, [x, y]), ('call', 1, [x]), ('call', 2, [x, y]), ('call', 3, [x]),
            ('call', 0, [('coeff', x, blades[0]), y]), ('call', 0, [x, ('num', 2)])]
    out += [('meth2', '__rmul__', x, y), ('meth2', '__rxor__', x, y), ('meth2', '__radd__', x, y), ('meth1', 'exp', x),
            ('meth1', 'outerexp', x), ('meth2', 'nosuch', x, y)]
    return out


def blade_spellings(rng, alg):
    """canonical, permuted and foreign spellings for coefficient access"""
    names = list(alg.canon2bin)
    out = ['e', rng.choice(names)]
    big = [n for n in names if len(n) >= 3]
    if big:
        n = rng.choice(big)
        digits = list(n[1:])
        rng.shuffle(digits)
        out.append('e' + ''.join(digits))
        out.append('e' + n[2] + n[1] + n[3:])          # one transposition: the sign flips
    out.append('e' + format(alg.start_index + alg.d, 'x'))          # a generator outside the algebra
    vec = [n for n in names if len(n) == 2]
    if vec:
        out.append(vec[0] + vec[0][1:])                             # repeated generator: 'e11'
    return list(dict.fromkeys(out))


def reduced_operands(alg, blades):
    b = blades[min(1, len(blades) - 1)]
    return [A0, A1, ('infix', '*', A0, A1), ('infix', '+', A0, ('num', 2)), ('grade', A1, (1,), False), ('prefix', '~', A0),
            ('infix', '*', ('coeff', A0, b), A1), ('meth2', 'sw', A0, A1), ('pow', A0, 2), ('dual', A1, 'auto'),
            ('call', 0, [A1, A0]), ('infix', '-', ('num', 1), A1)]


def random_tree(rng, alg, blades, nargs, depth):
    if depth == 0 or rng.random() < 0.15:
        return ('arg', rng.randrange(nargs))
    sub = lambda: random_tree(rng, alg, blades, nargs, depth - 1)
    r = rng.random()
    if r < 0.30:
        return ('infix', rng.choice(list(INFIX)), sub(), sub())
    if r < 0.42:
        return ('meth2', rng.choice(BIN_METHODS), sub(), sub())
    if r < 0.52:
        return ('meth1', rng.choice(UN_METHODS[:5] + ['hodge', 'unhodge']), sub())
    if r < 0.60:
        s = rng.choice(['+', '-', '*', '*', '^', '/'])
        n = ('num', rng.choice([2, 3, -1, -2]))
        return ('infix', s, sub(), n) if rng.random() < 0.5 or s == '/' else ('infix', s, n, sub())
    if r < 0.68:
        return ('grade', sub(), tuple(sorted(rng.sample(range(alg.d + 1), rng.randint(0, min(2, alg.d + 1))))), rng.random() < 0.3)
    if r < 0.74:
        return ('pow', sub(), rng.choice([0, 1, 2, 2, 3, -1]))
    if r < 0.86:
        c = ('coeff', sub(), rng.choice(blades))
        return rng.choice([('infix', '*', c, sub()), ('infix', '*', sub(), c), ('infix', '+', c, sub()), ('infix', '-', sub(), c),
                           ('infix', '*', c, ('coeff', sub(), rng.choice(blades))), ('prefix', '-', c)])
    if r < 0.92:
        k = rng.choice([0, 1, 2, 3])
        return ('call', k, [sub() for _ in range(CALLEES[k][0])])
    if r < 0.96:
        return (rng.choice(['dual', 'undual']), sub(), rng.choice(['auto', 'polarity', 'hodge']))
    return ('prefix', rng.choice('-~'), sub())


# ----------------------------------------------------------------------------- running the implementation
def build(alg, tree, nparams, fname, env):
    code = f'def {fname}({", ".join(NAMES[:nparams])}):\n    return {src(tree)}\n'
    exec(code, env)
    return env[fname]


def make_env(alg):
    """the registered callees g0.. of one algebra (registered once per algebra)"""
    env = {}
    for k, (n, body) in enumerate(CALLEES):
        g = build(alg, body, n, f'gbody{k}', env)
        env[f'g{k}'] = alg.register(g)
    return env


def as_items(r):
    """a multivector or plain number -> [(key, value)]"""
    if hasattr(r, 'keys') and hasattr(r, 'values'):
        return list(zip(r.keys(), r.values()))
    if isinstance(r, (int, float, Fraction)) and not isinstance(r, bool):
        return [(0, r)]
    raise TypeError(f'result is a {type(r).__name__}')


def same_items(a, b, exact):
    da, db = oc.coeff_map(a), oc.coeff_map(b)
    for k in set(da) | set(db):
        x, y = da.get(k, 0), db.get(k, 0)
        if exact:
            if x != y: return False
        else:
            try:
                if not math.isclose(x, y, rel_tol=1e-9, abs_tol=1e-9 * max(1.0, abs(x), abs(y))): return False
            except TypeError:
                return False
    return True


def run_one(f, args, how, alg):
    try:
        with warnings.catch_warnings():
            warnings.simplefilter('ignore')
            if how == 'plain': r = f(*args)
            elif how == 'register': r = alg.register(f)(*args)
            else: r = alg.register(symbolic=True)(f)(*args)
        items = as_items(r)
        for _, v in items:
            if isinstance(v, complex) or (isinstance(v, float) and not math.isfinite(v)):
                return 'err', ValueError('non-finite / complex value')
        return 'ok', items
    except RecursionError as e:
        return 'err', e
    except Exception as e:  # noqa
        return 'err', e


def symbolic_known_clause(tree):
    """the two listed symbolic=True findings, by input class"""
    if labels(tree) & {'sqrt', 'norm', 'normalized'}:
        return 'symbolic-sqrt'
    if has_coeff(tree) or any(has_coeff(CALLEES[k][1]) for k in callees(tree)):
        return 'symbolic-coefficient-access'
    return None


def evaluate(R, spec, alg, env, tree, nargs, operands, idx, cases, pool, want_symbolic):
    """one case: direct oracle (register, symbolic) + the model terms"""
    floaty = bool(labels(tree) & FLOATY) or any(labels(CALLEES[k][1]) & FLOATY for k in callees(tree))
    vals = [[(k, float(v) + 0.5 if floaty else v) for k, v in it] for it in operands]
    args = [oc.make_mv(alg, [k for k, _ in it], [v for _, v in it]) for it in vals]
    f = build(alg, tree, nargs, f'f{idx}', env)
    kp, plain = run_one(f, args, 'plain', alg)
    text = src(tree)
    rep = {'algebra': spec, 'tree': tree, 'src': text, 'operands': vals, 'nargs': nargs}
    desc = f'def f({", ".join(NAMES[:nargs])}): return {text}   in Algebra({algs.describe(spec)}) on ' + \
           ', '.join(f'{NAMES[i]}={dict(it)}' for i, it in enumerate(vals))
    R.count('d=%d' % alg.d); R.count('basis=' + algs.kind(spec)); R.count('nargs=%d' % nargs)
    for lab in sorted(labels(tree)):
        R.count('op=' + lab)
    R.count('fragment=' + ('supported' if supported(tree) else 'outside'))
    nontrivial = kp == 'ok' and any(v != 0 for _, v in plain)
    R.case((algs.describe(spec), text, tuple(tuple(k for k, _ in it) for it in operands)), nontrivial,
           sample={'algebra': algs.describe(spec), 'f': text, 'args': [dict(it) for it in vals],
                   'plain': plain if kp == 'ok' else f'{type(plain).__name__}'})
    kr, reg = run_one(f, args, 'register', alg)
    if kp == 'ok':
        if kr == 'ok':
            if not same_items(plain, reg, exact=not floaty):
                clause = ('explicit-reflected-call' if not noswap(tree) else
                          'coefficient-int-semantics' if python_number_semantics(tree) else 'register-differs')
                R.violation({'clause': clause, 'route': 'register'}, dict(rep, plain=plain, registered=reg),
                            f'alg.register(f) returns {reg}, f returns {plain}: {desc}')
        elif supported(tree):
            clause = 'call-number-argument' if any(c[0] == 'call' and any(isnum(a) for a in c[2]) for c in walk(tree)) else 'register-raises'
            R.violation({'clause': clause, 'route': 'register'}, dict(rep, plain=plain, error=f'{type(reg).__name__}: {reg}'),
                        f'alg.register(f) raises {type(reg).__name__} ({reg}) inside the supported fragment, f returns {plain}: {desc}')
        else:
            R.count('outside-fragment-raises')
    else:
        R.count('plain-raises')
    if want_symbolic:
        ks, sym = run_one(f, args, 'symbolic', alg)
        R.count('symbolic-runs')
        if kp == 'ok':
            if ks == 'ok':
                if not same_items(plain, sym, exact=False):
                    R.violation({'clause': 'symbolic-differs', 'route': 'symbolic'}, dict(rep, plain=plain, symbolic=sym),
                                f'alg.register(symbolic=True)(f) returns {sym}, f returns {plain}: {desc}')
            elif supported(tree):
                clause = symbolic_known_clause(tree) or 'symbolic-raises'
                R.violation({'clause': clause, 'route': 'symbolic'}, dict(rep, plain=plain, error=f'{type(sym).__name__}: {sym}'),
                            f'alg.register(symbolic=True)(f) raises {type(sym).__name__} ({sym}) inside the supported fragment, '
                            f'f returns {plain}: {desc}')
    # ---- the Coq model on the integer, division-free cases
    if floaty or python_number_semantics(tree):
        R.count('model-skipped')
        return
    ref, dfn = pool.ref(spec)
    bodies = kv.blist([gal(b) for _, b in CALLEES] + [gal(tree)])
    k = len(CALLEES)
    xs = kv.blist(oc.mv_term(it) for it in operands)
    fuel = '%d%%nat' % (4 * (size(tree) + 12))
    mreg = f'(registered_Z A mv_methods tape_methods {bodies} {fuel} {k}%nat {xs})'
    mpl = f'(plain_Z A mv_methods tape_methods {bodies} {fuel} {k}%nat {xs})'
    def expect(kind, val, exact):
        if kind == 'ok':
            cmp = 'mv_eqb' if exact else 'mv_equiv A'
            return lambda m: f'match {m} with Ok r => {cmp} r {oc.mv_term([(kk, int(v)) for kk, v in val])} | Err _ => false end'
        return lambda m: f'match {m} with Ok _ => false | Err _ => true end'
    meta = {'spec': spec, 'src': text, 'operands': operands, 'rep': rep, 'desc': desc}
    if all(isinstance(v, int) for _, v in (plain if kp == 'ok' else [])):
        cases.append({'check': algs.with_alg(ref, expect(kp, plain, False)(mpl)), 'defs': [dfn], 'show': algs.with_alg(ref, mpl, '(Err EOther)'),
                      'meta': dict(meta, side='plain', impl=plain if kp == 'ok' else f'{type(plain).__name__}: {plain}', level='value')})
    if kr != 'ok' or all(isinstance(v, int) for _, v in reg):
        cases.append({'check': algs.with_alg(ref, expect(kr, reg, False)(mreg)), 'defs': [dfn], 'show': algs.with_alg(ref, mreg, '(Err EOther)'),
                      'meta': dict(meta, side='registered', impl=reg if kr == 'ok' else f'{type(reg).__name__}: {reg}', level='value')})
        if kr == 'ok':      # the key tuple the recorder tracked, in order, and the values in that order
            cases.append({'check': algs.with_alg(ref, expect(kr, reg, True)(mreg)), 'defs': [dfn],
                          'meta': dict(meta, side='registered', impl=reg, level='keys',
                                       composite=bool((labels(tree) | set().union(*[labels(CALLEES[c][1]) for c in callees(tree)] or [set()])) & COMPOSITE))})


def walk(t):
    yield t
    for c in children(t):
        yield from walk(c)


# ----------------------------------------------------------------------------- the check
SPECS_QUICK = [{'sig': [1, 1]}, {'sig': [1, -1, 1]}, {'pqr': (2, 0, 1)}, {'sig': [0, 1, 1], 'start': 1}, {'pqr': (3, 0, 0)},
               {'sig': [-1, 0, 1, 1]}, {'pqr': (1, 0, 0)}]


def random_spec(rng):
    d = rng.choice([1, 2, 2, 3, 3, 3, 4])
    r = rng.random()
    if r < 0.25 and d <= 3:
        return {'sig': [rng.choice((1, -1, 0)) for _ in range(d)], 'basis': algs.random_basis(rng, d)}
    if r < 0.5:
        return {'pqr': rng.choice([s['pqr'] for s in algs.pqr_specs(d) if sum(s['pqr']) == d])}
    spec = {'sig': [rng.choice((1, 1, -1, 0)) for _ in range(d)]}
    if rng.random() < 0.3:
        spec['start'] = rng.choice([0, 1, 2])
    return spec


def operands_for(rng, alg, nargs, small):
    out = []
    for _ in range(nargs):
        ks, _ = oc.random_keys(rng, alg, rng.choice(['sparse', 'sparse', 'grade', 'single', 'full', 'empty', 'dense'] if not small
                                                    else ['sparse', 'single', 'grade']))
        ks = ks[:3] if small else ks[:6]
        out.append(list(zip(ks, oc.random_values(rng, len(ks), lo=-4, hi=4, zero_p=0.05))))
    return out


def probes(R):
    """targeted re-confirmation of the listed input classes on the current tree (so that KNOWN-FINDING lines appear)"""
    from kingdon import Algebra
    alg = Algebra(2, 0, 1)
    a = alg.multivector(keys=(1, 2, 6), values=[3, 5, 7]); b = alg.multivector(keys=(2, 1, 0), values=[2, 4, 9])
    env = make_env(alg)
    spec = {'pqr': (2, 0, 1)}
    ops = [[(1, 3), (2, 5), (6, 7)], [(2, 2), (1, 4), (0, 9)]]

    def probe(tree, nargs, how, clause, what):
        f = build(alg, tree, nargs, 'probe_' + clause.replace('-', '_'), env)
        kp, plain = run_one(f, [a, b][:nargs], 'plain', alg)
        k2, got = run_one(f, [a, b][:nargs], how, alg)
        bad = kp == 'ok' and (k2 != 'ok' or not same_items(plain, got, exact=False))
        if bad:
            R.violation({'clause': clause, 'route': how}, {'algebra': spec, 'tree': tree, 'src': src(tree), 'operands': ops[:nargs], 'nargs': nargs},
                        f'{what}: def f: return {src(tree)} in Algebra(2,0,1): f returns {plain}, {how} '
                        + (f'returns {got}' if k2 == 'ok' else f'raises {type(got).__name__}: {got}'))
    probe(('infix', '*', ('coeff', A0, 'e1'), A1), 2, 'symbolic', 'symbolic-coefficient-access',
          'coefficient access times a multivector under register(symbolic=True)')
    probe(('norm', A0), 1, 'symbolic', 'symbolic-sqrt', 'norm under register(symbolic=True)')
    probe(('meth2', '__rmul__', A0, A1), 2, 'register', 'explicit-reflected-call', 'explicit call of the reflected member __rmul__')
    probe(('call', 0, [A0, ('num', 2)]), 1, 'register', 'call-number-argument', 'a registered function called with a plain number argument')
    # Python's own int semantics on a coefficient of the plain function versus a recorder operator: a.e1 ^ a.e2 is
    # int xor in f (5 ^ 0 = 5) and the outer product of two scalar recorders in the compiled function (0)
    probe(('infix', '^', ('coeff', A0, 'e1'), ('coeff', A0, 'e2')), 1, 'register', 'coefficient-int-semantics',
          'bitwise operator between two coefficients')
    # control flow on a recorder: it has no __bool__, so `a if a else b` always takes the first branch
    e = alg.multivector(keys=(), values=[])
    env2 = dict(env)
    exec('def probe_flow(a, b):\n    return a if a else b\n', env2)
    kp, plain = run_one(env2['probe_flow'], [e, b], 'plain', alg)
    k2, got = run_one(env2['probe_flow'], [e, b], 'register', alg)
    if kp == 'ok' and k2 == 'ok' and not same_items(plain, got, exact=True):
        R.violation({'clause': 'control-flow', 'route': 'register'},
                    {'algebra': spec, 'src': 'a if a else b', 'params': 2, 'operands': [[], ops[1]], 'exact': True},
                    f'def f(a, b): return a if a else b with a stored-empty a: f returns {plain} (= b), alg.register(f) returns {got} '
                    f'(a recorder is always truthy)')
    # a lambda cannot be registered at all
    lam = lambda x: x * x                                    # noqa: E731
    kp, plain = run_one(lam, [a], 'plain', alg)
    k2, got = run_one(lam, [a], 'register', alg)
    if kp == 'ok' and k2 != 'ok':
        R.violation({'clause': 'lambda', 'route': 'register'}, {'algebra': spec, 'lambda': 'lambda x: x*x', 'operands': ops[:1]},
                    f'alg.register(lambda x: x*x)(a) raises {type(got).__name__}: {got} (the generated def uses the name <lambda>)')
    # a Fraction literal is embedded through str(): 1/3 becomes float division
    env['Fraction'] = Fraction
    exec('def probe_frac(a):\n    return a * Fraction(1, 3)\n', env)
    kp, plain = run_one(env['probe_frac'], [a], 'plain', alg)
    k2, got = run_one(env['probe_frac'], [a], 'register', alg)
    if kp == 'ok' and (k2 != 'ok' or not same_items(plain, got, exact=True)):
        R.violation({'clause': 'fraction-literal', 'route': 'register'}, {'algebra': spec, 'src': 'a * Fraction(1, 3)', 'operands': ops[:1]},
                    f'def f(a): return a * Fraction(1, 3): f returns {plain}, alg.register(f) returns {got if k2 == "ok" else type(got).__name__} '
                    f'(the literal is printed with str() into the compiled source)')


def helper_scenario(spec, ks, vals, order):
    """Registered helpers that share their __name__ (closures made by one factory, lambdas), each used inside another registered
    function; the outer functions are called in the given order (repetitions included) and every call is compared with the plain
    python function.  Returns the list of failures [(step, label, registered, plain)]."""
    alg = algs.make_impl(spec)
    x = oc.make_mv(alg, ks, vals)
    xp = oc.make_mv(alg, ks[::-1], vals[::-1])          # the same element, blades stored in the opposite order

    def make_scale(k):
        def scale(v):
            return k * v
        return alg.register(scale)
    s2, s3 = make_scale(2), make_scale(3)
    sq, cu = alg.register(lambda v: v * v), alg.register(lambda v: v * v * v)
    plain = {'g2': lambda v: s2(v) + v, 'g3': lambda v: s3(v) + v, 'h2': lambda v: sq(v) - v, 'h3': lambda v: cu(v) - v}
    def g2(v): return s2(v) + v
    def g3(v): return s3(v) + v
    def h2(v): return sq(v) - v
    def h3(v): return cu(v) - v
    reg = {'g2': alg.register(g2), 'g3': alg.register(g3), 'h2': alg.register(h2), 'h3': alg.register(h3)}
    want = {'g2': lambda v: 3 * v, 'g3': lambda v: 4 * v, 'h2': lambda v: v * v - v, 'h3': lambda v: v * v * v - v}
    fails = []
    for step, (label, perm) in enumerate(order):
        arg = xp if perm else x
        try:
            got = as_items(reg[label](arg))
        except Exception as e:  # noqa
            got = f'{type(e).__name__}: {e}'[:120]
        exp = as_items(want[label](arg))
        if isinstance(got, str) or not same_items(exp, got, exact=False):
            fails.append((step, label, got, exp))
    return fails


def accessor_spellings(R, rng, tier):
    """x.<spelling> inside a registered function = x.<spelling> evaluated directly, for EVERY spelling of every blade of small
    algebras whose canonical blades are not all spelled in the listing order of their generators."""
    from itertools import permutations
    specs = [{'fromname': '2DPGA'}, {'sig': [1, 1, 1], 'basis': ['e', 'e1', 'e2', 'e3', 'e12', 'e31', 'e23', 'e123']},
             {'sig': [1, 1, 1], 'basis': ['e', 'e2', 'e3', 'e1', 'e23', 'e21', 'e31', 'e231']}, {'sig': [0, 1, 1], 'start': 3}]
    if tier != 'quick':
        specs.append({'fromname': '3DPGA'})
    for spec in specs:
        alg = algs.make_impl(spec)
        vals = [rng.randint(2, 9) * rng.choice((1, -1)) for _ in range(len(alg))]
        x = alg.multivector(vals)
        for canon in alg.canon2bin:
            perms = list(permutations(canon[1:]))
            if len(perms) > 6:
                perms = rng.sample(perms, 6)
            for perm in perms:
                name = 'e' + ''.join(perm)
                def coefficient(v, name=name):
                    return getattr(v, name)
                R.count('route=accessor-spelling'); R.case(('accessor-spelling', repr(spec), name), name != canon)
                direct = coefficient(x)
                try:
                    compiled = alg.register(coefficient)(x).e
                except Exception as e:  # noqa
                    compiled = f'{type(e).__name__}: {e}'[:100]
                if compiled != direct:
                    R.violation({'clause': 'accessor-spelling', 'route': 'register'},
                                {'algebra': spec, 'spelling': name, 'values': vals, 'accessor': True},
                                f'x.{name} is {direct} evaluated directly (canonical blade {canon}: {getattr(x, canon)}) but {compiled} inside a registered function, '
                                f'in Algebra({algs.describe(spec)}) with x = multivector({vals})')


def grade_selection_orders(R, rng, tier):
    """x.grade(...) inside a registered function, for every selection of grades (adjacent or not, with stored grades in between)
    and operands stored canonically, reversed, in binary order and rotated: the registered function = the plain one."""
    import itertools as _it
    for spec in ({'sig': [1, 1, 1]}, {'pqr': (2, 0, 1)}) + (({'pqr': (3, 0, 1)},) if tier != 'quick' else ()):
        alg = algs.make_impl(spec)
        canon = [int(k) for k in alg.canon2bin.values()]
        layouts = {'canonical': canon, 'reversed': canon[::-1], 'binary': sorted(canon), 'rotated': canon[3:] + canon[:3],
                   'sparse-shuffled': rng.sample(canon, len(canon) - 2)}
        gsets = [gs for r_ in (1, 2, 3) for gs in _it.combinations(range(alg.d + 1), r_)]
        if len(gsets) > 14:
            gsets = rng.sample(gsets, 14)
        for lname, ks in layouts.items():
            vals = [rng.randint(1, 9) * rng.choice((1, -1)) for _ in ks]
            x = oc.make_mv(alg, ks, vals)
            for gs in gsets:
                def sel(v, gs=gs):
                    return v.grade(*gs)
                R.count('route=grade-selection'); R.case(('grade-selection', repr(spec), lname, gs), lname != 'canonical')
                want = as_items(sel(x))
                try:
                    got = as_items(alg.register(sel)(x))
                except Exception as e:  # noqa
                    got = f'{type(e).__name__}: {e}'[:100]
                if isinstance(got, str) or not same_items(want, got, exact=True):
                    R.violation({'clause': 'grade-selection', 'route': 'register'},
                                {'algebra': spec, 'grade_selection': list(gs), 'keys': ks, 'values': vals},
                                f'x.grade{gs} inside a registered function returns {got}, evaluated directly {want}, for x = {list(zip(ks, vals))} '
                                f'({lname} storage order) in Algebra({algs.describe(spec)})')
                    break


def constants_and_keywords(R, rng, tier):
    """numpy-integer constants inside registered functions (several functions on one algebra, constants that hash alike: -1 and -2),
    and keyword calls of registered functions: whenever the registered function returns, it returns what the plain function returns."""
    import numpy as np
    for spec in ({'pqr': (3, 0, 1)}, {'sig': [1, 1]}):
        alg = algs.make_impl(spec)
        canon = [int(k) for k in alg.canon2bin.values()]
        ks = rng.sample(canon, 3)
        v = oc.make_mv(alg, ks, [float(rng.randint(1, 6)) for _ in ks])
        consts = [np.int64(-1), np.int64(-2), np.int64(3), np.int64(0), np.int64(2 ** 61 - 1), np.int32(-2)]
        for c in consts:
            def times(x, c=c):
                return x * c
            def plus(x, c=c):
                return c + x
            for f in (times, plus):
                R.count('route=numpy-constant'); R.case(('numpy-constant', repr(spec), f.__name__, int(c)), True)
                want = as_items(f(v))
                try:
                    got = as_items(alg.register(f)(v))
                except Exception as e:  # noqa
                    continue                       # raising is allowed (never a DIFFERENT value)
                if not same_items(want, got, exact=False):
                    R.violation({'clause': 'numpy-constant', 'route': 'register'},
                                {'algebra': spec, 'constant': int(c), 'function': f.__name__, 'keys': ks, 'values': [float(x_) for x_ in v.values()], 'const_fn': True},
                                f'def f(x): return {"x * c" if f is times else "c + x"} with c = np.{type(c).__name__}({int(c)}) (after functions with the constants {[int(q) for q in consts[:consts.index(c)]]} '
                                f'were registered on the same algebra): f returns {want}, alg.register(f) returns {got} in Algebra({algs.describe(spec)})')
        # parameter names that are prefixes of one another followed by hex digits (x, x1, xe): symbolic registration must keep the
        # coefficients of the arguments apart
        full = [oc.make_mv(alg, canon, [float(rng.randint(1, 5)) for _ in canon]) for _ in range(3)]
        def f_names(x, x1, xe):
            return x * x1 + (x | xe) - x1 * xe
        for symbolic in ((True, False) if alg.d <= 2 else ()):        # (dense 4-D operands take half a minute to generate)
            R.count('route=parameter-names'); R.case(('parameter-names', repr(spec), symbolic), True)
            want = as_items(f_names(*full))
            try:
                got = as_items(alg.register(f_names, symbolic=symbolic)(*full))
            except Exception:  # noqa
                continue
            if not same_items(want, got, exact=False):
                R.violation({'clause': 'parameter-names', 'route': 'symbolic' if symbolic else 'register'},
                            {'algebra': spec, 'symbolic': symbolic, 'const_fn': True},
                            f'def f(x, x1, xe): return x * x1 + (x | xe) - x1 * xe registered with symbolic={symbolic} on full multivectors in Algebra({algs.describe(spec)}) '
                            f'returns {got}, the plain function {want}')
        # keyword calls
        p = oc.make_mv(alg, ks[:2], [2.0, 5.0])
        def blend(x, rotor=1, onto=1):
            return x * rotor + onto
        reg = alg.register(blend)
        for label, call in (('reg(v, onto=p)', lambda f_: f_(v, onto=p)), ('reg(v, rotor=p)', lambda f_: f_(v, rotor=p)), ('reg(v, onto=p, rotor=2)', lambda f_: f_(v, onto=p, rotor=2)),
                            ('reg(x=v, rotor=p, onto=p)', lambda f_: f_(x=v, rotor=p, onto=p))):
            R.count('route=keyword-call'); R.case(('keyword-call', repr(spec), label), True)
            want = as_items(call(blend))
            try:
                got = as_items(call(reg))
            except Exception:  # noqa   (the clean tree raises TypeError for every keyword call)
                continue
            if not same_items(want, got, exact=False):
                R.violation({'clause': 'keyword-call', 'route': 'register'}, {'algebra': spec, 'call': label, 'keyword_call': True},
                            f'def blend(x, rotor=1, onto=1): return x * rotor + onto; {label.replace("reg", "alg.register(blend)")} returns {got}, the plain function {want} '
                            f'in Algebra({algs.describe(spec)})')


def same_name_helpers(R, rng, tier):
    for it in range(6 if tier == 'quick' else 80):
        spec = random_spec(rng) if it % 2 else {'sig': [1, 1, 1, 0][:rng.choice((2, 3, 4))], 'start': None}
        alg = algs.make_impl(spec)
        canon = [int(k) for k in alg.canon2bin.values()]
        ks = rng.sample(canon, min(len(canon), rng.randint(2, 3)))
        vals = [float(rng.randint(1, 5)) for _ in ks]
        order = [(rng.choice(['g2', 'g3', 'h2', 'h3']), rng.random() < 0.3) for _ in range(8)]
        order = [('g2', False), ('g3', False), ('g2', False), ('h2', False), ('h3', False), ('h2', False)] + order
        R.count('route=same-name-helpers'); R.case(('same-name-helpers', it, repr(spec), tuple(ks)), True)
        for step, label, got, exp in helper_scenario(spec, ks, vals, order)[:1]:
            R.violation({'clause': 'same-name-helpers', 'route': 'register'},
                        {'algebra': spec, 'helpers': True, 'keys': ks, 'values': vals, 'order': order},
                        f'call {step} of the history {[l for l, _ in order]} in Algebra({algs.describe(spec)}): the registered function {label} (which uses a registered '
                        f'helper that shares its __name__ with another helper) returns {got}, the plain python function gives {exp} for x = {list(zip(ks, vals))}'[:700])


def run(R, tier):
    warnings.filterwarnings('ignore')
    rng = R.rng
    pool = algs.AlgPool()
    cases = []
    algcache = {}
    counter = itertools.count()

    def get(spec):
        key = repr(spec)
        if key not in algcache:
            alg = algs.make_impl(spec)
            algcache[key] = (alg, make_env(alg))
        return algcache[key]

    probes(R)
    same_name_helpers(R, rng, tier)
    accessor_spellings(R, rng, tier)
    grade_selection_orders(R, rng, tier)
    constants_and_keywords(R, rng, tier)
    quick = tier == 'quick'
    # 1. every one-level form, 2. two-level trees over the reduced operand set
    # (a named algebra: blades such as e20 / e01 are not spelled in the listing order of their generators)
    specs = SPECS_QUICK[:4] + [{'fromname': '2DPGA'}] if quick else SPECS_QUICK + [{'fromname': '2DPGA'}, {'fromname': '3DPGA'}] + [random_spec(rng) for _ in range(12)]
    for spec in specs:
        alg, env = get(spec)
        blades = blade_spellings(rng, alg)
        forms = one_level(A0, A1, alg, blades)
        for tree in forms:
            if quick and rng.random() > 0.45:
                continue
            ops = operands_for(rng, alg, 2, small=False)
            evaluate(R, spec, alg, env, tree, 2, ops, next(counter), cases, pool,
                     want_symbolic=size(tree) <= 4 and alg.d <= 3 and rng.random() < (0.25 if quick else 0.5))
        red = reduced_operands(alg, blades)
        p2 = (0.012 if quick else (1.0 if spec in SPECS_QUICK[:2] else 0.04))
        for x in red:
            for y in red:
                for tree in one_level(x, y, alg, blades[:3]):
                    if rng.random() > p2:
                        continue
                    ops = operands_for(rng, alg, 2, small=True)
                    evaluate(R, spec, alg, env, tree, 2, ops, next(counter), cases, pool,
                             want_symbolic=size(tree) <= 5 and alg.d <= 2 and rng.random() < 0.1)
    # 3. random deeper trees, 1-3 arguments, random algebras
    for _ in range(90 if quick else 2500):
        spec = random_spec(rng)
        alg, env = get(spec)
        blades = blade_spellings(rng, alg)
        nargs = rng.choice([1, 2, 2, 3])
        tree = random_tree(rng, alg, blades, nargs, rng.choice([2, 3, 3, 4]))
        ops = operands_for(rng, alg, nargs, small=alg.d >= 3)
        evaluate(R, spec, alg, env, tree, nargs, ops, next(counter), cases, pool,
                 want_symbolic=size(tree) <= 5 and alg.d <= 3 and rng.random() < 0.15)
    R.notes.append(f'model cases: {len(cases)}')
    bad, shown = kv.run_cases('C11', cases, imports='Model.All Model.Tape Gen.Dunder', shard=120, timeout=1500,
                               prelude='From Coq Require Import String.\nOpen Scope string_scope.')
    for i in bad:
        m = cases[i]['meta']
        if m['level'] == 'keys':
            R.fidelity_notes += 1
            if not m['composite']:
                R.notes.append(f'recorded keys differ from the model outside sw/proj/normsq: {m["desc"]}')
                R.broken = getattr(R, 'broken', []) + [('correspondence', f'recorded key tuple: model differs from implementation {m["impl"]}: {m["desc"]}')]
            continue
        R.broken = getattr(R, 'broken', []) + [
            ('correspondence', f'Model/Tape.v {m["side"]} differs from the implementation ({m["impl"]}); model: {shown.get(i)}: {m["desc"]}')]


def replay(R, rec):
    warnings.filterwarnings('ignore')
    r = rec['replay']
    route = rec.get('class', {}).get('route', 'register')
    alg = algs.make_impl(r['algebra'])
    env = make_env(alg)
    if r.get('const_fn') or r.get('keyword_call'):
        R2 = kv.Run(rec['property'], rec.get('tier', 'quick'), int(rec.get('seed', 1)))
        R2.findings = []
        constants_and_keywords(R2, R2.rng, R2.tier)
        return not getattr(R2, 'all_failures', [])
    if r.get('grade_selection') is not None:
        x = oc.make_mv(alg, list(r['keys']), list(r['values']))
        f = lambda v, gs=tuple(r['grade_selection']): v.grade(*gs)
        try:
            return same_items(as_items(f(x)), as_items(alg.register(f)(x)), exact=True)
        except Exception:  # noqa
            return False
    if r.get('accessor'):
        x = alg.multivector(list(r['values']))
        f = lambda v, name=r['spelling']: getattr(v, name)
        try:
            return alg.register(f)(x).e == f(x)
        except Exception:  # noqa
            return False
    if r.get('helpers'):
        return not helper_scenario(r['algebra'], list(r['keys']), list(r['values']), [tuple(o) for o in r['order']])
    if 'lambda' in r:
        a = oc.make_mv(alg, [k for k, _ in r['operands'][0]], [v for _, v in r['operands'][0]])
        return run_one(lambda x: x * x, [a], 'register', alg)[0] == 'ok'
    if 'tree' not in r:
        env['Fraction'] = Fraction
        nargs = r.get('params', 1)
        exec(f'def replay_f({", ".join(NAMES[:nargs])}):\n    return {r["src"]}\n', env)
        f = env['replay_f']
        tree = None
    else:
        def tup(t):
            return tuple(tup(x) if isinstance(x, list) and x and isinstance(x[0], str) else
                         ([tup(y) for y in x] if isinstance(x, list) and x and isinstance(x[0], list) and t[0] == 'call' else
                          (tuple(x) if isinstance(x, list) else x)) for x in t)
        tree = tup(r['tree'])
        nargs = r['nargs']
        f = build(alg, tree, nargs, 'replay_f', env)
    args = [oc.make_mv(alg, [k for k, _ in it], [v for _, v in it]) for it in r['operands'][:nargs]]
    kp, plain = run_one(f, args, 'plain', alg)
    if kp != 'ok':
        return True
    k2, got = run_one(f, args, route, alg)
    if k2 == 'ok':
        return same_items(plain, got, exact=bool(r.get('exact')))
    return tree is not None and not supported(tree)
