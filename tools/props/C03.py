"""C03 — op, ip, lc, rc, sp, cp, acp match their definitions.
Correspondence of each operator against Model/Codegen.v; oracle: grade-selection definition computed
from the implementation's sign table, (ab-ba)/2, (ab+ba)/2, ip+sp = lc+rc, cp+acp = gp."""
import warnings
import kv, algs, opcorr as oc
from props.C02 import spec_product, check_spec

OPS = ['op', 'ip', 'lc', 'rc', 'sp', 'cp', 'acp']
RULE = ('for each of op, ip, lc, rc, sp, cp, acp: exhaustive ordered key-tuple pairs for d<=1, subset pairs in random '
        'orders for d=2, random patterns d<=6 over random signature orderings and bases; integer coefficients. '
        'Non-trivial = non-empty result; distinct = distinct (algebra, operator, keys_a, keys_b).')
TRUSTED = ['hand-written model coq/Model/Codegen.v of codegen_product and the seven filters (filters bridged to Gen/Codegen.v, '
           'i.e. re-derived from /repo on every run)',
           'mathstr / printers / compile not modelled: validated per generated function by this correspondence']
ASSUMPTIONS = ['integer evaluation points stand for all ring-valued coefficients (generated functions are polynomial)',
               'duplicate-free key tuples']


def g(k):
    return bin(k).count('1')


ACCEPT = {
    'op': lambda kx, ky, ko: g(ko) == g(kx) + g(ky),
    'ip': lambda kx, ky, ko: g(ko) == abs(g(kx) - g(ky)),
    'lc': lambda kx, ky, ko: g(ko) == g(ky) - g(kx),
    'rc': lambda kx, ky, ko: g(ko) == g(kx) - g(ky),
    'sp': lambda kx, ky, ko: g(ko) == 0,
}


def patterns(R, tier):
    rng = R.rng
    for d in (0, 1):
        for sig in algs.all_sigs(d):
            ks = list(range(2 ** d))
            for ka in oc.ordered_subsets(ks):
                for kb in oc.ordered_subsets(ks):
                    yield {'sig': sig}, ka, kb, 'exhaustive-d<=1'
    for sig in ([[1, 1], [0, -1], [-1, 1]] if tier == 'quick' else algs.all_sigs(2)):
        subs = list(oc.subsets([0, 1, 2, 3]))
        for ka in subs:
            for kb in subs:
                if tier == 'quick' and rng.random() < 0.5:
                    continue
                a, b = list(ka), list(kb)
                rng.shuffle(a); rng.shuffle(b)
                yield {'sig': sig}, tuple(a), tuple(b), 'subsets-d=2'
    for i in range(150 if tier == 'quick' else 5000):
        d = rng.choice((2, 3, 3, 4, 4, 5, 6))
        if rng.random() < 0.2 and d <= 5:
            spec = {'sig': [rng.choice((1, -1, 0)) for _ in range(d)], 'basis': algs.random_basis(rng, d)}
        elif rng.random() < 0.1:
            spec = {'fromname': rng.choice(list(algs.NAMED))}
        else:
            spec = {'sig': [rng.choice((1, -1, 0)) for _ in range(d)], 'start': rng.choice((None, 0, 1))}
        yield spec, None, None, 'random'
    # large algebras (tables filled on demand; generators beyond the 8th bit): sparse operands, direct oracles only
    for i in range(10 if tier == 'quick' else 200):
        d = rng.choice((7, 8, 9, 9, 10))
        yield {'sig': [rng.choice((1, -1, 1, 0)) for _ in range(d)], 'start': None}, 'large', None, 'large'


def relations(R, spec, alg, x, y, outs):
    """ip+sp = lc+rc, cp+acp = gp, 2cp = ab-ba, 2acp = ab+ba, all as elements"""
    mx = oc.make_mv(alg, [k for k, _ in x], [v for _, v in x])
    my = oc.make_mv(alg, [k for k, _ in y], [v for _, v in y])
    ab, ba = oc.observe(alg.gp(mx, my)), oc.observe(alg.gp(my, mx))
    rel = [
        ('ip+sp=lc+rc', oc.lin((1, outs['ip']), (1, outs['sp'])), oc.lin((1, outs['lc']), (1, outs['rc']))),
        ('cp+acp=gp', oc.lin((1, outs['cp']), (1, outs['acp'])), ab),
        ('2cp=ab-ba', oc.lin((2, outs['cp'])), oc.lin((1, ab), (-1, ba))),
        ('2acp=ab+ba', oc.lin((2, outs['acp'])), oc.lin((1, ab), (1, ba))),
    ]
    for nm, l, r in rel:
        if not oc.same_element(l, r):
            R.violation({'clause': nm, 'basis': algs.kind(spec)}, {'algebra': spec, 'x': x, 'y': y, 'lhs': l, 'rhs': r},
                        f'{nm} fails for a={x}, b={y} in Algebra({algs.describe(spec)}): {l} vs {r}')


def noncommutative(R, tier):
    """coefficients that do not commute: every term of op / ip / lc / rc / sp is (sign) x coefficient-of-a x coefficient-of-b, in that
    order, on the blades its grade condition selects - whatever the storage order and the relative size of the two key tuples"""
    import sympy
    from kingdon import MultiVector
    rng = R.rng
    g = lambda k: bin(k).count('1')
    conds = {'op': lambda r, s_, t: t == r + s_, 'ip': lambda r, s_, t: t == abs(r - s_), 'lc': lambda r, s_, t: t == s_ - r,
             'rc': lambda r, s_, t: t == r - s_, 'sp': lambda r, s_, t: t == 0}
    for it in range(6 if tier == 'quick' else 60):
        d = rng.choice((2, 3))
        spec = {'sig': [rng.choice((1, -1, 0)) for _ in range(d)]}
        alg = algs.make_impl(spec)
        canon = [int(k) for k in alg.canon2bin.values()]
        ka, kb = rng.sample(canon, rng.randint(1, 4)), rng.sample(canon, rng.randint(1, 4))
        A_ = [sympy.Symbol('A%d' % i, commutative=False) for i in range(len(ka))]
        B_ = [sympy.Symbol('B%d' % i, commutative=False) for i in range(len(kb))]
        x, y = MultiVector.fromkeysvalues(alg, tuple(ka), list(A_)), MultiVector.fromkeysvalues(alg, tuple(kb), list(B_))
        for opn, cond in conds.items():
            for form in ('method', 'algebra'):
                R.count('noncommutative'); R.case(('nc', algs.describe(spec), opn, form, tuple(ka), tuple(kb)), True)
                want = {}
                for k1, v1 in zip(ka, A_):
                    for k2, v2 in zip(kb, B_):
                        sg = alg.signs[k1, k2]
                        if sg and cond(g(k1), g(k2), g(k1 ^ k2)):
                            want[k1 ^ k2] = want.get(k1 ^ k2, 0) + sg * v1 * v2
                wantx = {int(k): sympy.expand(v) for k, v in want.items() if sympy.expand(v) != 0}
                try:
                    r = getattr(x, opn)(y) if form == 'method' else getattr(alg, opn)(x, y)
                    got = {int(k): sympy.expand(v) for k, v in zip(r.keys(), r.values()) if sympy.expand(v) != 0}
                except Exception as e:  # noqa
                    got = f'{type(e).__name__}: {e}'[:100]
                if got != wantx:
                    R.violation({'clause': opn, 'basis': algs.kind(spec), 'coefficients': 'noncommutative'},
                                {'algebra': spec, 'op': opn, 'form': form, 'keys': [ka, kb], 'noncommutative': True},
                                f'{opn} ({form} form) with non-commuting coefficients {A_} on blades {ka} and {B_} on blades {kb} in Algebra({algs.describe(spec)}) = {got}, '
                                f'the definition (coefficient of the left operand first) gives {wantx}')
                    break


def run(R, tier):
    warnings.filterwarnings('ignore')
    rng = R.rng
    noncommutative(R, tier)
    pool = algs.AlgPool()
    cache, cases = {}, []
    for spec, ka, kb, tag in patterns(R, tier):
        key = repr(spec)
        if key not in cache:
            cache[key] = algs.make_impl(spec)
        alg = cache[key]
        large = ka == 'large'
        if large:
            n = 2 ** alg.d
            top = 1 << (alg.d - 1)
            ka = tuple({rng.randrange(n) | (top if rng.random() < 0.6 else 0) for _ in range(rng.randint(1, 4))})
            kb = tuple({rng.randrange(n) | (top if rng.random() < 0.6 else 0) for _ in range(rng.randint(1, 4))})
            if rng.random() < 0.5:       # a vector and a bivector sharing the highest generator
                ka, kb = (top,), (top | 1, 2 | 4)
        if ka is None:
            ka, sa = oc.random_keys(rng, alg)
            kb, sb = oc.random_keys(rng, alg)
            R.count(f'style={sa}'); R.count(f'style={sb}')
        x = list(zip(ka, oc.random_values(rng, len(ka))))
        y = list(zip(kb, oc.random_values(rng, len(kb))))
        outs = {}
        for op in OPS:
            if large:
                kind_, out = oc.call_impl(alg, op, oc.make_mv(alg, ka, [v for _, v in x]), oc.make_mv(alg, kb, [v for _, v in y]))
                if kind_ != 'ok':
                    out = f'{type(out).__name__}: {out}'
            else:
                c = oc.case_for(pool, spec, alg, op, [x, y])
                cases.append(c)
                out = c['meta']['impl']
            R.count(tag); R.count(f'op={op}'); R.count(f'd={alg.d}')
            R.case((algs.describe(spec), op, ka, kb), isinstance(out, list) and len(out) > 0,
                   sample={'algebra': algs.describe(spec), 'op': op, 'a': x, 'b': y, 'result': out})
            if not isinstance(out, list):
                R.violation({'clause': op + '-raises', 'basis': algs.kind(spec)}, {'algebra': spec, 'op': op, 'x': x, 'y': y, 'error': out},
                            f'{op} raised {out}')
                continue
            outs[op] = out
            if op in ACCEPT:
                check_spec(R, spec, alg, op, x, y, out, accept=ACCEPT[op])
        if len(outs) == len(OPS):
            relations(R, spec, alg, x, y, outs)
    bad, shown = kv.run_cases('C03', cases)
    for i in bad:
        m = cases[i]['meta']
        R.violation({'clause': m['op'] + '-model', 'basis': algs.kind(m['spec'])},
                    {'algebra': m['spec'], 'op': m['op'], 'x': m['operands'][0], 'y': m['operands'][1], 'impl': m['impl'], 'model': shown.get(i)},
                    f'{m["op"]} of {m["operands"][0]} and {m["operands"][1]} in Algebra({algs.describe(m["spec"])}): implementation {m["impl"]} differs from the model')


def replay(R, rec):
    warnings.filterwarnings('ignore')
    r = rec['replay']
    if r.get('noncommutative'):
        R2 = kv.Run(rec['property'], rec.get('tier', 'quick'), int(rec.get('seed', 1))); R2.findings = []
        noncommutative(R2, R2.tier)
        return not getattr(R2, 'all_failures', [])
    alg = algs.make_impl(r['algebra'])
    x, y = [tuple(t) for t in r['x']], [tuple(t) for t in r['y']]
    R2 = kv.Run('C03', 'quick', 0)
    mx = oc.make_mv(alg, [k for k, _ in x], [v for _, v in x]); my = oc.make_mv(alg, [k for k, _ in y], [v for _, v in y])
    outs = {}
    for op in OPS:
        kind, out = oc.call_impl(alg, op, mx, my)
        if kind != 'ok':
            return False
        outs[op] = out
        if op in ACCEPT:
            check_spec(R2, r['algebra'], alg, op, x, y, out, accept=ACCEPT[op])
    relations(R2, r['algebra'], alg, x, y, outs)
    return not R2.violations
