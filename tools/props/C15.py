"""C15 — multivector construction and coefficient access round-trip.

Every case builds a multivector through the REAL constructor (MultiVector.__new__ via Algebra.multivector
or a convenience constructor) in one of the construction forms (key/value sequences, mapping, keyword
blades in any spelling, grade-restricted value lists, by name) and reads it back through every accessor
(getattr with canonical and permuted spellings, items, containment, grade, asfullmv, map, filter).
(a) model: the same input is evaluated by Model/Construct.v inside Coq (values are integer codes of the
    supplied atoms) and compared with the stored (keys, values) / the exception class, and the accessors
    of the model are compared on the stored multivector;
(b) oracle: the property itself, checked directly on the implementation: read-back equals supplied,
    parity rule for permuted spellings, absent = 0, nothing dropped, malformed input raises."""
import itertools, warnings
from fractions import Fraction
import kv, algs, opcorr as oc

RULE = ('algebras: random signatures d<=5 (d=0 included), start index None/0/1/2 and shifted ones (generators spelled with hex letters, '
        'among them the digit e that is also the name prefix; start 6 for d=3 where e8 is a blade), random admissible custom bases, the '
        'named algebras, graded or not; construction forms {keys+values (int / canonical-string / mixed keys, tuple or list, any order), '
        'mapping, keyword blades, grade-restricted value lists, name=, the 14 convenience constructors with each form inside}; keyword / '
        'attribute spellings: ALL permutations of EVERY blade name for d<=3 (each as a single keyword, in a mixture with another blade, and '
        'read back from stored multivectors), random permutations and mixtures of canonical and permuted keywords for d<=5; value types '
        '{int, Fraction, dyadic float, sympy symbol/expression, numpy scalar and array element, strings to sympify}; a malformed stream '
        '{length mismatch, key outside the declared grades, invalid grades, incomplete or permuted grades in graded mode (keys, keywords, '
        'mapping, name), unknown blade names (keyword alone / mixed with valid ones, string key, mapping key, attribute), duplicate keys, '
        'out-of-range int keys}; regression streams for the repaired defects.  Non-trivial = at least one coefficient supplied or an error '
        'expected; distinct = distinct (algebra, constructor, form, input, value type).')
TRUSTED = ['hand-written model coq/Model/Construct.v (tied to the source only by this correspondence)',
           'Model/Alg.v mk_default / mk_custom / blade2canon for the algebra (covered by C01)',
           'the harness encodes supplied values as integer codes and decodes read-back values by == (numpy: array_equal)',
           'python oracle helpers (generator bits, inversion parity) are 10 lines and independent of kingdon']
ASSUMPTIONS = ['a keyword / attribute name is seen by the model through name[1:] (kingdon looks at name[0] only via `name in canon2bin`); '
               'characters that are no lower-case hex digit are encoded as numbers that are no generator',
               'grades are passed as tuples (a list is unhashable: TypeError before anything is looked at)',
               'the same blade is not given twice under two spellings and spellings do not repeat a generator (documented exclusions); '
               'duplicate keys are compared with the model only',
               'string values (sympified by the constructor) and the default filter() predicate are exercised by the oracle only',
               'keyword blades given together with values/keys are ignored by the constructor; not generated']

HEX = '0123456789abcdef'
SYM_BASE = 1000
PSEUDO = {'pseudoscalar': 0, 'pseudovector': 1, 'pseudobivector': 2, 'pseudotrivector': 3, 'pseudoquadvector': 4}
PURE = {'scalar': 0, 'vector': 1, 'bivector': 2, 'trivector': 3, 'quadvector': 4}


# ----------------------------------------------------------------------------- encoding for the model
def enc_digits(tail):
    return kv.natlist((HEX.index(c) if c in HEX else 100 + ord(c)) for c in tail)


def enc_name(s):
    return enc_digits(s[1:])


def key_term(k):
    return f'(KInt {kv.Z(k)})' if isinstance(k, int) else f'(KName {enc_name(k)})'


def spelling_term(s):
    import re
    return f'(SName {enc_name(s)})' if re.match(r'^e[0-9a-fA-F]*$', s) else 'SOther'


def input_term(inp, code):
    v = inp.get('values')
    if v is None:
        vt = 'VNone'
    elif isinstance(v, dict):
        vt = '(VMap ' + kv.blist(kv.pair(key_term(k), kv.Z(code(x))) for k, x in v.items()) + ')'
    else:
        vt = '(VList ' + kv.zlist(code(x) for x in v) + ')'
    ks = inp.get('keys')
    kt = 'None' if ks is None else '(Some ' + kv.blist(key_term(k) for k in ks) + ')'
    g = inp.get('grades')
    gt = 'None' if g is None else '(Some ' + kv.zlist(g) + ')'
    it = kv.blist(kv.pair(enc_name(k), kv.Z(code(x))) for k, x in inp.get('items', {}).items())
    return f'(mkInput {vt} {kt} {kv.boolt(bool(inp.get("name")))} {gt} {it})'


def ctor_term(ctor, inp_t):
    symf = f'(fun k => {SYM_BASE} + k)'
    if ctor == 'multivector':
        return f'(construct Zops A {symf} {inp_t})'
    if ctor in ('evenmv', 'oddmv') or ctor in PURE or ctor in PSEUDO:
        return f'({ctor} Zops A {symf} {inp_t})'
    assert ctor.startswith('purevector:')
    return f'(purevector Zops A {symf} {kv.Z(int(ctor.split(":")[1]))} {inp_t})'


# ----------------------------------------------------------------------------- values
def same(a, b):
    try:
        import numpy as np
        if isinstance(a, np.ndarray) or isinstance(b, np.ndarray):
            return np.shape(a) == np.shape(b) and bool(np.array_equal(a, b))
        return bool(a == b)
    except Exception:  # noqa
        return False


class Atoms:
    """n supplied coefficient values of one type; code(i-th atom) = i+1, code(-atom) = -(i+1), code(0) = 0."""
    def __init__(self, rng, n, vtype):
        self.vtype = vtype
        mags = rng.sample(range(1, 60), n)
        if vtype == 'int':
            self.given = [m * rng.choice((1, -1)) for m in mags]
        elif vtype == 'Fraction':
            q = rng.choice((1, 2, 3, 7))
            self.given = [Fraction(m * rng.choice((1, -1)), q) for m in mags]
        elif vtype == 'float':
            self.given = [m * rng.choice((1, -1)) / 8.0 for m in mags]
        elif vtype == 'sympy':
            import sympy
            self.given = [sympy.Symbol(f'x{i}') if i % 3 else 2 * sympy.Symbol(f'x{i}') + 1 for i in range(n)]
        elif vtype == 'numpy':
            import numpy as np
            self.given = [np.float64(m) / 4 if i % 2 else np.array([m, m + 0.5]) for i, m in enumerate(mags)]
        elif vtype == 'str':
            self.given = [f'y{i} + {m}' for i, m in enumerate(mags)]
        else:
            raise ValueError(vtype)
        if vtype == 'str':
            import sympy
            self.expect = [sympy.sympify(s) for s in self.given]
        else:
            self.expect = list(self.given)

    def code_given(self, x):
        for i, a in enumerate(self.given):
            if x is a:
                return i + 1
        for i, a in enumerate(self.given):
            if type(x) is type(a) and same(x, a):
                return i + 1
        raise KeyError(x)

    def decode(self, v, A=None, name=None):
        for i, a in enumerate(self.expect):
            if same(v, a):
                return i + 1
            if same(v, -a):
                return -(i + 1)
        if same(v, 0):
            return 0
        if name is not None and A is not None:
            s = str(v)
            neg = s.startswith('-')
            s = s[1:] if neg else s
            if s.startswith(name) and ('e' + s[len(name):]) in A.canon2bin:
                c = SYM_BASE + A.canon2bin['e' + s[len(name):]]
                return -c if neg else c
        return None


# ----------------------------------------------------------------------------- independent oracle helpers
def gen_bits(A):
    return {b[1:]: k for b, k in A.canon2bin.items() if len(b) == 2}


def blade_of(A, digs):
    """digits -> key of the blade they spell, None when a digit is no generator or is repeated"""
    gb, k = gen_bits(A), 0
    for c in digs:
        if c not in gb or k & gb[c]:
            return None
        k |= gb[c]
    return k


def perm_parity(sp, canon):
    pos = [canon.index(c) for c in sp]
    return sum(1 for i in range(len(pos)) for j in range(i + 1, len(pos)) if pos[i] > pos[j]) & 1


def grade_of(k):
    return bin(k).count('1')


def spellings_of(name):
    return ['e' + ''.join(p) for p in itertools.permutations(name[1:])]


def random_spelling(rng, name, force_perm=False):
    digs = list(name[1:])
    if len(digs) < 2:
        return name
    for _ in range(8):
        rng.shuffle(digs)
        s = 'e' + ''.join(digs)
        if s != name or not force_perm:
            return s
    return 'e' + ''.join(digs)


# ----------------------------------------------------------------------------- one case
def call_ctor(A, ctor, inp):
    kw = {}
    if inp.get('values') is not None:
        kw['values'] = inp['values']
    if inp.get('keys') is not None:
        kw['keys'] = list(inp['keys']) if inp.get('keys_as_list') else tuple(inp['keys'])
    if inp.get('name'):
        kw['name'] = inp['name']
    if inp.get('grades') is not None:
        kw['grades'] = tuple(inp['grades'])
    kw.update(inp.get('items', {}))
    if ctor.startswith('purevector:'):
        return A.purevector(grade=int(ctor.split(':')[1]), **kw)
    return getattr(A, ctor)(**kw)


def observe(x):
    return list(zip([int(k) for k in x.keys()], list(x.values())))


class Ctx:
    def __init__(self, R, tier):
        self.R, self.tier = R, tier
        self.pool = algs.AlgPool()
        self.cases = []
        self.impl_cache = {}

    def alg(self, spec):
        key = repr(sorted(spec.items(), key=str))
        if key not in self.impl_cache:
            self.impl_cache[key] = algs.make_impl(spec)
        return self.impl_cache[key]

    def viol(self, spec, clause, detail, **rep):
        self.R.violation({'clause': clause, 'basis': algs.kind(spec), 'graded': bool(spec.get('graded'))}, dict(algebra=spec, **rep),
                         f'{clause} in Algebra({algs.describe(spec)}): {detail}')

    def add_case(self, spec, check, show, meta, show_default='(Err EOther)'):
        ref, dfn = self.pool.ref(spec)
        self.cases.append({'check': algs.with_alg(ref, check), 'show': algs.with_alg(ref, show, show_default),
                           'defs': [dfn], 'meta': meta})


def describe_inp(ctor, inp):
    parts = []
    if inp.get('values') is not None:
        parts.append(f'values={inp["values"]!r}')
    if inp.get('keys') is not None:
        parts.append(f'keys={(list if inp.get("keys_as_list") else tuple)(inp["keys"])!r}')
    if inp.get('name'):
        parts.append(f'name={inp["name"]!r}')
    if inp.get('grades') is not None:
        parts.append(f'grades={tuple(inp["grades"])!r}')
    parts += [f'{k}={v!r}' for k, v in inp.get('items', {}).items()]
    c = ctor.replace('purevector:', 'purevector(grade=') if ctor.startswith('purevector:') else ctor
    return f'{c}({", ".join(parts)})' + (')' if ctor.startswith('purevector:') else '')


def run_case(cx, spec, ctor, inp, atoms, expect, form, rng, malformed=None, accessors=True, model=True, oracle=True):
    """expect: dict key -> signed code (what the property demands to be stored) or None when the case is
    malformed (must raise) or outside the property (duplicates: model comparison only)."""
    R = cx.R
    A = cx.alg(spec)
    desc = describe_inp(ctor, inp)
    replay = {'ctor': ctor, 'form': form, 'inp': ser_inp(inp), 'vtype': atoms.vtype, 'malformed': malformed,
              'expect': None if expect is None else {str(k): v for k, v in expect.items()}}
    try:
        x = call_ctor(A, ctor, inp)
        out, err = observe(x), None
    except Exception as e:  # noqa
        x, out, err = None, None, e
    R.count('form=' + form); R.count('ctor=' + (ctor.split(':')[0])); R.count('vtype=' + atoms.vtype)
    R.count('outcome=' + ('ok' if err is None else type(err).__name__))
    if malformed:
        R.count('malformed=' + malformed)
    R.case((algs.describe(spec), ctor, form, repr(ser_inp(inp)), atoms.vtype), bool(inp.get('values') or inp.get('items') or inp.get('name') or malformed),
           sample={'algebra': algs.describe(spec), 'call': desc, 'stored': str(out)[:160] if err is None else type(err).__name__})
    name = inp.get('name') or None
    coded = None
    if err is None:
        coded = [(k, atoms.decode(v, A, name)) for k, v in out]
        if any(c is None for _, c in coded):
            cx.viol(spec, form + '-value', f'{desc} stores {out}: a stored value is neither a supplied coefficient nor its negative', **replay)
            return None
    # (a) the model
    if model:
        exp_t = f'(Ok {oc.mv_term(coded)})' if err is None else f'({oc.err_term(err)})'
        t = ctor_term(ctor, input_term(inp, atoms.code_given))
        cx.add_case(spec, f'resmv_eqb {t} {exp_t}', t,
                    {'kind': 'construct', 'spec': spec, 'desc': desc, 'replay': replay, 'form': form,
                     'impl': coded if err is None else type(err).__name__, 'malformed': malformed, 'expect': expect,
                     'loose': None if err is not None else f'match {t} with Ok m => mv_same A m {oc.mv_term(coded)} | Err _ => false end'})
    # (b) the property, directly
    if oracle:
        if malformed and malformed not in ('duplicate',):
            if err is None:
                cx.viol(spec, malformed, f'{desc} is inconsistent input ({malformed}) but builds keys={[k for k, _ in out]} values={[v for _, v in out]}', **replay)
        elif expect is not None:
            if err is not None:
                cx.viol(spec, form + '-raises', f'{desc} raised {type(err).__name__}: {err}', **replay)
            else:
                got = {}
                for k, c in coded:
                    got.setdefault(k, c)
                if len(got) != len(coded) or set(got) != set(expect) or any(got[k] != expect[k] for k in expect):
                    cx.viol(spec, form + '-roundtrip', f'{desc} stores {out}; the property demands exactly {expect} (codes: i-th supplied value = i+1, negated = -(i+1))', **replay)
    if err is None and accessors:
        check_accessors(cx, spec, A, x, coded, atoms, rng, desc, replay, name)
    return x


def ser_inp(inp):
    d = {}
    for k, v in inp.items():
        if k == 'values' and isinstance(v, dict):
            d[k] = {'__map__': [[kk, repr(vv)] for kk, vv in v.items()]}
        elif k == 'values' and v is not None:
            d[k] = [repr(t) for t in v]
        elif k == 'items':
            d[k] = {kk: repr(vv) for kk, vv in v.items()}
        else:
            d[k] = v
    return d


def check_accessors(cx, spec, A, x, coded, atoms, rng, desc, replay, name=None):
    """every accessor on the stored multivector: oracle (from the stored items = the supplied coefficients)
    and model (Model/Construct.v on the literal items)."""
    R = cx.R
    first = {}
    for k, c in coded:
        first.setdefault(k, c)
    nodup = len(first) == len(coded)
    dec = lambda v: atoms.decode(v, A, name)  # noqa
    mt = f'({oc.mv_term(coded)} : mv Z)'
    checks = []       # Gallina booleans

    def bad(clause, detail):
        cx.viol(spec, clause, f'{detail}   [multivector built by {desc}]', accessor=clause, **replay)
    # items(): exactly keys x values
    its = [(int(k), dec(v)) for k, v in x.items()]
    R.count('accessor=items')
    if its != coded:
        bad('items', f'items() = {its} but keys/values = {coded}')
    # getattr: canonical names of (a sample of) all blades, permuted spellings of stored and absent blades
    names = list(A.canon2bin)
    probe = names if len(names) <= 8 else rng.sample(names, 8) + [A.bin2canon[k] for k in list(first)[:4]]
    for nm in probe:
        K = A.canon2bin[nm]
        sps = [nm]
        if len(nm) > 2:
            sps.append(random_spelling(rng, nm, True))
            if rng.random() < 0.3:
                sps.append(random_spelling(rng, nm))
        for sp in sps:
            try:
                g = dec(getattr(x, sp))
            except Exception as e:  # noqa
                bad('getattr-raises', f'x.{sp} raised {type(e).__name__}'); continue
            want = first.get(K, 0)
            if perm_parity(sp[1:], nm[1:]):
                want = -want
            R.count('accessor=getattr-' + ('canonical' if sp == nm else 'permuted') + ('-absent' if K not in first else ''))
            if g != want:
                bad('getattr-parity' if sp != nm else ('absent-is-zero' if K not in first else 'getattr'),
                    f'x.{sp} = {g} but the coefficient of {nm} is {first.get(K, 0)} and the spelling has parity {perm_parity(sp[1:], nm[1:])}')
            checks.append(f'resZ_eqb (getattr Zops A {mt} {spelling_term(sp)}) (Ok {kv.Z(g if g is not None else 77777)})')
    # containment
    for nm in rng.sample(names, min(len(names), 4)):
        K = A.canon2bin[nm]
        for it in (K, nm):
            R.count('accessor=contains')
            try:
                r = it in x
            except Exception as e:  # noqa
                bad('contains-raises', f'{it!r} in x raised {type(e).__name__}'); continue
            if r != (K in first):
                bad('contains', f'({it!r} in x) = {r} but stored keys are {[k for k, _ in coded]}')
            checks.append(f'resb_eqb (contains A {mt} {key_term(it)}) (Ok {kv.boolt(r)})')
    # asfullmv
    for canonical in (True, False):
        R.count('accessor=asfullmv')
        f = x.asfullmv(canonical=canonical)
        fk, fv = [int(k) for k in f.keys()], [dec(v) for v in f.values()]
        want_k = list(A.canon2bin.values()) if canonical else list(range(len(A)))
        if fk != want_k or fv != [first.get(k, 0) for k in want_k]:
            bad('asfullmv', f'asfullmv(canonical={canonical}) = keys {fk} values {fv}; stored {coded}')
        if None not in fv:
            checks.append(f'resmv_eqb (asfullmv Zops A {kv.boolt(canonical)} {mt}) (Ok {oc.mv_term(list(zip(fk, fv)))})')
    # grade
    gsets = [(g,) for g in range(A.d + 1)] if A.d <= 3 else [(rng.randrange(A.d + 1),)]
    gsets.append(tuple(sorted(rng.sample(range(A.d + 1), rng.randint(0, A.d + 1)))))
    for gs in gsets:
        R.count('accessor=grade')
        try:
            r = x.grade(*gs) if rng.random() < 0.5 else x.grade(tuple(gs))
        except Exception as e:  # noqa
            bad('grade-raises', f'x.grade{gs} raised {type(e).__name__}'); continue
        ro = [(int(k), dec(v)) for k, v in zip(r.keys(), r.values())]
        want = {k: c for k, c in first.items() if grade_of(k) in gs}
        if dict(ro) != want or len(ro) != len(want):
            bad('grade', f'x.grade{gs} = {ro}; stored {coded}')
        if all(c is not None for _, c in ro):
            checks.append(f'resmv_eqb (grade_sel Zops A {kv.natlist(gs)} {mt}) (Ok {oc.mv_term(ro)})')
    # map: negate / negate on odd keys / permute the supplied atoms
    n = len(atoms.expect)
    sigma = list(range(n)); rng.shuffle(sigma)

    def perm_v(v):
        c = dec(v)
        if c is None or c == 0 or abs(c) > n:
            return v
        a = atoms.expect[sigma[abs(c) - 1]]
        return a if c > 0 else -a
    tab = kv.blist(kv.pair(kv.Z(s * (i + 1)), kv.Z(s * (sigma[i] + 1))) for i in range(n) for s in (1, -1))
    maps = [('neg', lambda v: -v, '(map_v (fun v => - v)', lambda k, c: -c),
            ('negodd', lambda k, v: -v if k % 2 else v, '(map_kv (fun k v => if Z.odd k then - v else v)', lambda k, c: -c if k % 2 else c),
            ('perm', perm_v, f'(map_v (fun v => match zassoc v {tab} with Some w => w | None => v end)',
             lambda k, c: c if c == 0 or abs(c) > n else (sigma[abs(c) - 1] + 1) * (1 if c > 0 else -1))]
    for nm_, f, mterm, spec_f in maps:
        R.count('accessor=map')
        try:
            r = x.map(f)
        except Exception as e:  # noqa
            bad('map-raises', f'x.map({nm_}) raised {type(e).__name__}: {e}'); continue
        ro = [(int(k), dec(v)) for k, v in zip(r.keys(), r.values())]
        want = [(k, spec_f(k, c)) for k, c in coded]
        if ro != want:
            bad('map', f'x.map({nm_}) = {ro}, expected {want}; stored {coded}')
        if all(c is not None for _, c in ro):
            checks.append(f'mv_eqb {mterm} {mt}) {oc.mv_term(ro)}')
    # filter
    keep_codes = [c for _, c in coded if rng.random() < 0.5]
    keep_keys = [k for k, _ in coded if rng.random() < 0.5]
    filts = [('v', lambda v: dec(v) in keep_codes, f'(filter_v (fun v => zin v {kv.zlist(keep_codes)})', lambda k, c: c in keep_codes),
             ('kv', lambda k, v: k in keep_keys, f'(filter_kv (fun k v => zin k {kv.zlist(keep_keys)})', lambda k, c: k in keep_keys),
             ('none', lambda v: False, '(filter_v (fun v => false)', lambda k, c: False)]
    for nm_, f, mterm, spec_f in filts:
        R.count('accessor=filter')
        try:
            r = x.filter(f)
        except Exception as e:  # noqa
            bad('filter-raises', f'x.filter({nm_}) raised {type(e).__name__}: {e}'); continue
        ro = [(int(k), dec(v)) for k, v in zip(r.keys(), r.values())]
        want = [(k, c) for k, c in coded if spec_f(k, c)]
        if ro != want:
            bad('filter', f'x.filter({nm_}) = {ro} (raw values {list(r.values())[:6]}), expected {want}; stored {coded}')
        if all(c is not None for _, c in ro):
            checks.append(f'mv_eqb {mterm} {mt}) {oc.mv_term(ro)}')
    if atoms.vtype in ('int', 'Fraction', 'float') and nodup:
        R.count('accessor=filter-default')
        r = x.filter()
        if [int(k) for k in r.keys()] != [k for k, c in coded if c != 0]:
            bad('filter', f'x.filter() keeps {list(r.keys())}; stored {coded}')
    if checks:
        cx.add_case(spec, ' && '.join(f'({c})' for c in checks), kv.blist(f'({c})' for c in checks),
                    {'kind': 'accessors', 'spec': spec, 'desc': desc, 'replay': replay, 'impl': coded}, show_default='[]')


# ----------------------------------------------------------------------------- generators
VTYPES = ['int', 'int', 'Fraction', 'float', 'sympy', 'numpy']


def rand_spec(rng, dmax=5, graded=None):
    d = rng.choice([d_ for d_ in (0, 1, 2, 2, 3, 3, 3, 4, 4, 5) if d_ <= dmax])
    sig = [rng.choice((1, 1, -1, 0)) for _ in range(d)]
    r = rng.random()
    if r < 0.35 and d >= 1:
        # start 8: generators spelled with hex letters (a custom basis needs a decimal smallest generator)
        spec = {'sig': sig, 'basis': algs.random_basis(rng, d, start=rng.choice((None, None, None, 8)))}
    elif r < 0.45:
        spec = {'fromname': rng.choice(sorted(algs.NAMED))}
    else:
        # start 6 (d=3), 3 (d=2): the former fallback name e{2**d} is a blade; start 16-d: generator digit e
        spec = {'sig': sig, 'start': rng.choice((None, None, 0, 1, 2, 1 + d, 2 * d if d == 3 else 3, max(1, 16 - d)))}
    if graded if graded is not None else rng.random() < 0.3:
        if 'fromname' in spec:                     # Algebra.fromname takes no options through algs.make_impl
            pqr, basis = algs.NAMED[spec['fromname']]
            spec = {'pqr': pqr, 'basis': list(basis)}
        spec['graded'] = True
    return spec


def pick_keys(rng, A, graded):
    canon = list(A.canon2bin.values())
    if graded:
        gs = sorted(rng.sample(range(A.d + 1), rng.randint(1, min(A.d + 1, 3))))
        return [k for g in gs for k in A.indices_for_grade[g]]
    ks, _ = oc.random_keys(rng, A, rng.choice(['sparse', 'sparse', 'single', 'grade', 'dense', 'grades', 'full', 'binary']))
    ks = list(ks)[:10]
    return ks or [rng.choice(canon)]


def wellformed_case(cx, rng, spec, vtype=None):
    """one consistent input of a random form; returns what run_case needs."""
    A = cx.alg(spec)
    graded = bool(spec.get('graded'))
    form = rng.choice(['kv', 'kv', 'map', 'kw', 'kw', 'kw', 'grades', 'name', 'conv'])
    vtype = vtype or rng.choice(VTYPES)
    ctor = 'multivector'
    if form == 'kv':
        ks = pick_keys(rng, A, graded)
        at = Atoms(rng, len(ks), vtype)
        style = rng.choice(['int', 'int', 'str', 'mixed'])
        keys = [k if style == 'int' or (style == 'mixed' and rng.random() < 0.5) else A.bin2canon[k] for k in ks]
        inp = {'keys': keys, 'values': list(at.given)}
        if rng.random() < 0.3:
            inp['keys_as_list'] = True
        r = rng.random()
        gs = sorted({grade_of(k) for k in ks})
        if r < 0.25:
            inp['grades'] = gs
        elif r < 0.4 and not graded:
            inp['grades'] = sorted(set(gs) | {rng.randrange(A.d + 1)})
        if rng.random() < 0.1:
            inp['name'] = 'a'
        return ctor, inp, at, {k: i + 1 for i, k in enumerate(ks)}, form
    if form == 'map':
        ks = pick_keys(rng, A, graded)
        at = Atoms(rng, len(ks), vtype)
        style = rng.choice(['int', 'str', 'mixed'])
        mp = {(k if style == 'int' or (style == 'mixed' and rng.random() < 0.5) else A.bin2canon[k]): v for k, v in zip(ks, at.given)}
        inp = {'values': mp}
        if rng.random() < 0.3:
            inp['grades'] = sorted({grade_of(k) for k in ks} | ({rng.randrange(A.d + 1)} if rng.random() < 0.5 else set()))
        return ctor, inp, at, {k: i + 1 for i, k in enumerate(ks)}, form
    if form == 'kw':
        ks = pick_keys(rng, A, graded)
        rng.shuffle(ks)
        at = Atoms(rng, len(ks), vtype)
        items, expect = {}, {}
        for i, k in enumerate(ks):
            nm = A.bin2canon[k]
            sp = nm if rng.random() < 0.4 else random_spelling(rng, nm)
            items[sp] = at.given[i]
            expect[k] = -(i + 1) if perm_parity(sp[1:], nm[1:]) else i + 1
        inp = {'items': items}
        if rng.random() < 0.2:
            inp['grades'] = sorted({grade_of(k) for k in ks})
        return ctor, inp, at, expect, form
    if form in ('grades', 'conv'):
        conv = form == 'conv'
        if conv:
            ctor = rng.choice(['evenmv', 'oddmv', 'purevector', 'scalar', 'vector', 'bivector', 'trivector', 'quadvector'] + sorted(PSEUDO))
            if ctor == 'evenmv':
                gs = [g for g in range(A.d + 1) if g % 2 == 0]
            elif ctor == 'oddmv':
                gs = [g for g in range(A.d + 1) if g % 2 == 1]
            elif ctor == 'purevector':
                g = rng.randrange(A.d + 1); gs = [g]; ctor = f'purevector:{g}'
            elif ctor in PURE:
                gs = [PURE[ctor]]
            else:
                gs = [A.d - PSEUDO[ctor]]
            if any(g < 0 or g > A.d for g in gs):
                at = Atoms(rng, 1, vtype)
                return ctor, {'values': list(at.given)}, at, None, 'conv-invalid'
        else:
            gs = sorted(rng.sample(range(A.d + 1), rng.randint(0, A.d + 1))) if rng.random() < 0.8 else None
        full = list(A.canon2bin.values()) if gs is None else [k for g in gs for k in A.indices_for_grade[g]]
        sub = rng.random() < 0.35 and conv and full
        if sub:                                   # a convenience constructor with another form inside its grades
            ks = full if graded else rng.sample(full, rng.randint(1, min(len(full), 5)))
            at = Atoms(rng, len(ks), vtype)
            which = rng.choice(['kv', 'map', 'kw'])
            if which == 'kv':
                inp = {'keys': list(ks), 'values': list(at.given)}
            elif which == 'map':
                inp = {'values': dict(zip(ks, at.given))}
            else:
                inp = {'items': {A.bin2canon[k]: v for k, v in zip(ks, at.given)}}
            return ctor, inp, at, {k: i + 1 for i, k in enumerate(ks)}, 'conv-' + which
        at = Atoms(rng, len(full), vtype)
        inp = {'values': list(at.given)}
        if not conv and gs is not None:
            inp['grades'] = gs
        if rng.random() < 0.1 and full:
            inp['name'] = 'a'
        return ctor, inp, at, {k: i + 1 for i, k in enumerate(full)}, form
    # name
    at = Atoms(rng, 0, 'sympy')
    inp = {'name': rng.choice(['a', 'b', 'xy'])}
    r = rng.random()
    if r < 0.4:
        ks = pick_keys(rng, A, graded)
        inp['keys'] = [k if rng.random() < 0.7 else A.bin2canon[k] for k in ks]
    elif r < 0.75:
        gs = sorted(rng.sample(range(A.d + 1), rng.randint(0, A.d + 1)))
        inp['grades'] = gs
        ks = [k for g in gs for k in A.indices_for_grade[g]]
    else:
        ks = list(A.canon2bin.values())
    return ctor, inp, at, {k: SYM_BASE + k for k in ks}, form


def malformed_case(cx, rng, spec):
    """one inconsistent input; returns (ctor, inp, atoms, kind)."""
    A = cx.alg(spec)
    graded = bool(spec.get('graded'))
    canon = list(A.canon2bin.values())
    kinds = ['length', 'length', 'outside-grades', 'outside-grades', 'invalid-grades', 'invalid-grades', 'unknown-name', 'unknown-name',
             'duplicate', 'out-of-range']
    if graded:
        kinds += ['graded-incomplete'] * 4
    kind = rng.choice(kinds)
    vtype = rng.choice(VTYPES)
    ctor = 'multivector'
    if kind == 'length':
        r = rng.random()
        if r < 0.5:
            ks = pick_keys(rng, A, graded)
            n = len(ks) + rng.choice((-1, 1, 2))
            at = Atoms(rng, max(n, 0), vtype)
            if n <= 0:
                at = Atoms(rng, len(ks) + 1, vtype)
            return ctor, {'keys': ks, 'values': list(at.given)}, at, 'length-mismatch'
        gs = sorted(rng.sample(range(A.d + 1), rng.randint(1, A.d + 1)))
        full = [k for g in gs for k in A.indices_for_grade[g]]
        n = len(full) + rng.choice((-1, 1, 3))
        if n <= 0:
            n = len(full) + 1
        at = Atoms(rng, n, vtype)
        if rng.random() < 0.3 and len(gs) == 1 and gs[0] <= 4:
            ctor = [c for c, g in PURE.items() if g == gs[0]][0]
            return ctor, {'values': list(at.given)}, at, 'length-mismatch'
        return ctor, {'values': list(at.given), 'grades': gs}, at, 'length-mismatch'
    if kind == 'outside-grades':
        if A.d < 1:
            return malformed_case(cx, rng, spec)
        gs = sorted(rng.sample(range(A.d + 1), rng.randint(1, A.d)))
        outside = [k for k in canon if grade_of(k) not in gs]
        inside = [k for k in canon if grade_of(k) in gs]
        ks = rng.sample(inside, min(len(inside), rng.randint(0, 3))) + [rng.choice(outside)]
        rng.shuffle(ks)
        at = Atoms(rng, len(ks), vtype)
        which = rng.choice(['kv', 'map', 'kw', 'conv'])
        if which == 'kv':
            return ctor, {'keys': [k if rng.random() < 0.6 else A.bin2canon[k] for k in ks], 'values': list(at.given), 'grades': gs}, at, 'key-outside-grades'
        if which == 'map':
            return ctor, {'values': dict(zip(ks, at.given)), 'grades': gs}, at, 'key-outside-grades'
        if which == 'kw':
            return ctor, {'items': {random_spelling(rng, A.bin2canon[k]): v for k, v in zip(ks, at.given)}, 'grades': gs}, at, 'key-outside-grades'
        g = gs[0]
        ks = [rng.choice([k for k in canon if grade_of(k) != g])]
        at = Atoms(rng, 1, vtype)
        return f'purevector:{g}', {'keys': ks, 'values': list(at.given)}, at, 'key-outside-grades'
    if kind == 'invalid-grades':
        gs = rng.choice([[A.d + 1], [-1], [0, A.d + 2], [1, 0] if A.d >= 1 else [0, 0], [0, 0], [A.d, A.d], [2, 1, 0] if A.d >= 2 else [-2]])
        r = rng.random()
        ks = pick_keys(rng, A, graded)[:3]
        if r < 0.4:
            at = Atoms(rng, len(ks), vtype)
            return ctor, {'keys': ks, 'values': list(at.given), 'grades': gs}, at, 'invalid-grades'
        if r < 0.6:
            at = Atoms(rng, len(ks), vtype)
            return ctor, {'values': dict(zip(ks, at.given)), 'grades': gs}, at, 'invalid-grades'
        if r < 0.8:
            at = Atoms(rng, 0, 'sympy')
            return ctor, {'name': 'a', 'grades': gs}, at, 'invalid-grades'
        at = Atoms(rng, rng.randint(1, 4), vtype)
        return ctor, {'values': list(at.given), 'grades': gs}, at, 'invalid-grades'
    if kind == 'unknown-name':
        bad_names = ['e' + format(A.start_index + A.d + rng.randint(0, 2), 'x'), 'foo', 'e1g', 'ez', 'e' + 'G',
                     random_spelling(rng, A.bin2canon[canon[-1]], True) if A.d >= 2 else 'eq']
        nm = rng.choice(bad_names)
        which = rng.choice(['kw-alone', 'kw-mixed', 'kw-mixed', 'kv', 'map'])
        at = Atoms(rng, 2, vtype)
        if which == 'kv':
            if nm in A.canon2bin:
                nm = 'ez'
            return ctor, {'keys': [nm, canon[0]], 'values': list(at.given)}, at, 'unknown-name'
        if which == 'map':
            if nm in A.canon2bin:
                nm = 'ez'
            return ctor, {'values': {nm: at.given[0]}}, at, 'unknown-name'
        if blade_of(A, nm[1:]) is not None or any(c in nm[1:] for c in 'ABCDEF'):
            nm = 'ez'
        if which == 'kw-mixed':
            good = random_spelling(rng, A.bin2canon[rng.choice(canon)])
            items = {nm: at.given[0], good: at.given[1]} if rng.random() < 0.5 else {good: at.given[1], nm: at.given[0]}
            return ctor, {'items': items}, at, 'unknown-name'
        return ctor, {'items': {nm: at.given[0]}}, at, 'unknown-name'
    if kind == 'duplicate':
        ks = pick_keys(rng, A, False)[:4]
        ks = ks + [rng.choice(ks)]
        rng.shuffle(ks)
        at = Atoms(rng, len(ks), vtype)
        return ctor, {'keys': ks, 'values': list(at.given)}, at, 'duplicate'
    if kind == 'out-of-range':
        ks = pick_keys(rng, A, False)[:3] + [rng.choice([len(A), len(A) + 1, -1, 2 * len(A) - 1, 3 * len(A)])]
        rng.shuffle(ks)
        at = Atoms(rng, len(ks), vtype)
        if rng.random() < 0.3:
            return ctor, {'values': dict(zip(ks, at.given))}, at, 'key-out-of-range'
        if rng.random() < 0.3:
            return ctor, {'keys': ks, 'name': 'a'}, Atoms(rng, 0, 'sympy'), 'key-out-of-range'
        return ctor, {'keys': [k if rng.random() < 0.8 or not (0 <= k < len(A)) else A.bin2canon[k] for k in ks], 'values': list(at.given)}, at, 'key-out-of-range'
    # graded-incomplete: keys that are not exactly the complete grades, in canonical order
    gs = sorted(rng.sample(range(A.d + 1), rng.randint(1, min(A.d + 1, 2))))
    full = [k for g in gs for k in A.indices_for_grade[g]]
    if len(full) < 2:
        gs = list(range(A.d + 1)); full = list(canon)
    if len(full) < 2:
        return malformed_case(cx, rng, {k: v for k, v in spec.items() if k != 'graded'})
    def complete(ks_):
        own = sorted({grade_of(k) for k in ks_})
        return list(ks_) == [k for g in own for k in A.indices_for_grade[g]]
    if rng.random() < 0.7:
        for _ in range(20):
            ks = rng.sample(full, rng.randint(1, len(full) - 1))
            if not complete(ks):
                break
        else:
            return malformed_case(cx, rng, spec)
        gs = None
        sub = 'incomplete'
    else:
        ks = full[:]
        while ks == full:
            rng.shuffle(ks)
        sub = 'permuted'
    at = Atoms(rng, len(ks), vtype)
    which = rng.choice(['kv', 'kw', 'name', 'conv', 'map', 'map']) if sub == 'incomplete' else rng.choice(['kv', 'map'])
    if which in ('kw', 'conv'):
        # keyword blades are re-ordered canonically by the constructor: only the key SET can be incomplete
        own = sorted({grade_of(k) for k in ks})
        if set(ks) == {k for g in own for k in A.indices_for_grade[g]}:
            return malformed_case(cx, rng, spec)
    if which == 'kv':
        inp = {'keys': [k if rng.random() < 0.7 else A.bin2canon[k] for k in ks], 'values': list(at.given)}
        if rng.random() < 0.3:
            inp['grades'] = sorted({grade_of(k) for k in ks})
        if rng.random() < 0.3:
            inp['keys_as_list'] = True
        return ctor, inp, at, 'graded-' + sub
    if which == 'map':
        inp = {'values': {(k if rng.random() < 0.7 else A.bin2canon[k]): v for k, v in zip(ks, at.given)}}
        if rng.random() < 0.3:
            inp['grades'] = sorted({grade_of(k) for k in ks})
        if rng.random() < 0.2:
            ctor = 'evenmv' if all(grade_of(k) % 2 == 0 for k in ks) else ctor
            inp.pop('grades', None) if ctor == 'evenmv' else None
        return ctor, inp, at, 'graded-' + sub
    if which == 'kw':
        return ctor, {'items': {random_spelling(rng, A.bin2canon[k]): v for k, v in zip(ks, at.given)}}, at, 'graded-' + sub
    if which == 'name':
        return ctor, {'keys': ks, 'name': 'a'}, Atoms(rng, 0, 'sympy'), 'graded-' + sub
    g = grade_of(ks[0])
    ks = [k for k in ks if grade_of(k) == g]
    if len(ks) == len(A.indices_for_grade[g]):
        ks = ks[:-1]
    if not ks or complete(ks):
        return malformed_case(cx, rng, spec)
    at = Atoms(rng, len(ks), vtype)
    return f'purevector:{g}', {'items': {A.bin2canon[k]: v for k, v in zip(ks, at.given)}}, at, 'graded-' + sub


# ----------------------------------------------------------------------------- the run
def exhaustive_spellings(cx, rng, dmax, sample_above):
    """every permutation of every blade name: as a single keyword, inside a mixture, and as an attribute."""
    R = cx.R
    specs = []
    for d in range(1, dmax + 1):
        for start in (None, 0, 2):
            specs.append({'sig': [rng.choice((1, -1, 0)) for _ in range(d)], 'start': start})
        specs.append({'sig': [1] * d, 'basis': algs.random_basis(rng, d)})
    specs.append({'fromname': '2DPGA'})
    specs += sample_above
    for spec in specs:
        A = cx.alg(spec)
        R.count(f'd={A.d}'); R.count('kind=' + algs.kind(spec))
        names = list(A.canon2bin)
        exhaustive = A.d <= 3
        for nm in names:
            K = A.canon2bin[nm]
            sps = spellings_of(nm) if exhaustive else list({random_spelling(rng, nm) for _ in range(3)} | {nm})
            for sp in sps:
                vt = rng.choice(VTYPES)
                at = Atoms(rng, 2, vt)
                par = perm_parity(sp[1:], nm[1:])
                R.count('spelling=' + ('canonical' if sp == nm else 'odd' if par else 'even'))
                # single keyword
                run_case(cx, spec, 'multivector', {'items': {sp: at.given[0]}}, at, {K: -1 if par else 1}, 'kw', rng, accessors=False)
                # mixture: this spelling + another blade in canonical / permuted spelling
                other = rng.choice([n for n in names if n != nm]) if len(names) > 1 else None
                if other is not None:
                    so = random_spelling(rng, other) if rng.random() < 0.5 else other
                    items = {sp: at.given[0], so: at.given[1]} if rng.random() < 0.5 else {so: at.given[1], sp: at.given[0]}
                    exp = {K: -1 if par else 1, A.canon2bin[other]: -2 if perm_parity(so[1:], other[1:]) else 2}
                    x = run_case(cx, spec, 'multivector', {'items': items}, at, exp, 'kw', rng, accessors=False)
                    # reading back with the SAME spelling returns exactly the supplied value
                    if x is not None:
                        for s_, code in ((sp, 1), (so, 2)):
                            g = at.decode(getattr(x, s_))
                            R.count('accessor=getattr-same-spelling')
                            if g != code:
                                cx.viol(spec, 'getattr-parity', f'multivector({items}).{s_} = {getattr(x, s_)!r}, supplied {at.given[code - 1]!r}',
                                        ctor='multivector', form='kw', inp=ser_inp({'items': items}), vtype=vt, malformed=None, expect=None)
        # attribute access with every spelling on one stored multivector (all blades stored, then a sparse one)
        for keys in (list(A.canon2bin.values()), rng.sample(list(A.canon2bin.values()), max(1, len(A) // 3))):
            at = Atoms(rng, len(keys), rng.choice(VTYPES))
            x = oc.make_mv(A, keys, list(at.given))
            coded = [(k, i + 1) for i, k in enumerate(keys)]
            mt = f'({oc.mv_term(coded)} : mv Z)'
            checks = []
            for nm in names:
                K = A.canon2bin[nm]
                for sp in (spellings_of(nm) if exhaustive else [random_spelling(rng, nm)]):
                    g = at.decode(getattr(x, sp))
                    want = dict(coded).get(K, 0) * (-1 if perm_parity(sp[1:], nm[1:]) else 1)
                    R.count('accessor=getattr-all-spellings')
                    R.case((algs.describe(spec), 'getattr', tuple(keys), sp), True)
                    if g != want:
                        cx.viol(spec, 'getattr-parity', f'x.{sp} = {g} for x with keys {keys} codes {coded}; expected {want}',
                                ctor='fromkeysvalues', form='getattr', inp={'keys': keys, 'spelling': sp}, vtype=at.vtype, malformed=None, expect=None)
                    checks.append(f'resZ_eqb (getattr Zops A {mt} {spelling_term(sp)}) (Ok {kv.Z(g if g is not None else 77777)})')
            # names that are no blade of the algebra: 0 (matching ^e[0-9a-fA-F]*$) or AttributeError
            for sp in ['e' + format(A.start_index + A.d, 'x'), 'ez', 'foo', 'E1', 'e1G', '_x', 'e' + 'F' * 2]:
                try:
                    r = getattr(x, sp); g = at.decode(r); exp = f'(Ok {kv.Z(g if g is not None else 77777)})'
                    R.count('accessor=getattr-nonblade-0')
                    if blade_of(A, sp[1:]) is None and g != 0 and sp.startswith('e'):
                        cx.viol(spec, 'absent-is-zero', f'x.{sp} = {r!r} although {sp} is no blade of the algebra',
                                ctor='fromkeysvalues', form='getattr', inp={'keys': keys, 'spelling': sp}, vtype=at.vtype, malformed=None, expect=None)
                except Exception as e:  # noqa
                    exp = f'({oc.err_term(e)})'
                    R.count('accessor=getattr-nonblade-' + type(e).__name__)
                checks.append(f'resZ_eqb (getattr Zops A {mt} {spelling_term(sp)}) {exp}')
            for it in ['ez', 'e' + format(A.start_index + A.d, 'x'), len(A), -1] + ([random_spelling(rng, names[-1], True)] if A.d >= 2 else []):
                try:
                    exp = f'(Ok {kv.boolt(it in x)})'
                except Exception as e:  # noqa
                    exp = f'({oc.err_term(e)})'
                checks.append(f'resb_eqb (contains A {mt} {key_term(it)}) {exp}')
            cx.add_case(spec, ' && '.join(f'({c})' for c in checks), kv.blist(f'({c})' for c in checks),
                        {'kind': 'accessors', 'spec': spec, 'desc': f'fromkeysvalues(keys={keys})', 'impl': coded,
                         'replay': {'ctor': 'fromkeysvalues', 'form': 'getattr', 'inp': {'keys': keys}}}, show_default='[]')


PROBES = [
    # (clause, algebra spec, constructor, input): regression inputs of defects repaired in kingdon (fixed: lines of known_findings.txt)
    ('graded-mapping-incomplete', {'sig': [1, 1, 1], 'graded': True}, 'multivector', {'values': {3: 1}}),
    ('graded-mapping-incomplete', {'sig': [1, 1, 1], 'graded': True}, 'vector', {'values': {1: 1}}),
    ('keyword-unknown-dropped', {'sig': [1, 1, 1]}, 'multivector', {'items': {'e4': 2, 'e1': 1}}),
    ('keyword-unknown-dropped', {'sig': [1, 1, 1]}, 'multivector', {'items': {'e1': 1, 'foo': 2}}),
]


def probe_streams(cx, rng):
    """regression streams: the inputs on which kingdon contradicted the property before the fix: commits of this round
    (graded mapping with incomplete grades, unknown keyword silently dropped, wrong parity with a generator spelled e,
    the fallback name e{2**d} of _blade2canon colliding with a real blade, list keys rejected in graded mode)."""
    R = cx.R
    for clause, spec, ctor, inp in PROBES:
        A = cx.alg(spec)
        at = Atoms(rng, 0, 'int')
        vals = inp.get('values')
        allv = list(vals.values()) if isinstance(vals, dict) else list(inp.get('items', {}).values())
        at.given = at.expect = allv
        R.count('probe=' + clause)
        run_case(cx, spec, ctor, inp, at, None, 'probe', rng, malformed=clause, accessors=False)
    # keys given as a list in graded mode (was rejected: list != tuple)
    spec = {'sig': [1, 1, 1], 'graded': True}
    at = Atoms(rng, 3, 'int')
    R.count('probe=graded-list-keys')
    run_case(cx, spec, 'multivector', {'keys': [1, 2, 4], 'values': list(at.given), 'keys_as_list': True}, at, {1: 1, 2: 2, 4: 3}, 'kv', rng, accessors=False)
    # a generator spelled with the hex digit e: the leading 'e' of the name was found by list.index
    spec = {'sig': [1, 1, 1], 'start': 13}
    A = cx.alg(spec)
    at = Atoms(rng, 1, 'int')
    x = oc.make_mv(A, [7], [at.given[0]])
    R.count('probe=generator-e-parity'); R.case(('probe', 'generator-e-parity'), True)
    g = at.decode(x.edfe)
    cx.add_case(spec, f'resZ_eqb (getattr Zops A ([(7, 1)] : mv Z) (SName {enc_name("edfe")})) (Ok {kv.Z(g)})', f'(getattr Zops A ([(7, 1)] : mv Z) (SName {enc_name("edfe")}))',
                {'kind': 'accessors', 'spec': spec, 'desc': 'probe generator-e-parity', 'impl': [(7, 1)], 'replay': {'ctor': 'probe', 'form': 'generator-e-parity', 'inp': {}}})
    if g != -1:
        R.violation({'clause': 'generator-e-parity', 'basis': 'default', 'graded': False},
                    {'algebra': spec, 'ctor': 'probe', 'form': 'generator-e-parity', 'inp': {}},
                    'generator-e-parity: Algebra(3, start_index=13): x = 1*edef; x.edfe does not return -1 although edfe is an odd permutation of edef')
    # the fallback name e{2**d} of _blade2canon is a real blade
    spec = {'sig': [1, 1, 1], 'start': 6}
    A = cx.alg(spec)
    x = oc.make_mv(A, [4], [at.given[0]])
    R.count('probe=fallback-name-collision'); R.case(('probe', 'fallback-name-collision'), True)
    g = at.decode(x.e5)
    cx.add_case(spec, f'resZ_eqb (getattr Zops A ([(4, 1)] : mv Z) (SName {enc_name("e5")})) (Ok {kv.Z(g)})', f'(getattr Zops A ([(4, 1)] : mv Z) (SName {enc_name("e5")}))',
                {'kind': 'accessors', 'spec': spec, 'desc': 'probe fallback-name-collision', 'impl': [(4, 1)], 'replay': {'ctor': 'probe', 'form': 'fallback-name-collision', 'inp': {}}})
    if g != 0:
        R.violation({'clause': 'fallback-name-collision', 'basis': 'default', 'graded': False},
                    {'algebra': spec, 'ctor': 'probe', 'form': 'fallback-name-collision', 'inp': {}},
                    'fallback-name-collision: Algebra(3, start_index=6): x = 1*e8; x.e5 does not return 0 although e5 is no blade of the algebra')


def direct_extras(R, rng, tier):
    """Accessors on number-valued multivectors, judged directly: map / filter with builtins and classes (applied to the VALUES, the
    blade keys never reach them), asfullmv of ndarray-backed multivectors (d >= 4, custom bases), and spellings resolved in an
    algebra derived with dataclasses.replace after its parent resolved them."""
    import numpy as np, dataclasses
    from fractions import Fraction
    from kingdon import Algebra, MultiVector

    def viol(clause, what, **rep):
        R.violation({'clause': clause}, dict(rep, extras=True), f'{clause}: {what}')
    for it in range(12 if tier == 'quick' else 200):
        d = rng.choice((2, 3, 4))
        alg = Algebra(d) if it % 3 else Algebra.fromname(rng.choice(['2DPGA', '3DPGA']))
        canon = [int(k) for k in alg.canon2bin.values()]
        ks = rng.sample(canon, rng.randint(1, min(5, len(canon))))
        fl = [rng.choice([-2.51, 1.26, 0.49, 3.5, -0.75, 0.0, 2.0]) for _ in ks]
        x = MultiVector.fromkeysvalues(alg, tuple(ks), list(fl))
        xi = MultiVector.fromkeysvalues(alg, tuple(ks), [int(round(v)) for v in fl])
        R.count('extras=map-filter-builtins'); R.case(('extras-map', it), True)
        for nm, f, src, want in (('complex', complex, x, [complex(v) for v in fl]), ('abs', abs, x, [abs(v) for v in fl]), ('float', float, xi, [float(int(round(v))) for v in fl]),
                                 ('Fraction', Fraction, xi, [Fraction(int(round(v))) for v in fl]), ('round', round, x, [round(v) for v in fl]),
                                 ('str', str, xi, [str(int(round(v))) for v in fl])):
            try:
                r = src.map(f)
                got = list(r.values())
                if list(r.keys()) != ks or got != want or [type(g) for g in got] != [type(w) for w in want]:
                    viol('map', f'x.map({nm}) = {got} on keys {list(r.keys())} for values {list(src.values())} on keys {ks} in {alg!r}: the callable must be applied to each value', keys=ks, values=fl, fn=nm)
            except Exception as e:  # noqa
                viol('map-raises', f'x.map({nm}) raised {type(e).__name__}: {e} for values {list(src.values())} on keys {ks}'[:300], keys=ks, values=fl, fn=nm)
        for nm, f in (('bool', bool), ('round', round), ('abs', abs)):
            try:
                r = x.filter(f)
                want = [(k, v) for k, v in zip(ks, fl) if f(v)]
                if list(zip(r.keys(), r.values())) != want:
                    viol('filter', f'x.filter({nm}) keeps {list(zip(r.keys(), r.values()))} of {list(zip(ks, fl))} in {alg!r}, expected {want}', keys=ks, values=fl, fn=nm)
            except Exception as e:  # noqa
                viol('filter-raises', f'x.filter({nm}) raised {type(e).__name__}: {e}'[:300], keys=ks, values=fl, fn=nm)
        # map over an ndarray-backed array of elements: the function gets the coefficients of ONE blade at a time
        arr2 = np.array([[float(rng.randint(-9, 9)) for _ in range(5)] for _ in ks])
        xm = MultiVector.fromkeysvalues(alg, tuple(ks), arr2.copy())
        for nm, f in (('v - v.mean()', lambda v: v - v.mean()), ('v / abs(v).max()', lambda v: v / (np.abs(v).max() or 1.0)), ('cumsum', np.cumsum), ('2 * v', lambda v: 2 * v)):
            R.count('extras=map-per-blade'); R.case(('extras-map-blade', it, nm), True)
            try:
                r = xm.map(f)
                want = [f(arr2[i]) for i in range(len(ks))]
                if list(r.keys()) != ks or not all(np.allclose(np.asarray(g_, dtype=float), w_) for g_, w_ in zip(r.values(), want)):
                    viol('map', f'x.map({nm}) on an ndarray-backed multivector with {arr2.shape[1]} elements per blade (keys {ks}) in {alg!r} gives {[np.asarray(g_).tolist() for g_ in r.values()]}, '
                                f'the function applied to the coefficients of each blade gives {[w_.tolist() for w_ in want]}', keys=ks, values=arr2.tolist(), fn=nm)
            except Exception as e:  # noqa
                viol('map-raises', f'x.map({nm}) on an ndarray-backed multivector raised {type(e).__name__}: {e}'[:300], keys=ks, fn=nm)
        # asfullmv of ndarray-backed multivectors (1-D: one number per blade; 2-D: three numbers per blade)
        for shape in ((), (3,)):
            arr = np.array([[float(rng.randint(-9, 9)) for _ in range(int(np.prod(shape or (1,))))] for _ in ks]).reshape((len(ks),) + shape)
            xa = MultiVector.fromkeysvalues(alg, tuple(ks), arr)
            for canonical in (True, False):
                R.count('extras=asfullmv-ndarray'); R.case(('extras-asfullmv', it, shape, canonical), True)
                try:
                    f = xa.asfullmv(canonical=canonical)
                    want_k = canon if canonical else list(range(len(alg)))
                    ok = [int(k) for k in f.keys()] == want_k
                    for k, v in zip(f.keys(), f.values()):
                        w = arr[ks.index(k)] if k in ks else np.zeros(shape)
                        try:         # an absent blade may hold the plain number 0
                            ok = ok and np.array_equal(np.broadcast_to(np.asarray(v, dtype=float), shape), np.broadcast_to(np.asarray(w, dtype=float), shape))
                        except ValueError:
                            ok = False
                    if not ok:
                        viol('asfullmv', f'asfullmv(canonical={canonical}) of an ndarray-backed multivector with keys {ks} in {alg!r} does not hold the stored coefficients blade by blade: '
                                         f'{[(int(k), np.asarray(v).tolist()) for k, v in zip(f.keys(), f.values())]}'[:500], keys=ks, values=arr.tolist())
                except Exception as e:  # noqa
                    viol('asfullmv-raises', f'asfullmv of an ndarray-backed multivector raised {type(e).__name__}: {e}'[:300], keys=ks)
    # a mapping that is not a dict (MappingProxyType, UserDict, ChainMap) is a mapping: blades by name / key, like the dict with the same items
    from types import MappingProxyType
    from collections import UserDict, ChainMap
    for it in range(4 if tier == 'quick' else 30):
        d = rng.choice((2, 3))
        alg = Algebra(d)
        names = [n_ for n_ in alg.canon2bin if len(n_) == 2]
        items_ = {n_: rng.randint(1, 9) for n_ in rng.sample(names, rng.randint(1, len(names)))}
        for label, M_ in (('MappingProxyType', MappingProxyType(dict(items_))), ('UserDict', UserDict(items_)), ('ChainMap', ChainMap(dict(items_)))):
            for ctor in ('vector', 'multivector'):
                R.count('extras=non-dict-mapping'); R.case(('extras-mapping', it, label, ctor, tuple(items_)), True)
                def outcome(arg):
                    try:
                        m_ = getattr(alg, ctor)(arg)
                        return ('ok', {int(k_): v_ for k_, v_ in zip(m_.keys(), m_.values())})
                    except Exception as e:  # noqa
                        return ('err', type(e).__name__)
                g_, w_ = outcome(M_), outcome(dict(items_))
                if g_ != w_:
                    viol('mapping', f'alg.{ctor}({label}({items_})) in Algebra({d}) gives {g_}, the dict with the same items gives {w_}', items=items_, mapping=label, ctor=ctor)
    # keys given as numpy integers (signed, unsigned, small widths): the multivector is the one built from python ints - same stored keys,
    # same coefficients by name, and products with it are the products of that element (an unsigned key must not wrap around in a filter)
    for it in range(6 if tier == 'quick' else 60):
        d = rng.choice((2, 3, 4))
        alg = Algebra(d)
        canon = [int(k) for k in alg.canon2bin.values()]
        ka, kb = rng.sample(canon, rng.randint(1, 3)), rng.sample(canon, rng.randint(1, 3))
        va, vb = [rng.randint(1, 9) for _ in ka], [rng.randint(1, 9) for _ in kb]
        dt = rng.choice([np.uint8, np.uint16, np.int8, np.int64, np.uint64])
        R.count('extras=numpy-keys'); R.case(('extras-npkeys', it, dt.__name__, tuple(ka), tuple(kb)), True)
        try:
            fresh = Algebra(d)
            xa, xb = alg.multivector(keys=tuple(np.array(ka, dtype=dt)), values=list(va)), alg.multivector(keys=tuple(np.array(kb, dtype=dt)), values=list(vb))
            ya, yb = fresh.multivector(keys=tuple(ka), values=list(va)), fresh.multivector(keys=tuple(kb), values=list(vb))
            cm = lambda m_: {int(k_): v_ for k_, v_ in zip(m_.keys(), m_.values()) if v_ != 0}
            bad_ = None
            if [int(k_) for k_ in xa.keys()] != ka:
                bad_ = f'stored keys are {[repr(k_) for k_ in xa.keys()]}'
            else:
                for sym_, f_ in (('|', lambda p_, q_: p_ | q_), ('*', lambda p_, q_: p_ * q_), ('^', lambda p_, q_: p_ ^ q_), ('lc', lambda p_, q_: p_.lc(q_)), ('rc', lambda p_, q_: p_.rc(q_))):
                    if cm(f_(xa, xb)) != cm(f_(ya, yb)):
                        bad_ = f'a {sym_} b = {cm(f_(xa, xb))}, with python-int keys {cm(f_(ya, yb))}'
                        break
                if bad_ is None:      # ... and the same blades given as python ints afterwards, on the same algebra
                    za, zb = alg.multivector(keys=tuple(ka), values=list(va)), alg.multivector(keys=tuple(kb), values=list(vb))
                    if cm(za | zb) != cm(ya | yb):
                        bad_ = f'after the numpy-key operands were used, a | b with python-int keys = {cm(za | zb)} instead of {cm(ya | yb)}'
        except Exception as e:  # noqa
            bad_ = f'raised {type(e).__name__}: {e}'[:200]
        if bad_:
            viol('numpy-keys', f'multivectors built with keys of type numpy.{dt.__name__} (a: keys {ka} values {va}, b: keys {kb} values {vb}) in Algebra({d}): {bad_}', keys=[ka, kb], values=[va, vb], dtype=dt.__name__)
    # spellings resolved by a parent algebra, then by an algebra derived from it with another basis (and the other way round)
    pga_basis = list(Algebra.fromname('3DPGA').basis)
    for it in range(4 if tier == 'quick' else 40):
        P = Algebra(3, 0, 1)
        fresh = Algebra(3, 0, 1, basis=pga_basis)
        sp = rng.choice(['e230', 'e203', 'e201', 'e310', 'e13', 'e20', 'e321', 'e0123'])
        vals = {name: float(i + 1) for i, name in enumerate(fresh.canon2bin)}
        order = rng.random() < 0.5
        R.count('extras=replace-spellings'); R.case(('extras-replace', it, sp, order), True)
        try:
            if order:
                getattr(P.multivector(name='p'), sp, None); P.multivector(**{sp: 1}) if True else None
            Q = dataclasses.replace(P, basis=pga_basis)
            if not order:
                getattr(Q.multivector(name='q'), sp, None)
                tgt, ref = P, Algebra(3, 0, 1)
                vals = {name: float(i + 1) for i, name in enumerate(ref.canon2bin)}
            else:
                tgt, ref = Q, fresh
            got = getattr(tgt.multivector(**vals), sp)
            want = getattr(ref.multivector(**vals), sp)
            built_g = tgt.multivector(**{sp: 5.0, 'e1': 2.0}); built_w = ref.multivector(**{sp: 5.0, 'e1': 2.0})
            if got != want or list(zip(built_g.keys(), built_g.values())) != list(zip(built_w.keys(), built_w.values())):
                viol('getattr-parity', f'after its {"parent" if order else "derived (dataclasses.replace, 3DPGA basis)"} algebra resolved the spelling {sp}, '
                                       f'x.{sp} = {got} (fresh algebra: {want}) and multivector({sp}=5, e1=2) = {built_g} (fresh: {built_w})', spelling=sp, order=order)
        except Exception as e:  # noqa
            viol('getattr-raises', f'spelling {sp} after dataclasses.replace raised {type(e).__name__}: {e}'[:300], spelling=sp, order=order)


def large_algebra_stream(R, rng, tier):
    """d >= 7 (tables of the algebra are built on demand there): the same rejections and round trips, direct oracle only"""
    for d in ((7,) if tier == 'quick' else (7, 7, 8)):
        spec = {'sig': [rng.choice((1, -1, 0)) for _ in range(d)]}
        A = algs.make_impl(spec)
        n1 = len(A.indices_for_grade[1])
        for gs in [(1, 1), (2, 1), (d + 1,), (0, 0), (1, 3, 2)]:
            for form, f in (('values+grades', lambda: A.multivector(list(range(1, 2 * n1 + 1)), grades=gs)),
                            ('name+grades', lambda: A.multivector(name='x', grades=gs)),
                            ('keys+grades', lambda: A.multivector(keys=(1, 2), values=[5, 6], grades=gs))):
                R.count('malformed=invalid-grades-large'); R.case(('large', d, gs, form), True)
                try:
                    m = f()
                    R.violation({'clause': 'invalid-grades', 'basis': 'default', 'graded': False, 'd': d},
                                {'algebra': spec, 'ctor': 'multivector', 'form': form, 'inp': {'grades': list(gs)}},
                                f'invalid-grades: Algebra({algs.describe(spec)}).multivector({form}, grades={gs}) is inconsistent input but builds keys {tuple(m.keys())[:8]}...')
                except Exception:
                    pass
        vals = [rng.randint(1, 9) for _ in range(n1)]
        R.count('form=large-roundtrip'); R.case(('large', d, 'roundtrip'), True)
        m = A.multivector(vals, grades=(1,))
        back = [getattr(m, nm) for nm in A.canon2bin if len(nm) == 2]
        if back != vals or len(m.keys()) != n1:
            R.violation({'clause': 'roundtrip', 'basis': 'default', 'graded': False, 'd': d},
                        {'algebra': spec, 'ctor': 'multivector', 'form': 'values+grades', 'inp': {'values': vals, 'grades': [1]}},
                        f'roundtrip: Algebra({algs.describe(spec)}).multivector({vals}, grades=(1,)) reads back {back}')


def run(R, tier):
    warnings.filterwarnings('ignore')
    rng = R.rng
    cx = Ctx(R, tier)
    large_algebra_stream(R, rng, tier)
    direct_extras(R, rng, tier)
    quick = tier == 'quick'
    # 1. every spelling of every blade, d <= 3 exhaustively, sampled above
    above = [rand_spec(rng, 5, graded=False) for _ in range(2 if quick else 30)]
    above = [s for s in above if cx.alg(s).d >= 4] + [{'sig': [1, 1, 1, -1], 'start': None}] + ([{'sig': [0, 1, 1, 1, -1], 'start': None}] if not quick else [])
    reps = 1 if quick else 6
    for _ in range(reps):
        exhaustive_spellings(cx, rng, 3, above if _ == 0 else [])
    # 2. random consistent inputs of every form, with all accessors
    n = 450 if quick else 12000
    for i in range(n):
        spec = rand_spec(rng)
        A = cx.alg(spec)
        R.count(f'd={A.d}'); R.count('kind=' + algs.kind(spec)); R.count('graded=' + str(bool(spec.get('graded'))))
        ctor, inp, at, expect, form = wellformed_case(cx, rng, spec)
        mal = 'invalid-grades' if form == 'conv-invalid' else None
        run_case(cx, spec, ctor, inp, at, expect, form, rng, malformed=mal, accessors=(i % 2 == 0 or not quick))
    # string values: sympified, oracle only
    for i in range(20 if quick else 400):
        spec = rand_spec(rng, graded=False)
        A = cx.alg(spec)
        ks = pick_keys(rng, A, False)[:5]
        at = Atoms(rng, len(ks), 'str')
        form = rng.choice(['kv', 'map', 'kw'])
        inp = {'keys': ks, 'values': list(at.given)} if form == 'kv' else {'values': dict(zip(ks, at.given))} if form == 'map' else \
            {'items': {A.bin2canon[k]: v for k, v in zip(ks, at.given)}}
        run_case(cx, spec, 'multivector', inp, at, {k: j + 1 for j, k in enumerate(ks)}, form + '-str', rng, accessors=False, model=False)
    # 3. malformed stream
    for i in range(400 if quick else 10000):
        spec = rand_spec(rng)
        A = cx.alg(spec)
        R.count(f'd={A.d}'); R.count('graded=' + str(bool(spec.get('graded'))))
        ctor, inp, at, kind = malformed_case(cx, rng, spec)
        run_case(cx, spec, ctor, inp, at, None, 'malformed', rng, malformed=kind, accessors=(kind == 'duplicate'))
    # 4. probes of the refuted clauses
    probe_streams(cx, rng)
    # evaluate the model
    cases = cx.cases
    bad, shown = kv.run_cases('C15', cases, imports='Model.All Model.Construct', shard=150 if quick else 400)
    loose_idx = [i for i in bad if cases[i]['meta'].get('loose')]
    still = set(bad)
    if loose_idx:
        lbad, _ = kv.run_cases('C15loose', [dict(cases[i], check=algs.with_alg(cx.pool.ref(cases[i]['meta']['spec'])[0], cases[i]['meta']['loose'])) for i in loose_idx],
                               imports='Model.All Model.Construct')
        ok_loose = {loose_idx[j] for j in range(len(loose_idx))} - {loose_idx[j] for j in lbad}
        R.fidelity_notes += len(ok_loose)          # same coefficients and key set, another storage order
        still -= ok_loose
    for i in sorted(still):
        m = cases[i]['meta']
        spec = m['spec']
        R.violation({'clause': ('model-' + m['kind']), 'basis': algs.kind(spec), 'graded': bool(spec.get('graded'))},
                    dict(algebra=spec, model=shown.get(i), impl=m['impl'], **m.get('replay', {})),
                    f'{m["desc"]} in Algebra({algs.describe(spec)}): implementation gives {m["impl"]} but the model (which satisfies the property '
                    f'outside the listed findings) gives {shown.get(i, "<not shown>")}')


# ----------------------------------------------------------------------------- replay
def _unser(inp, vtype):
    import sympy, numpy as np   # noqa
    env = {'Fraction': Fraction, 'array': np.array, 'np': np, 'Symbol': sympy.Symbol, 'float64': np.float64}
    for i in range(80):
        env[f'x{i}'] = sympy.Symbol(f'x{i}')

    def val(s):
        if vtype == 'str':
            return eval(s)  # the repr of a str
        return eval(s, env)
    out = {}
    for k, v in inp.items():
        if k == 'values' and isinstance(v, dict):
            out[k] = {(kk if isinstance(kk, str) else int(kk)): val(vv) for kk, vv in v['__map__']}
        elif k == 'values' and v is not None:
            out[k] = [val(t) for t in v]
        elif k == 'items':
            out[k] = {kk: val(vv) for kk, vv in v.items()}
        else:
            out[k] = v
    return out


def replay(R, rec):
    """True = the property holds on the recorded input."""
    warnings.filterwarnings('ignore')
    r = rec['replay']
    spec = r['algebra']
    A = algs.make_impl(spec)
    clause = rec['class']['clause']
    if r.get('form') == 'generator-e-parity':
        return oc.make_mv(A, [7], [1]).edfe == -1
    if r.get('form') == 'fallback-name-collision':
        return oc.make_mv(A, [4], [1]).e5 == 0
    if r.get('ctor') == 'fromkeysvalues':
        keys = r['inp']['keys']
        x = oc.make_mv(A, keys, list(range(1, len(keys) + 1)))
        sp = r['inp'].get('spelling')
        if sp is None:
            return True
        K = blade_of(A, sp[1:])
        want = 0 if K is None else dict(zip(keys, range(1, len(keys) + 1))).get(K, 0) * (-1 if perm_parity(sp[1:], A.bin2canon[K][1:]) else 1)
        return getattr(x, sp) == want
    inp = _unser(r['inp'], r.get('vtype', 'int'))
    try:
        x = call_ctor(A, r['ctor'], inp)
    except Exception:  # noqa
        return bool(r.get('malformed')) or r.get('expect') is None
    if r.get('malformed') and r['malformed'] != 'duplicate':
        return False                                   # inconsistent input built a multivector
    if r.get('expect') is None:
        return True
    # re-derive the supplied coefficients and compare
    supplied = []
    if isinstance(inp.get('values'), dict):
        supplied = list(inp['values'].values())
    elif inp.get('values') is not None:
        supplied = list(inp['values'])
    elif inp.get('items'):
        supplied = list(inp['items'].values())
    import sympy
    if r.get('vtype') == 'str':
        supplied = [sympy.sympify(s) for s in supplied]

    def dec(v):
        for i, a in enumerate(supplied):
            if same(v, a):
                return i + 1
            if same(v, -a):
                return -(i + 1)
        if same(v, 0):
            return 0
        s = str(v)
        nm = inp.get('name')
        if nm and s.startswith(nm) and ('e' + s[len(nm):]) in A.canon2bin:
            return SYM_BASE + A.canon2bin['e' + s[len(nm):]]
        return None
    got = {int(k): dec(v) for k, v in zip(x.keys(), x.values())}
    exp = {int(k): v for k, v in r['expect'].items()}
    if got != exp or len(got) != len(x.keys()):
        return False
    if 'accessor' in r or clause.startswith(('getattr', 'absent', 'contains', 'items', 'asfullmv', 'grade', 'map', 'filter')):
        for nm, K in A.canon2bin.items():
            for sp in spellings_of(nm) if len(nm) <= 5 else [nm]:
                want = exp.get(K, 0) * (-1 if perm_parity(sp[1:], nm[1:]) else 1)
                if dec(getattr(x, sp)) != want:
                    return False
            if (K in x) != (K in exp) or (nm in x) != (K in exp):
                return False
        for canonical in (True, False):
            f = x.asfullmv(canonical=canonical)
            wk = list(A.canon2bin.values()) if canonical else list(range(len(A)))
            if [int(k) for k in f.keys()] != wk or [dec(v) for v in f.values()] != [exp.get(k, 0) for k in wk]:
                return False
        for g in range(A.d + 1):
            q = x.grade(g)
            if {int(k): dec(v) for k, v in zip(q.keys(), q.values())} != {k: c for k, c in exp.items() if grade_of(k) == g}:
                return False
        if [dec(v) for v in x.map(lambda v: -v).values()] != [-c for c in got.values()]:
            return False
        if list(x.filter(lambda k, v: k % 2 == 1).keys()) != [k for k in x.keys() if k % 2 == 1]:
            return False
    return True
