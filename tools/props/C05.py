"""C05 — duality maps invert each other and define the regressive product.
Correspondence of hodge/unhodge/polarity/unpolarity/rp/dual/undual against Model/Codegen.v; oracle on the
implementation: round trips, E ^ hodge(E) = pss, polarity = x * pss^-1, ZeroDivisionError iff degenerate,
a & b = unhodge(hodge a ^ hodge b), pss identity, kind selection."""
import warnings
import kv, algs, opcorr as oc

RULE = ('all signature orderings d<=3 (quick) / d<=4 (thorough) incl. r = 0, 1, >1, the three named algebras and random custom '
        'bases d<=5; random sparse/grade/full/permuted operands with integer coefficients; every basis blade for the '
        'E ^ hodge(E) clause.  Non-trivial = non-empty operand; distinct = distinct (algebra, operator, key tuples).')
TRUSTED = ['hand-written model coq/Model/Codegen.v of codegen_hodge/unhodge/polarity/unpolarity/rp and MultiVector.dual/undual '
           '(hodge key/sign tests, rp filter/keyout/sign_func, polarity branch structure bridged to Gen/Codegen.v)',
           'codegen_polarity multiplies symbolic x numeric multivectors through the symbolic path: that routing is glue validated here']
ASSUMPTIONS = ['integer evaluation points stand for all coefficient values', 'duplicate-free key tuples']
KINDS = {'auto': 'KAuto', 'polarity': 'KPolarity', 'hodge': 'KHodge', 'bogus': 'KUnknown'}


def specs(R, tier):
    rng = R.rng
    out = []
    for d in range(0, 4 if tier == 'quick' else 5):
        for sig in algs.all_sigs(d):
            if tier == 'quick' and d == 3 and rng.random() < 0.4:
                continue
            out.append({'sig': sig, 'start': rng.choice((None, 0, 1))})
    for nm in algs.NAMED:
        out.append({'fromname': nm})
    for _ in range(12 if tier == 'quick' else 150):
        d = rng.choice((2, 3, 4, 5))
        out.append({'sig': [rng.choice((1, -1, 0)) for _ in range(d)], 'basis': algs.random_basis(rng, d)})
    for _ in range(4 if tier == 'quick' else 60):
        d = rng.choice((4, 5, 6))
        out.append({'sig': [rng.choice((1, -1, 1, -1, 0)) for _ in range(d)]})
    return out


def viol(R, spec, clause, detail, **rep):
    R.violation({'clause': clause, 'basis': algs.kind(spec)}, dict(algebra=spec, **rep),
                f'{clause} fails in Algebra({algs.describe(spec)}): {detail}')


def mk(alg, items):
    return oc.make_mv(alg, [k for k, _ in items], [v for _, v in items])


def oracle(R, spec, alg, x, y):
    ok = True
    def bad(clause, detail):
        nonlocal ok
        ok = False
        viol(R, spec, clause, detail, x=x, y=y)
    mx, my = mk(alg, x), mk(alg, y)
    degenerate = 0 in [int(s) for s in alg.signature]
    if not oc.same_element(oc.observe(mx.hodge().unhodge()), x): bad('unhodge-hodge', f'x={x}')
    if not oc.same_element(oc.observe(mx.unhodge().hodge()), x): bad('hodge-unhodge', f'x={x}')
    try:
        pol = mx.polarity()
        if degenerate:
            bad('polarity-should-raise', f'degenerate metric but polarity returned {oc.observe(pol)}')
        else:
            if not oc.same_element(oc.observe(pol.unpolarity()), x): bad('unpolarity-polarity', f'x={x}')
            if not oc.same_element(oc.observe(mx.unpolarity().polarity()), x): bad('polarity-unpolarity', f'x={x}')
            pss = alg.pss
            s = alg.signs[len(alg) - 1, len(alg) - 1]
            want = oc.observe(mx * (pss * s))          # pss^-1 = pss / pss^2
            if not oc.same_element(oc.observe(pol), want): bad('polarity-spec', f'x={x}: {oc.observe(pol)} vs x*pss^-1 = {want}')
            # exact coefficients stay exact: Fractions and integers beyond 2**53 through every dual and back
            from fractions import Fraction as _Fr
            exact_vals = [_Fr(v, 3) if i % 2 else (2 ** 64 + 1) * (v or 1) for i, (_, v) in enumerate(x)]
            ex = oc.make_mv(alg, [k for k, _ in x], exact_vals)
            for nm_, there, back_ in (('polarity', 'polarity', 'unpolarity'), ('hodge', 'hodge', 'unhodge'), ('dual', 'dual', 'undual')):
                t_ = getattr(ex, there)()
                b_ = getattr(t_, back_)()
                inexact = [type(v_).__name__ for v_ in list(t_.values()) + list(b_.values()) if isinstance(v_, float)]
                if inexact or dict(zip(b_.keys(), b_.values())) != {k_: v_ for k_, v_ in zip(ex.keys(), exact_vals)}:
                    bad(nm_ + '-exactness', f'{back_}({there}(x)) = {dict(zip(b_.keys(), b_.values()))} for the exact x = {dict(zip(ex.keys(), exact_vals))} '
                                            f'({there}(x) = {dict(zip(t_.keys(), t_.values()))})')
                    break
    except ZeroDivisionError:
        if not degenerate:
            bad('polarity-raises', 'ZeroDivisionError for a non-degenerate metric')
    # regressive product
    lhs = oc.observe(mx & my)
    rhs = oc.observe((mx.hodge() ^ my.hodge()).unhodge())
    if not oc.same_element(lhs, rhs): bad('rp-spec', f'a={x}, b={y}: {lhs} vs {rhs}')
    if not oc.same_element(oc.observe(mx & alg.pss), x) or not oc.same_element(oc.observe(alg.pss & mx), x):
        bad('rp-pss-identity', f'x={x}')
    # kind selection
    r = alg.r
    for meth, pol_m, hod_m in (('dual', 'polarity', 'hodge'), ('undual', 'unpolarity', 'unhodge')):
        try:
            got = ('ok', oc.observe(getattr(mx, meth)()))
        except ZeroDivisionError:
            got = ('zde', None)
        except Exception as e:  # noqa
            got = ('exc', type(e).__name__)
        if r == 0:
            want = ('ok', oc.observe(getattr(mx, pol_m)()))
        elif r == 1:
            want = ('ok', oc.observe(getattr(mx, hod_m)()))
        else:
            want = ('exc', 'Exception')
        if got != want: bad(meth + '-kind', f'r={r}: got {got}, expected {want}')
    return ok


def run(R, tier):
    warnings.filterwarnings('ignore')
    rng = R.rng
    pool = algs.AlgPool()
    cases = []
    for spec in specs(R, tier):
        alg = algs.make_impl(spec)
        R.count(f'd={alg.d}'); R.count(f'r={min(alg.r, 2)}{"+" if alg.r > 1 else ""}'); R.count('basis=' + algs.kind(spec))
        ref, dfn = pool.ref(spec)
        # every basis blade: E ^ hodge(E) = pss
        if alg.d <= 5:
            pssk = len(alg) - 1
            for nm, k in alg.canon2bin.items():
                E = alg.blades[nm]
                got = oc.observe(E ^ E.hodge())
                R.case((algs.describe(spec), 'wedge-hodge', k))
                if not oc.same_element(got, [(pssk, 1)]) or oc.observe(alg.pss) != [(pssk, 1)]:
                    viol(R, spec, 'blade-wedge-hodge', f'{nm} ^ hodge({nm}) = {got}, pss = {oc.observe(alg.pss)}', blade=nm)
        for rep in range(3 if tier == 'quick' else 8):
            ka, _ = oc.random_keys(rng, alg)
            kb, _ = oc.random_keys(rng, alg)
            x = list(zip(ka, oc.random_values(rng, len(ka))))
            y = list(zip(kb, oc.random_values(rng, len(kb))))
            for op in ('hodge', 'unhodge', 'polarity', 'unpolarity'):
                c = oc.case_for(pool, spec, alg, op if op != 'unpolarity' else 'unpolarity', [x])
                cases.append(c)
                R.case((algs.describe(spec), op, ka), bool(x), sample={'algebra': algs.describe(spec), 'op': op, 'x': x, 'result': c['meta']['impl']})
            c = oc.case_for(pool, spec, alg, 'rp', [x, y])
            cases.append(c)
            R.case((algs.describe(spec), 'rp', ka, kb), bool(x and y), sample={'algebra': algs.describe(spec), 'op': 'rp', 'a': x, 'b': y, 'result': c['meta']['impl']})
            # dual / undual with every kind
            mx = mk(alg, x)
            for meth in ('dual', 'undual'):
                for kind, kt in KINDS.items():
                    try:
                        out = oc.observe(getattr(mx, meth)(kind=kind)); exp = f'(Ok {oc.mv_term(out)})'
                    except Exception as e:  # noqa
                        out = type(e).__name__; exp = f'({oc.err_term(e)})'
                    chk = f'resmv_same A ({meth} Zops A {kt} {oc.mv_term(x)}) {exp}'
                    cases.append({'check': algs.with_alg(ref, chk), 'defs': [dfn],
                                  'show': algs.with_alg(ref, f'({meth} Zops A {kt} {oc.mv_term(x)})', '(Err EOther)'),
                                  'meta': {'spec': spec, 'op': f'{meth}({kind})', 'operands': [x], 'impl': out}})
                    R.case((algs.describe(spec), meth, kind, ka), bool(x))
            oracle(R, spec, alg, x, y)
    bad, shown = kv.run_cases('C05', cases)
    for i in bad:
        m = cases[i]['meta']
        R.violation({'clause': m['op'] + '-model', 'basis': algs.kind(m['spec'])},
                    {'algebra': m['spec'], 'op': m['op'], 'operands': m['operands'], 'impl': m['impl'], 'model': shown.get(i)},
                    f'{m["op"]} on {m["operands"]} in Algebra({algs.describe(m["spec"])}): implementation {m["impl"]} differs from the model')


def replay(R, rec):
    warnings.filterwarnings('ignore')
    r = rec['replay']; spec = r['algebra']
    alg = algs.make_impl(spec)
    x = [tuple(t) for t in r.get('x', r.get('operands', [[]])[0] if r.get('operands') else [])]
    y = [tuple(t) for t in r.get('y', [])]
    R2 = kv.Run('C05', 'quick', 0)
    return oracle(R2, spec, alg, x, y)
