"""C18 — matrix representations are faithful.
Correspondence: alg.matrix_basis (every entry), x.asmatrix() and MultiVector.frommatrix against
Model/Matrix.v evaluated in Coq; hom_ok evaluated in Coq for every explored algebra.  Oracle on the
implementation: (x*y).asmatrix() = x.asmatrix() @ y.asmatrix() for all blade pairs / random sparse
operands, linearity, first column, frommatrix inverts; expr_as_matrix(f, .., x): A . coefficients(x) =
coefficients(f(.., x)) for linear operator expressions with symbolic, numeric and array-valued other
inputs and res_like.  expr_as_matrix with a SYMBOLIC other input is also compared with Model/ExprMatrix.v
inside Coq (clause expr_as_matrix-model): y = f(R, x) computed by the harness and the (A, y) the
implementation returned are read term by term (sympy.expand + Poly.terms, exact rationals Qc; a float
0.5 / 0.25 is read exactly with fractions.Fraction; the inverse 1/(R1**2 + ..) of R.inv() is read as one
further opaque symbol) and `eam_case_Qc res_like x yfull A_impl y_impl` checks: same keys in the same
order, same coefficients, A_impl = expr_matrix entry by entry as canonical polynomials, and row i of
A_impl times x IS y_i as a canonical polynomial (C18_expr_as_matrix_check_sound: a passing case means
A_impl . x = y_impl at EVERY rational valuation).  A disagreement is a violation only with a concrete
rational valuation on which the implementation's A . x != y (or y != f(.., x)); otherwise a fidelity note."""
import warnings, itertools
import kv, algs, opcorr as oc

RULE = ('all signature orderings d<=3 (quick; d<=4 thorough, sampled d=5) with random start index: matrix_basis entry by entry, asmatrix / '
        'frommatrix of random sparse integer multivectors, all blade pairs for the homomorphism oracle; custom bases (named algebras, '
        'random); expr_as_matrix for 13 linear expression forms x {symbolic, numeric, array-valued} other input x {no res_like, res_like = '
        '1-4 random canonical keys in random order, also keys the result does not store}: every form once with a symbolic and once with an '
        'integer other input, then random (form, signature d in {2,3}, grade of x, grades of R); every symbolic case is additionally read '
        'into term lists and compared with Model/ExprMatrix.v in Coq (matrix entry by entry, returned y, row identity as polynomials).  '
        'Non-trivial = d >= 1; distinct = distinct (algebra, observation) / (iteration, form, kind, grades).')
TRUSTED = ['Model/Matrix.v (hand-written after matrixreps.py) tied by this correspondence', 'numpy kron/matmul',
           'expr_as_matrix: Model/ExprMatrix.v (hand-written after matrixreps.expr_as_matrix, pinned in Bridge/Pins_C18.v) tied by the expr_as_matrix-model '
           'correspondence; sympy.expand / sympy.Poly(..).terms() / fractions.Fraction are used to READ the implementation\'s expressions (y, A) into '
           'term lists; an inverse base**(-n) is read as the n-th power of one opaque symbol per distinct base',
           'expr_as_matrix with numeric / array-valued other inputs: sympy collect/coeff/lambdify are not modelled (direct oracle only; '
           'C18_expr_as_matrix_expression proves that the symbolic matrix evaluated at the values is the numeric result)']
ASSUMPTIONS = ['integer matrices compared exactly', 'expr_as_matrix with numeric / array-valued inputs is checked by direct evaluation at random rational points only',
               'sympy.collect only regroups a sum that is linear in x (Model/ExprMatrix.v models `.coeff` on the expanded sum); compared entry by entry on every symbolic case']


def mat_term(M):
    return kv.blist(kv.zlist(int(v) for v in row) for row in M)


# ----------------------------------------------------------------------------- expr_as_matrix: reading sympy expressions
class Unreadable(Exception):
    """an expression that is not a polynomial with rational coefficients in the symbols (and inverse bases)"""


def read_polys(exprs, xsyms):
    """exprs: sympy expressions (coefficients of y, entries of A).  Returns (gens, [term list per expression]) with a
    term = (Fraction, exponent tuple over gens); gens = x symbols first, then the other symbols by name, then one fresh
    symbol per distinct base of a negative power (R.inv() gives 1/(R1**2 + ..): the inverse is read as an opaque
    indeterminate, the same one in every expression).  Trusted: sympy.expand / Poly.terms READ the expressions."""
    import sympy
    from fractions import Fraction
    exps = [sympy.expand(sympy.sympify(e)) for e in exprs]
    inv = {}
    def neg_pow(t):
        return t.is_Pow and t.exp.is_Integer and t.exp.is_negative and not t.base.is_Number
    for e in exps:
        for t in e.atoms(sympy.Pow):
            if neg_pow(t):
                if t.base.free_symbols & set(xsyms):
                    raise Unreadable('x in a denominator')
                inv.setdefault(t.base, sympy.Dummy('inv%d' % len(inv)))
    exps = [sympy.expand(e.replace(neg_pow, lambda t: inv[t.base] ** (-t.exp))) for e in exps]
    others = sorted(set().union(*[e.free_symbols for e in exps]) - set(xsyms) - set(inv.values()), key=lambda v: v.name)
    gens = list(xsyms) + others + list(inv.values())
    out = []
    for e in exps:
        try:
            terms = sympy.Poly(e, *gens).terms()
        except Exception as ex:  # noqa  (PolynomialError, GeneratorsNeeded, ...)
            raise Unreadable(f'{type(ex).__name__}')
        tl = []
        for expo, c in terms:
            c = sympy.sympify(c)
            if c.is_Rational:
                q = Fraction(int(c.p), int(c.q))
            elif c.is_Float:
                q = Fraction(float(c))          # exact value of the binary float (0.5, 0.25)
            else:
                raise Unreadable(f'coefficient {c}')
            if q != 0:
                tl.append((q, tuple(int(k) for k in expo)))
        out.append(tl)
    return gens, out


def xpoly_term(terms):
    """term list -> Gallina term : xpolyQ (symbols with multiplicity, numbered by their position in gens)"""
    def syms(expo):
        return kv.natlist(i for i, k in enumerate(expo) for _ in range(k))
    return '(' + kv.blist(f'(qc {kv.Z(q.numerator)} {int(q.denominator)}, {syms(expo)})' for q, expo in terms) + ' : xpolyQ)'


def run(R, tier):
    warnings.filterwarnings('ignore')
    import numpy as np, sympy
    from kingdon import MultiVector
    from kingdon.matrixreps import expr_as_matrix
    rng = R.rng
    pool = algs.AlgPool()
    cases = []

    def viol(clause, detail, cls=None, **rep):
        c = {'clause': clause}
        c.update(cls or {})
        R.violation(c, rep, f'{clause}: {detail}')
    specs = []
    for d in range(1, 4 if tier == 'quick' else 5):
        for sig in algs.all_sigs(d):
            if tier == 'quick' and d == 3 and rng.random() < 0.5:
                continue
            specs.append({'sig': sig, 'start': rng.choice((None, 0, 1, 2))})
    for _ in range(2 if tier == 'quick' else 12):
        specs.append({'sig': [rng.choice((1, -1, 0)) for _ in range(4 if tier == 'quick' else 5)]})
    specs += [{'pqr': (2, 0, 1)}, {'pqr': (1, 1, 0)}, {'pqr': (3, 0, 1)}]
    # custom bases (blade matrices built along the blade names; regression of the repaired finding F10)
    specs += [{'fromname': '2DPGA'}, {'fromname': '3DPGA'}]
    for _ in range(4 if tier == 'quick' else 40):
        dd = rng.choice((2, 3, 3) if tier == 'quick' else (2, 3, 3, 4))
        specs.append({'sig': [rng.choice((1, -1, 0)) for _ in range(dd)], 'basis': algs.random_basis(rng, dd)})
    for spec in specs:
        alg = algs.make_impl(spec)
        BK = {'basis': 'custom' if algs.kind(spec) != 'default' else 'default'}
        d = alg.d
        ref, dfn = pool.ref(spec)
        desc = algs.describe(spec)
        MB = alg.matrix_basis
        canon = list(alg.canon2bin.values())
        R.count(f'd={d}')
        chk = f'list_eqb mat_eqb (matrix_basis A) {kv.blist(mat_term(M) for M in MB)} && hom_ok A'
        cases.append({'check': algs.with_alg(ref, chk), 'defs': [dfn], 'meta': {'spec': spec, 'obs': 'matrix_basis + hom_ok'}})
        R.case((desc, 'matrix_basis'), True, sample={'algebra': desc, 'observation': f'matrix_basis: {len(MB)} matrices of size {len(MB[0])}'})
        # homomorphism oracle on all blade pairs
        for (i, I), (j, J) in itertools.product(enumerate(canon), repeat=2):
            if d > 3 and rng.random() < 0.8:
                continue
            s = alg.signs[I, J]
            t = canon.index(I ^ J)
            if not np.array_equal(MB[i] @ MB[j], s * MB[t]):
                viol('asmatrix-hom', f'M(e_{I}) M(e_{J}) != {s} M(e_{I ^ J}) in Algebra({desc})', BK, algebra=spec, I=I, J=J)
                break
        for i in range(len(canon)):
            col = MB[i][:, 0]
            if list(col) != [1 if r == i else 0 for r in range(len(canon))]:
                viol('first-column', f'column 0 of M(e_{canon[i]}) is {list(col)} in Algebra({desc})', BK, algebra=spec)
                break
        for _ in range(3):
            ka, _ = oc.random_keys(rng, alg, rng.choice(['sparse', 'grade', 'single', 'dense']))
            kb, _ = oc.random_keys(rng, alg, rng.choice(['sparse', 'grade', 'single']))
            x = list(zip(ka, oc.random_values(rng, len(ka), zero_p=0)))
            y = list(zip(kb, oc.random_values(rng, len(kb), zero_p=0)))
            if not x or not y:
                continue
            mx, my = oc.make_mv(alg, ka, [v for _, v in x]), oc.make_mv(alg, kb, [v for _, v in y])
            Mx, My = mx.asmatrix(), my.asmatrix()
            R.case((desc, 'asmatrix', ka, kb), True)
            def mateq(a, b):
                # an empty multivector's asmatrix() is the number 0 (the sum over no blades): equal to the zero matrix
                return bool(np.all(np.asarray(a) == np.asarray(b)))
            if not mateq((mx * my).asmatrix(), Mx @ My):
                viol('asmatrix-hom', f'(x*y).asmatrix() != x.asmatrix() @ y.asmatrix() for x={x}, y={y} in Algebra({desc})', BK, algebra=spec, x=x, y=y)
            if not mateq((mx + my).asmatrix(), Mx + My):
                viol('asmatrix-linear', f'(x+y).asmatrix() != sum for x={x}, y={y}', BK, algebra=spec, x=x, y=y)
            # float coefficients of very different magnitudes: every one comes back exactly (the matrix entries are +-coefficients)
            fv = [rng.choice((1.0, 2.5e-9, 0.5, -3e-12, 7e-15, 1e6)) * rng.choice((1, -1)) for _ in ka]
            fx = oc.make_mv(alg, ka, fv)
            fback = MultiVector.frommatrix(alg, fx.asmatrix())
            R.case((desc, 'frommatrix-float', ka, tuple(fv)), True)
            if {int(k_): float(v_) for k_, v_ in zip(fback.keys(), fback.values()) if v_ != 0} != {int(k_): v_ for k_, v_ in zip(ka, fv)}:
                viol('frommatrix', f'frommatrix(asmatrix(x)) = {dict(zip(fback.keys(), fback.values()))} for the float multivector x = {dict(zip(ka, fv))} in Algebra({desc})', BK, algebra=spec, x=list(zip(ka, fv)))
            back = MultiVector.frommatrix(alg, Mx)
            if not oc.same_element(oc.observe(back), x):
                viol('frommatrix', f'frommatrix(asmatrix(x)) = {oc.observe(back)} for x={x}', BK, algebra=spec, x=x)
            chk = (f'mat_eqb (asmatrix A {oc.mv_term(x)}) {mat_term(Mx)} && '
                   f'mv_eqb (frommatrix A {mat_term(Mx)}) {oc.mv_term(oc.observe(back))}')
            cases.append({'check': algs.with_alg(ref, chk), 'defs': [dfn], 'meta': {'spec': spec, 'obs': f'asmatrix/frommatrix of {x}'}})
    # expr_as_matrix (exploration): A . coefficients(x) = coefficients(y)
    forms = [('R >> x', lambda Rm, x: Rm >> x), ('R * x', lambda Rm, x: Rm * x), ('x * R', lambda Rm, x: x * Rm), ('R | x', lambda Rm, x: Rm | x),
             ('R ^ x', lambda Rm, x: Rm ^ x), ('x.hodge()', lambda Rm, x: x.hodge()), ('R.cp(x)', lambda Rm, x: Rm.cp(x)), ('~x + R*x', lambda Rm, x: ~x + Rm * x),
             ('0.5 * (R * x)', lambda Rm, x: 0.5 * (Rm * x)), ('(x * R) / 4', lambda Rm, x: (x * Rm) / 4),
             ('(R | x) * R', lambda Rm, x: (Rm | x) * Rm), ('R * (x | R)', lambda Rm, x: Rm * (x | Rm)),
             ('-R * x * R.inv()', lambda Rm, x: -Rm * x * Rm.inv())]   # reflection in an unnormalised vector: fractions from integer inputs   # rows with a common symbolic factor   # non-integer entries from integer inputs
    eam_cases = []
    for it in range(44 if tier == 'quick' else 240):
        d = rng.choice((2, 3))
        alg = algs.make_impl({'sig': [rng.choice((1, 1, -1, 0)) for _ in range(d)]})
        name, f = rng.choice(forms)
        kind = rng.choice(['symbolic', 'symbolic', 'numeric', 'array'])
        gx = rng.randint(0, d)
        if it < 2 * len(forms):           # every form once with a symbolic and once with an integer-valued other input and a vector x (deterministic part)
            name, f = forms[it % len(forms)]
            kind = 'symbolic' if it < len(forms) else 'numeric'
            alg = algs.make_impl({'sig': [1] * d})
            gx = 1
        if 'inv' in name:                  # the reflection needs an invertible vector R
            alg = algs.make_impl({'sig': [1] * d})
        x = alg.purevector(name='x', grade=gx)
        gR = tuple(sorted(rng.sample(range(d + 1), rng.randint(1, 2))))
        if it < 2 * len(forms) or 'inv' in name:
            gR = (1,)
        nR = len(alg.indices_for_grades[gR])
        if kind == 'symbolic':
            Rm = alg.multivector(name='R', grades=gR)
        elif kind == 'numeric':
            Rm = alg.multivector([rng.randint(-3, 3) or 1 for _ in range(nR)], grades=gR)
        else:
            Rm = alg.multivector([np.array([float(rng.randint(-3, 3) or 1), float(rng.randint(-3, 3) or 2)]) for _ in range(nR)], grades=gR)
        if kind != 'symbolic' and it >= 2 * len(forms) and len(Rm.keys()) > 1 and rng.random() < 0.5:
            # the same element with its blades stored in another order (e.g. built from a mapping or from explicit keys)
            order_ = list(range(len(Rm.keys()))); rng.shuffle(order_)
            Rm = MultiVector.fromkeysvalues(alg, tuple(Rm.keys()[i_] for i_ in order_), [Rm.values()[i_] for i_ in order_])
            R.count('expr_as_matrix:other input stored in a permuted order')
        res_like = None
        if it >= 2 * len(forms) and rng.random() < 0.5:      # only some canonical keys, in any order, also keys y does not store
            rk = rng.sample(list(alg.canon2bin.values()), rng.randint(1, min(4, 2 ** d)))
            res_like = alg.multivector(keys=tuple(rk), values=[1] * len(rk))
            R.count('expr_as_matrix:res_like')
        R.count('expr_as_matrix:' + kind); R.case(('eam', it, name, kind, gx, gR), True,
                                                  sample={'clause': 'expr_as_matrix', 'expression': name, 'other input': kind, 'x grade': gx, 'R grades': list(gR)})
        try:
            A, y = expr_as_matrix(f, Rm, x, res_like=res_like)
        except Exception as e:  # noqa
            viol('expr_as_matrix-raises', f'expr_as_matrix({name}) with a {kind} R raised {type(e).__name__}: {e}'[:300], expression=name, kind=kind)
            continue
        if kind == 'symbolic':
            # the model: y = expr(inputs) computed by the harness, (A, y) of the implementation read term by term
            try:
                yfull = f(Rm, x)
                xsyms = list(x.values())
                flatA = [A[i, j] for i in range(A.shape[0]) for j in range(A.shape[1])]
                gens, polys = read_polys(list(yfull.values()) + list(y.values()) + flatA, xsyms)
                nf, ny = len(yfull), len(y)
                pf, py, pA = polys[:nf], polys[nf:nf + ny], polys[nf + ny:]
                ncol = len(xsyms)
                rl = 'None' if res_like is None else f'(Some {kv.zlist(res_like.keys())})'
                xt = kv.blist(kv.pair(kv.Z(k), kv.nat(j)) for j, k in enumerate(x.keys()))
                def mvt(keys, ps):
                    return '(' + kv.blist(kv.pair(kv.Z(k), xpoly_term(tl)) for k, tl in zip(keys, ps)) + ' : mv xpolyQ)'
                At = '(' + kv.blist(kv.blist(xpoly_term(pA[i * ncol + j]) for j in range(ncol)) for i in range(A.shape[0])) + ' : list (list xpolyQ))'
                eam_cases.append({'check': f'eam_case_Qc {rl} {xt} {mvt(yfull.keys(), pf)} {At} {mvt(y.keys(), py)}',
                                  'meta': {'expression': name, 'it': it, 'A': A, 'y': y, 'x': x, 'yfull': yfull,
                                           'res_like': None if res_like is None else list(res_like.keys()), 'alg': alg}})
                R.count('expr_as_matrix-model:cases' + ('' if res_like is None else ' with res_like'))
                if any(sum(e[:ncol]) != 1 for tl in py for _, e in tl):
                    R.count('expr_as_matrix-model:not linear')        # the row identity is then not asked for
                if len(gens) > ncol + nR:
                    R.count('expr_as_matrix-model:inverse read as a symbol')
            except Unreadable as e:
                R.count(f'expr_as_matrix-model:unreadable ({e})')
        vals = {s: sympy.Rational(rng.randint(-5, 5), rng.randint(1, 3)) for s in set().union(*[getattr(v, 'free_symbols', set()) for v in list(x.values()) + (list(Rm.values()) if kind == 'symbolic' else [])])}
        xv = [sympy.sympify(v).subs(vals) for v in x.values()]
        try:
            if kind == 'array':
                for idx in range(2):
                    # entries of A are arrays (one value per array element) or plain numbers (constants)
                    Ai = np.array([[float(np.asarray(e, dtype=float).reshape(-1)[idx]) if np.asarray(e).size > 1 else float(np.asarray(e, dtype=float).reshape(-1)[0])
                                    for e in row] for row in A], dtype=float).reshape(len(A), len(xv))   # y may store no blade: 0 rows
                    lhs = Ai @ np.array([float(v) for v in xv])
                    rhs = [float(sympy.sympify(v[idx] if hasattr(v, '__len__') else v).subs(vals)) for v in y.values()]
                    if not np.allclose(lhs, rhs, rtol=1e-9, atol=1e-9):
                        viol('expr_as_matrix', f'A.x != y for {name} with an array-valued R (element {idx}): {lhs} vs {rhs}', expression=name, kind=kind)
                        break
                    # ... and y is the expression applied to that element of R and x (not only consistent with A)
                    if res_like is None:
                        Rel = MultiVector.fromkeysvalues(alg, Rm.keys(), [float(np.asarray(v_).reshape(-1)[idx]) for v_ in Rm.values()])
                        direct = f(Rel, x)
                        dmap = {int(k_): float(sympy.sympify(v_).subs(vals)) for k_, v_ in zip(direct.keys(), direct.values())}
                        ymap = {int(k_): r_ for k_, r_ in zip(y.keys(), rhs)}
                        if any(abs(dmap.get(k_, 0.0) - ymap.get(k_, 0.0)) > 1e-9 * max(1.0, abs(dmap.get(k_, 0.0))) for k_ in set(dmap) | set(ymap)):
                            viol('expr_as_matrix', f'y is not the expression applied to the inputs for {name} with an array-valued R stored on blades {list(Rm.keys())} (element {idx}): '
                                                   f'y = {ymap}, {name} on that element = {dmap}', expression=name, kind=kind)
                            break
            else:
                if len(A) == 0:              # y stores no blade: A has no rows
                    lhs = []
                else:
                    Am = sympy.Matrix(A).subs(vals) if kind == 'symbolic' else sympy.Matrix(np.array(A).tolist())
                    lhs = list(Am * sympy.Matrix(xv))
                rhs = [sympy.sympify(v).subs(vals) for v in y.values()]
                def close(a, b):
                    if kind == 'symbolic':
                        return sympy.nsimplify(a - b) == 0
                    return abs(complex(a) - complex(b)) <= 1e-9 * max(1.0, abs(complex(b)))      # a numeric A holds floats
                if len(lhs) != len(rhs) or not all(close(a, b) for a, b in zip(lhs, rhs)):
                    viol('expr_as_matrix', f'A.x != y for {name} with a {kind} R: {lhs} vs {rhs}', expression=name, kind=kind)
        except Exception as e:  # noqa
            viol('expr_as_matrix-check', f'could not evaluate A.x for {name} ({kind}): {type(e).__name__}: {e}'[:300], expression=name, kind=kind)
    bad, shown = kv.run_cases('C18', cases, imports='Model.All Model.Matrix Theory.Matrix', shard=40)
    for i in bad:
        m = cases[i]['meta']
        R.violation({'clause': 'model', 'basis': 'default'}, {'algebra': m['spec'], 'observation': m['obs']},
                    f'{m["obs"]} in Algebra({algs.describe(m["spec"])}) differs from Model/Matrix.v (or hom_ok is false)')


    # expr_as_matrix against Model/ExprMatrix.v: eam_case_Qc evaluated in Coq on exact rationals
    bad, shown = kv.run_cases('C18eam', eam_cases, imports='Model.All Model.ExprMatrix', shard=40)
    for i in bad:
        m = eam_cases[i]['meta']
        A, y, x, yfull, alg = m['A'], m['y'], m['x'], m['yfull'], m['alg']
        syms = sorted(set().union(*[sympy.sympify(v).free_symbols for v in list(yfull.values()) + list(y.values()) + list(A)]), key=lambda v: v.name)
        want_keys = list(yfull.keys()) if m['res_like'] is None else m['res_like']
        want = {k: sympy.sympify(getattr(yfull, alg.bin2canon[k])) for k in want_keys}      # expr(inputs), restricted to the requested blades
        witness = None
        if set(y.keys()) != set(want_keys) or len(y.keys()) != len(want_keys):
            witness = f'y stores the blades {list(y.keys())}, the requested / computed blades are {want_keys}'
        for _ in range(20):
            if witness:
                break
            vals = {sy: sympy.Rational(rng.randint(-7, 7), rng.randint(1, 4)) for sy in syms}
            try:
                yv = [sympy.nsimplify(sympy.sympify(v).subs(vals)) for v in y.values()]
                wv = [sympy.nsimplify(want[k].subs(vals)) for k in y.keys()]
                lhs = [sympy.nsimplify(v) for v in (sympy.Matrix(A).subs(vals) * sympy.Matrix([sympy.sympify(v).subs(vals) for v in x.values()]))] if len(A) else []
                if not all(v.is_finite for v in yv + wv + lhs):
                    continue
            except Exception:  # noqa  (a zero denominator at this point)
                continue
            if len(lhs) != len(yv) or any(sympy.simplify(a - b) != 0 for a, b in zip(lhs, yv)):
                witness = f'A.x = {lhs} but y = {yv} at {vals}'
            elif any(sympy.simplify(a - b) != 0 for a, b in zip(yv, wv)):
                witness = f'the returned y = {yv} on the blades {list(y.keys())} but expr(inputs) = {wv} there, at {vals}'
        if witness:
            R.violation({'clause': 'expr_as_matrix-model', 'expression': m['expression']},
                        {'expression': m['expression'], 'iteration': m['it'], 'res_like': m['res_like']},
                        f'expr_as_matrix-model: expr_as_matrix({m["expression"]}, R, x{"" if m["res_like"] is None else ", res_like keys " + str(m["res_like"])}) '
                        f'differs from Model/ExprMatrix.v and contradicts the property: {witness}'[:600])
        else:
            R.fidelity_notes += 1       # finer than the property (a different but equal form of an entry)
            R.count('expr_as_matrix-model:differs without a witness')


REPLAY_BY_RERUN = True      # inputs derive from the seed recorded in the replay file: the recorded run is regenerated


def replay(R, rec):
    return kv.replay_by_rerun(__import__('sys').modules[__name__], rec['property'], rec)
