"""C12 — symbolic evaluation commutes with numeric evaluation.
Oracle on the real kingdon: for operators x key patterns x partitions of the coefficients into symbolic
(sympy) / numeric (Fraction): operate symbolically, then substitute random rationals by calling the
result (positional and keyword) and by sympy substitution, and compare with operating on the numeric
operands; every blade the symbolic simplification dropped must have coefficient 0 numerically; argument
binding of MultiVector.__call__ (positional = free symbols in name order, keywords by name, a foreign
keyword must not be bound silently).  The theorem side is the naturality of the model operators under
the evaluation homomorphism and the soundness of the zero filter (Props/C12.v).
Binding stream (in-Coq correspondence with Model/Call.v, whose call provably binds positionals in name order and
keywords by name): random multivectors with integer-polynomial coefficients in randomly named symbols, called
positionally, by keywords in random order (with ignored extra keywords), and malformed (too few / too many / no
positionals, missing or foreign keyword, both kinds): value or exception class against the model, and the
values against an independent evaluation (python sorted + sympy subs)."""
import warnings
import numpy as np
from fractions import Fraction
import kv, algs, opcorr as oc

RULE = ('[symbols are named from a pool mixing case, digits and underscores; norm / normalized / sqrt on positive-definite algebras with floats; after each call the '
        'sum x+x (same blades, same symbols) is called on the same algebra and then x again] operators {gp, op, ip, lc, rc, sp, cp, acp, rp, add, sub, sw, proj, neg, reverse, involute, conjugate, hodge, normsq, inv, div} '
        'x random key patterns (d <= 3, random signatures) x random symbolic/numeric partitions x one random rational assignment; '
        'substitution by call (positional, keyword) and by subs.  Non-trivial = at least one symbolic coefficient and a non-empty result; '
        'distinct = distinct (algebra, operator, keys, partition).  '
        'Binding stream: random key lists (d <= 3, any order) x 1-5 symbols named from a pool mixing case, digits, underscores, prefixes of one '
        'another and non-ASCII letters x coefficients = random expression trees (depth <= 3: symbol, integer, +, -, *, unary minus; some purely numeric) '
        'x calls {positional, keywords in random order, keywords + extra foreign keyword, too few, too many, none, missing keyword, missing + foreign / '
        'near-miss keyword, both kinds}; non-trivial = at least 2 free symbols; distinct = distinct (keys, coefficients, call).')
TRUSTED = ['the printing of a sympy polynomial expression into the body of the generated function (LambdaPrinter, cse) - sampled by the binding stream, not modelled',
           'sympy.simplify(sympy.expand(v)) returns 0 only for identically-zero expressions (not modelled)', 'sympy substitution and Rational arithmetic']
ASSUMPTIONS = ['distinct sympy symbols have distinct names (two symbols with one name and different assumptions are outside Model/Call.v); '
               'names are python identifiers that are not keywords',
               'rational operators are evaluated away from poles (assignments making a denominator vanish are skipped)',
               'one random rational point per case stands for all assignments (the generated functions are rational in the symbols)']

BIN = ['gp', 'op', 'ip', 'lc', 'rc', 'sp', 'cp', 'acp', 'rp', 'add', 'sub', 'sw', 'proj', 'div']
UN = ['neg', 'reverse', 'involute', 'conjugate', 'hodge', 'normsq', 'inv']
ROOTS = ['norm', 'normalized', 'sqrt']          # methods that introduce a square root (floats, 1e-9)
# symbol names: upper / lower case, digits, underscores, several characters - "name order" is python's string order
NAMES = ['a', 'B', 'c', 'D', 'p', 'R', 'x1', 'X2', 'x10', 'alpha', 'Beta', 'z_1', 'Z_0', 'q', 'Q', 'v', 'W', 'k2', 'K2', 'm', 'N', 't0', 'T1', 'u', 'Ua']


def run(R, tier):
    warnings.filterwarnings('ignore')
    import sympy
    from kingdon import MultiVector
    rng = R.rng

    def viol(clause, detail, **rep):
        R.violation({'clause': clause}, rep, f'{clause}: {detail}')

    def rat(fr):
        return sympy.Rational(fr.numerator, fr.denominator)

    n = 160 if tier == "quick" else 2500
    for it in range(n):
        d = rng.choice((1, 2, 2, 3))
        spec = {'sig': [rng.choice((1, 1, -1, 0)) for _ in range(d)]}
        alg = algs.make_impl(spec)
        canon = list(alg.canon2bin.values())
        op = rng.choice(BIN + UN + ROOTS)
        root = op in ROOTS
        if root:                           # stay inside the domain: a positive-definite metric
            spec = {'sig': [1] * d}
            alg = algs.make_impl(spec)
            canon = list(alg.canon2bin.values())
        ar = 2 if op in BIN else 1
        heavy = op in ('sw', 'proj', 'div', 'inv', 'normsq') or root
        operands, symvals = [], {}
        fresh_names = rng.sample(NAMES, len(NAMES))
        for oi in range(ar):
            ks = rng.sample(canon, rng.randint(1, min(len(canon), 2 if heavy else 4)))
            if rng.random() < 0.5:
                rng.shuffle(ks)
            if op == 'sqrt':               # a Study number: scalar part (positive) + one blade squaring to a scalar
                blade = rng.choice([k for k in canon if k] or [0])
                ks = [0, blade] if blade else [0]
            vals, nums = [], []
            for k in ks:
                numeric = rng.random() < 0.3
                v = Fraction(rng.randint(-5, 5) or 1, rng.randint(1, 3))
                if op == 'sqrt' and k == 0:
                    v = Fraction(rng.randint(6, 9), rng.randint(1, 2))
                if numeric:
                    vals.append(rat(v) if rng.random() < 0.5 else int(v.numerator) if v.denominator == 1 else rat(v))
                else:
                    s = sympy.Symbol(fresh_names.pop())
                    vals.append(s); symvals[s] = v
                nums.append(v if numeric else v)
            operands.append((ks, vals, nums))
        part = tuple(tuple(isinstance(v, sympy.Symbol) for v in o[1]) for o in operands)
        R.count('op=' + op); R.count(f'd={d}'); R.count('symbolic coefficients=' + str(sum(map(sum, part))))
        smvs = [MultiVector.fromkeysvalues(alg, tuple(ks), list(vals)) for ks, vals, _ in operands]
        nmvs = [MultiVector.fromkeysvalues(alg, tuple(ks), [symvals[v] if isinstance(v, sympy.Symbol) else Fraction(int(v.p), int(v.q)) if hasattr(v, 'p') else Fraction(v)
                                                            for v in vals]) for ks, vals, _ in operands]
        def run_op(mvs):
            return getattr(mvs[0], op)() if root else getattr(alg, op)(*mvs)
        if root:
            nmvs = [MultiVector.fromkeysvalues(alg, m.keys(), [float(v) for v in m.values()]) for m in nmvs]
        try:
            num = run_op(nmvs)
            numres = ('ok', [(int(k), Fraction(v) if not root else Fraction(float(v)).limit_denominator(10 ** 12)) for k, v in zip(num.keys(), num.values())])
        except ZeroDivisionError:
            numres = ('zde', None)
        except Exception as e:  # noqa
            numres = ('err', type(e).__name__)
        try:
            sym = run_op(smvs)
            symres = ('ok', sym)
        except ZeroDivisionError:
            symres = ('zde', None)
        except Exception as e:  # noqa
            symres = ('err', f'{type(e).__name__}: {e}')
        nontrivial = bool(symvals) and symres[0] == 'ok' and len(symres[1].keys()) > 0
        R.case((algs.describe(spec), op, tuple(tuple(o[0]) for o in operands), part), nontrivial,
               sample={'algebra': algs.describe(spec), 'op': op, 'operands': [[(k, str(v)) for k, v in zip(o[0], o[1])] for o in operands],
                       'assignment': {str(s): str(v) for s, v in symvals.items()}, 'symbolic_result': str(symres[1])[:200]})
        if numres[0] != 'ok':
            continue                      # a pole / non-invertible numeric operand: outside the property
        if symres[0] != 'ok':
            if symvals or symres[0] == 'err':
                viol('symbolic-raises', f'{op} on symbolic operands raised {symres[1]} while the numeric evaluation succeeds', algebra=spec, op=op,
                     operands=[[(k, str(v)) for k, v in zip(o[0], o[1])] for o in operands])
            continue
        sym = symres[1]
        want = dict(numres[1])

        def compare(tag, keys, values):
            nonlocal want
            got = {}
            for k, v in zip(keys, values):
                try:
                    vv = sympy.nsimplify(v) if not isinstance(v, (int, Fraction)) else v
                    got[int(k)] = Fraction(int(sympy.Rational(vv).p), int(sympy.Rational(vv).q))
                except Exception:
                    try:
                        got[int(k)] = Fraction(float(v)).limit_denominator(10 ** 9)
                    except Exception:
                        viol(tag + '-not-a-number', f'{op}: coefficient {v!r} on blade {k} after substitution', algebra=spec, op=op); return
            for k in set(got) | set(want):
                if got.get(k, 0) != want.get(k, 0):
                    if abs(float(got.get(k, 0)) - float(want.get(k, 0))) <= 1e-9 * max(1.0, abs(float(want.get(k, 0)))):
                        continue
                    viol('subst-' + tag, f'{op} in Algebra({algs.describe(spec)}): substituting after operating gives {got.get(k, 0)} on blade {k}, '
                                         f'operating on the numbers gives {want.get(k, 0)}; operands {[[(kk, str(v)) for kk, v in zip(o[0], o[1])] for o in operands]}, '
                                         f'assignment {symvals}', algebra=spec, op=op,
                         operands=[[(kk, str(v)) for kk, v in zip(o[0], o[1])] for o in operands], assignment={str(s): str(v) for s, v in symvals.items()})
                    return
        subs = {s: rat(v) for s, v in symvals.items()}
        try:
            compare('subs', sym.keys(), [v.subs(subs) if hasattr(v, 'subs') else v for v in sym.values()])
        except ZeroDivisionError:
            pass
        if sym.free_symbols:
            names = sorted(s.name for s in sym.free_symbols)
            byname = {s.name: symvals[s] for s in sym.free_symbols}
            try:
                r1 = sym(**{nm: float(byname[nm]) if False else rat(byname[nm]) for nm in names})
                compare('call-keywords', r1.keys(), list(r1.values()))
                r2 = sym(*[rat(byname[nm]) for nm in names])
                compare('call-positional', r2.keys(), list(r2.values()))
            except ZeroDivisionError:
                pass
            except Exception as e:  # noqa
                viol('call-raises', f'calling the symbolic result of {op} raised {type(e).__name__}: {e}', algebra=spec, op=op)
            # another symbolic multivector with the same blades on the same algebra object, called in between:
            # each call must evaluate its own coefficients
            try:
                twice = sym + sym
                if twice.free_symbols == sym.free_symbols and not root:
                    kw = {nm: rat(byname[nm]) for nm in names}
                    r4 = twice(**kw)
                    want_save = want
                    want = {k: 2 * v for k, v in want_save.items()}
                    compare('call-second-multivector', r4.keys(), list(r4.values()))
                    want = want_save
                    r5 = sym(**kw)
                    compare('call-after-second-multivector', r5.keys(), list(r5.values()))
            except ZeroDivisionError:
                pass
            except Exception as e:  # noqa
                viol('call-raises', f'calling (x+x) for the symbolic result x of {op} raised {type(e).__name__}: {e}', algebra=spec, op=op)
            # a foreign keyword must not be bound silently
            if len(names) >= 1:
                bad = dict({nm: rat(byname[nm]) for nm in names[1:]}, zz_foreign=sympy.Integer(7))
                try:
                    r3 = sym(**bad)
                    viol('call-foreign-keyword', f'calling with keywords {sorted(bad)} for free symbols {names} returned {r3} instead of raising',
                         algebra=spec, op=op, names=names)
                except Exception:
                    pass
    # coefficients of very small / very large magnitude next to symbols: a blade may be dropped only if its coefficient is
    # identically zero, however small the numbers involved (relative comparison)
    for it in range(12 if tier == 'quick' else 150):
        d = rng.choice((2, 3))
        alg = algs.make_impl({'sig': [1] * d})
        canon = list(alg.canon2bin.values())
        scale = 2.0 ** rng.choice((-120, -80, -50, -45, 40, 90))
        ks = rng.sample(canon, 2); kn = rng.sample(canon, rng.randint(1, 2))
        syms = [sympy.Symbol(nm) for nm in rng.sample(NAMES, 2)]
        point = {sy: Fraction(rng.randint(1, 5), rng.randint(1, 3)) for sy in syms}
        smv = MultiVector.fromkeysvalues(alg, tuple(ks), list(syms))
        cvals = [scale * rng.randint(1, 7) for _ in kn]
        cmv = MultiVector.fromkeysvalues(alg, tuple(kn), list(cvals))
        nmv = MultiVector.fromkeysvalues(alg, tuple(ks), [point[sy] for sy in syms])
        cfr = MultiVector.fromkeysvalues(alg, tuple(kn), [Fraction(c) for c in cvals])
        op = rng.choice(['gp', 'op', 'add', 'sub', 'ip'])
        R.count('op=' + op); R.count('tiny-or-huge-coefficients'); R.case(('scale', it, op, tuple(ks), tuple(kn), scale), True)
        try:
            sym = getattr(alg, op)(cmv, smv)
            num = getattr(alg, op)(cfr, nmv)
            got = {int(k): float(sympy.sympify(v).subs({sy: rat(point[sy]) for sy in syms})) for k, v in zip(sym.keys(), sym.values())}
            want = {int(k): float(v) for k, v in zip(num.keys(), num.values())}
        except Exception as e:  # noqa
            viol('symbolic-raises', f'{op} of a float multivector (scale {scale:g}) and a symbolic one raised {type(e).__name__}: {e}'[:300], op=op, scale=scale)
            continue
        for k in set(got) | set(want):
            g, w = got.get(k, 0.0), want.get(k, 0.0)
            if abs(g - w) > 1e-9 * max(abs(w), abs(g)):
                viol('subst-subs', f'{op} of coefficients {cvals} on blades {kn} with symbols {syms} on blades {ks} in Algebra(sig={[1] * d}): blade {k} evaluates to {g!r} after '
                                   f'substituting {point}, operating on the numbers gives {w!r} (a blade whose coefficient is not identically zero must not be dropped)',
                     op=op, scale=scale, keys=[kn, ks])
                break
    # coefficients that are functions composed with their inverses or with branch cuts (asin(sin t), acos(cos t), log(exp(I t)),
    # sqrt(t**2), Abs): the automatic simplification may only rewrite them to something equal for EVERY value of the symbols
    t = sympy.Symbol('t')
    u_ = sympy.Symbol('u')
    fexprs = [sympy.asin(sympy.sin(t)), sympy.acos(sympy.cos(t)), sympy.atan(sympy.tan(t)), sympy.sqrt(t ** 2), sympy.Abs(t) + t,
              sympy.log(sympy.exp(t)) * 2, sympy.sin(t) ** 2 + sympy.cos(t) ** 2 - 1, (t ** 2) ** sympy.Rational(1, 2) - t,
              # roots / logarithms / powers of PRODUCTS of symbols: sqrt(t u) is not sqrt(t) sqrt(u) when both are negative
              sympy.sqrt(t * u_), sympy.sqrt(t * u_) - sympy.sqrt(t) * sympy.sqrt(u_), sympy.log(t * u_), (t * u_) ** sympy.Rational(1, 3), sympy.sqrt(t * u_) * u_,
              sympy.sqrt(t * u_), (t * u_ ** 2) ** sympy.Rational(1, 2)]
    for it in range(16 if tier == 'quick' else 200):
        d = rng.choice((2, 3))
        alg = algs.make_impl({'sig': [rng.choice((1, -1)) for _ in range(d)]})
        canon = list(alg.canon2bin.values())
        ks = rng.sample(canon, 2)
        f1, f2 = rng.sample(fexprs, 2)
        a = MultiVector.fromkeysvalues(alg, tuple(ks), [f1, sympy.Integer(rng.randint(1, 4))])
        b = MultiVector.fromkeysvalues(alg, tuple(ks), [sympy.Integer(rng.randint(1, 4)), f2])
        tv = rng.choice((3, -2, sympy.Rational(7, 2), -5))
        uv = rng.choice((-8, 2, -3, sympy.Rational(-1, 2)))
        op = rng.choice(['add', 'sub', 'neg', 'reverse', 'involute', 'conjugate', 'gp', 'op'])
        R.count('op=' + op); R.count('function-valued coefficients'); R.case(('fun', it, op, str(f1), str(f2), str(tv), str(uv)), True)
        def num(mv_):
            return MultiVector.fromkeysvalues(alg, mv_.keys(), [complex(sympy.N(sympy.sympify(v).subs({t: tv, u_: uv}))) for v in mv_.values()])
        try:
            args = [a, b] if op in ('add', 'sub', 'gp', 'op') else [a]
            sym = getattr(alg, op)(*args)
            want = getattr(alg, op)(*[num(m) for m in args])
            got = {int(k): complex(sympy.N(sympy.sympify(v).subs({t: tv, u_: uv}))) for k, v in zip(sym.keys(), sym.values())}
            exp = {int(k): complex(v) for k, v in zip(want.keys(), want.values())}
        except Exception as e:  # noqa
            viol('symbolic-raises', f'{op} on coefficients {f1}, {f2} raised {type(e).__name__}: {e}'[:300], op=op)
            continue
        for k in set(got) | set(exp):
            g, w = got.get(k, 0), exp.get(k, 0)
            if abs(g - w) > 1e-9 * max(1.0, abs(w)):
                viol('subst-subs', f'{op} with coefficients {f1} and {f2} in Algebra(sig={list(alg.signature)}): blade {k} evaluates to {g} at t = {tv}, u = {uv} after operating symbolically, '
                                   f'operating on the numbers gives {w} (the simplification rewrote a coefficient to a different function)', op=op, f=[str(f1), str(f2)], t=str(tv))
                break
    # chains: the exponential of a symbolic bivector, and differences whose first term vanishes identically for symbolic operands
    # (an empty multivector), evaluated by calling the result
    # (also on algebras created with a user-chosen simplification function: sympy's own simplifiers, which have further optional
    # parameters, and a user function with a defaulted second parameter)
    def _user_simp(expr, ratio=1.7):
        return sympy.simplify(expr, ratio=ratio)
    simp_choices = [None, sympy.trigsimp, sympy.factor, sympy.signsimp, _user_simp, sympy.expand]
    for it in range(6 if tier == 'quick' else 48):
        d = rng.choice((2, 3))
        sf = simp_choices[it % len(simp_choices)]
        # (a sympy simplifier cannot digest the built-in rational polynomials used for code generation: sympy symbols are chosen with it)
        alg = algs.make_impl({'sig': [1] * d}, **({'simp_func': sf, 'codegen_symbolcls': sympy.Symbol} if sf is not None else {}))
        R.count('chains: simp_func=' + (getattr(sf, '__name__', 'default') if sf else 'default'))
        Bs = alg.bivector(name='B'); vs_ = alg.vector(name='v'); ws_ = alg.vector(name='w')
        bvals = [rng.choice((0.3, -0.7, 1.1, 0.25)) for _ in Bs.keys()]
        vvals = [float(rng.randint(1, 4)) for _ in vs_.keys()]; wvals = [float(rng.randint(-4, -1)) for _ in ws_.keys()]
        Bn, vn, wn = alg.bivector(list(bvals)), alg.vector(list(vvals)), alg.vector(list(wvals))
        subs_ = {str(s_): x_ for s_, x_ in list(zip(Bs.values(), bvals)) + list(zip(vs_.values(), vvals)) + list(zip(ws_.values(), wvals))}
        chains = [('B.exp() >> v', lambda B_, v_, w_: B_.exp() >> v_), ('(v ^ v) - w', lambda B_, v_, w_: (v_ ^ v_) - w_),
                  ('(v|w)*(v|w) - (v*v)*(w*w) + (v^w)*(v^w)', lambda B_, v_, w_: (v_ | w_) * (v_ | w_) - (v_ * v_) * (w_ * w_) + (v_ ^ w_) * (v_ ^ w_)),
                  ('(v.cp(v)) - B', lambda B_, v_, w_: v_.cp(v_) - B_), ('w - (v ^ v)', lambda B_, v_, w_: w_ - (v_ ^ v_))]
        for label, f_ in chains:
            R.count('chains'); R.case(('chain', it, label), True)
            if sf is not None:
                # with a user-chosen simplifier an operator may be unable to proceed (exp of a NUMERIC bivector cannot see that B*B is a scalar when
                # the simplifier returns a sympy Float for 0.0):
                # the property speaks about the results it does return
                try:
                    f_(Bs, vs_, ws_); f_(Bn, vn, wn)
                except Exception:  # noqa
                    R.count('chains: symbolic operator raised under a user simp_func')
                    continue
            try:
                sym_ = f_(Bs, vs_, ws_)
                num_ = f_(Bn, vn, wn)
                fs = sorted(str(s_) for s_ in sym_.free_symbols) if hasattr(sym_, 'free_symbols') else []
                ev = sym_(**{n_: subs_[n_] for n_ in fs}) if fs else sym_
                gm = {int(k_): complex(v_) for k_, v_ in zip(ev.keys(), ev.values())}
                wm = {int(k_): complex(v_) for k_, v_ in zip(num_.keys(), num_.values())}
                okk = all(abs(gm.get(k_, 0) - wm.get(k_, 0)) <= 1e-9 * max(1.0, abs(wm.get(k_, 0))) for k_ in set(gm) | set(wm))
            except Exception as e:  # noqa
                okk, gm, wm = False, f'{type(e).__name__}: {e}'[:120], None
            if not okk:
                viol('subst-call', f'{label} built symbolically and called with B = {bvals}, v = {vvals}, w = {wvals} in Algebra({d}) gives {gm}, numeric operands give {wm}', op='chain', chain=label)
    # one argument an array of values, another a (large) python int: the call gives what numeric operands holding those values give
    for it in range(4 if tier == 'quick' else 40):
        d = rng.choice((2, 3))
        alg = algs.make_impl({'sig': [rng.choice((1, -1)) for _ in range(d)]})
        a_sym = alg.vector(name='a')
        t_sym = sympy.Symbol('t')
        T_ = alg.scalar(e=t_sym)
        arrs = [np.array([float(rng.randint(-4, 4) or 1) for _ in range(3)]) for _ in range(d)]
        tv = rng.choice((3, 2 ** 20, 2 ** 40, -3 * 10 ** 12, 2.0 ** 40))
        A_ = alg.vector(list(arrs)); Tn = alg.scalar(e=tv)
        for label, symr, numr in (('t * a', T_ * a_sym, Tn * A_), ('t * t * a', T_ * T_ * a_sym, Tn * Tn * A_), ('(t a) (t a)', (T_ * a_sym) * (T_ * a_sym), (Tn * A_) * (Tn * A_))):
            R.count('array-and-int arguments'); R.case(('arr-int', it, label, repr(tv)), True)
            vals_ = {f'a{i + 1}': arrs[i] for i in range(d)}
            names_ = sorted(s_.name for s_ in symr.free_symbols)
            vals_ = {nm_: (tv if nm_ == 't' else arrs[[str(s_) for s_ in a_sym.values()].index(nm_)]) for nm_ in names_}
            try:
                got_ = symr(**vals_)
                gm = {int(k_): np.asarray(v_, dtype=float) * np.ones(3) for k_, v_ in zip(got_.keys(), got_.values())}
                wm = {int(k_): np.asarray(v_, dtype=float) * np.ones(3) for k_, v_ in zip(numr.keys(), numr.values())}
                okk = all(np.allclose(gm.get(k_, np.zeros(3)), wm.get(k_, np.zeros(3)), rtol=1e-12, atol=0) for k_ in set(gm) | set(wm))
            except Exception as e:  # noqa
                okk, gm, wm = False, f'{type(e).__name__}: {e}'[:120], None
            if not okk:
                viol('subst-call', f'{label} called with arrays for the coefficients of a and t = {tv!r} in Algebra(sig={[int(x_) for x_ in alg.signature]}): {gm}, numeric operands give {wm}', op='gp', t=repr(tv))
                break
    # argument binding on hand-built expressions
    alg = algs.make_impl({'sig': [1, 1]})
    m = alg.multivector(e1='b+1', e2='a*b', e12='c-a')
    R.case(('binding', 'positional'), True); R.case(('binding', 'keyword'), True)
    r = m(2, 3, 5)          # a=2, b=3, c=5 in name order
    if [sympy.nsimplify(v) for v in r.values()] != [4, 6, 3]:
        viol('call-positional-order', f'mv(e1=b+1, e2=a*b, e12=c-a)(2, 3, 5) = {r}')
    r = m(c=5, a=2, b=3)
    if [sympy.nsimplify(v) for v in r.values()] != [4, 6, 3]:
        viol('call-keyword-binding', f'mv(...)(c=5, a=2, b=3) = {r}')
    binding_stream(R, tier)


# ----------------------------------------------------------------------------- the binding stream (Model/Call.v)
CALL_NAMES = NAMES + ['A', 'aa', 'ab', 'a_', '_a', 'a0', 'a2', 'a10', 'x', 'x_1', 'xX', 'xx', 'z', 'Z', '__', '_1', 'lam', 'Lam', 'α', 'Ω', 'été']


def _sname(s):
    return kv.natlist(ord(c) for c in s)


def _sx(t):
    if t[0] == 'v':
        return f'(SVar {_sname(t[1])})'
    if t[0] == 'c':
        return f'(SConst {kv.Z(t[1])})'
    if t[0] == 'n':
        return f'(SNeg {_sx(t[1])})'
    return '(%s %s %s)' % ({'+': 'SAdd', '-': 'SSub', '*': 'SMul'}[t[0]], _sx(t[1]), _sx(t[2]))


def _tree_names(t, acc):
    if t[0] == 'v':
        acc.add(t[1])
    elif t[0] != 'c':
        for c in t[1:]:
            _tree_names(c, acc)
    return acc


def _tree_of_sympy(e):
    """the expression tree of a sympy polynomial expression with integer coefficients (what the generated function prints)"""
    import functools
    if e.is_Symbol:
        return ('v', e.name)
    if e.is_Integer:
        return ('c', int(e))
    if e.is_Add or e.is_Mul:
        return functools.reduce(lambda a, b: ('+' if e.is_Add else '*', a, b), [_tree_of_sympy(a) for a in e.args])
    if e.is_Pow and e.exp.is_Integer and int(e.exp) > 0:
        b = _tree_of_sympy(e.base)
        return functools.reduce(lambda a, _: ('*', a, b), range(int(e.exp) - 1), b)
    raise ValueError(f'not a polynomial expression: {e!r}')


import sympy as _sympy


class _Parameter(_sympy.Symbol):
    """a user's Symbol subclass (sorts before Symbol in sympy's class order)"""


class _Aaa(_sympy.Symbol):
    pass


def binding_stream(R, tier):
    import sympy
    from kingdon import MultiVector
    rng = R.rng
    cases = []
    RES = 'res_eqb (list_eqb (pair_eqb Z.eqb Z.eqb))'

    def rand_tree(names, depth):
        if depth == 0 or rng.random() < 0.2:
            return ('v', rng.choice(names)) if names and rng.random() < 0.8 else ('c', rng.randint(-4, 4))
        k = rng.choice('++-**n')
        if k == 'n':
            return ('n', rand_tree(names, depth - 1))
        return (k, rand_tree(names, depth - 1), rand_tree(names, depth - 1))

    def to_sympy(t, syms):
        if t[0] == 'v':
            return syms[t[1]]
        if t[0] == 'c':
            return sympy.Integer(t[1])
        if t[0] == 'n':
            return -to_sympy(t[1], syms)
        a, b = to_sympy(t[1], syms), to_sympy(t[2], syms)
        return a + b if t[0] == '+' else a - b if t[0] == '-' else a * b

    n_mv = 70 if tier == 'quick' else 1500
    for it in range(n_mv):
        d = rng.choice((1, 2, 3))
        spec = {'sig': [rng.choice((1, 1, -1, 0)) for _ in range(d)]}
        alg = algs.make_impl(spec)
        canon = list(alg.canon2bin.values())
        ks = rng.sample(canon, rng.randint(1, min(len(canon), 4)))
        pool = rng.sample(CALL_NAMES, rng.choice((0, 1, 2, 3, 3, 4, 4, 5, 6)))
        if pool and rng.random() < 0.3:                  # names that are prefixes / case variants of one another
            base = rng.choice(pool)
            pool += [nm for nm in (base + '_', base + '0', base.swapcase(), base + base) if nm not in pool and nm.isidentifier()][:rng.randint(1, 2)]
        # symbols of different classes (a Symbol subclass, as MultiVector(symbolcls=...) produces): the binding goes by NAME, whatever
        # order sympy's own sort keys would give the classes
        mixed = it % 4 == 3
        syms = {nm: (rng.choice([sympy.Symbol, _Parameter, _Aaa]) if mixed else sympy.Symbol)(nm) for nm in pool}
        R.count('binding: symbol classes=' + ('mixed' if mixed else 'Symbol'))
        values, trees = [], []
        for k in ks:
            t = rand_tree(pool, rng.choice((0, 1, 2, 2, 3, 3)))
            v = to_sympy(t, syms)
            if v.is_Integer and rng.random() < 0.5:
                v = int(v)                               # a python number: no free_symbols attribute
                t = ('c', v)
            elif {s.name for s in v.free_symbols} != _tree_names(t, set()) or rng.random() < 0.5:
                t = _tree_of_sympy(v)                    # sympy simplified on construction: the tree of what is stored
            values.append(v); trees.append(t)
        mvx = MultiVector.fromkeysvalues(alg, tuple(ks), list(values))
        names = sorted({nm for t in trees for nm in _tree_names(t, set())})     # python's order on str
        if {s.name for s in mvx.free_symbols} != set(names):
            raise kv.MachineryError(f'binding stream: names of the expression trees {names} != free symbols {mvx.free_symbols}')
        mvdef = f'c12m_{it}'
        defs = [f'Definition {mvdef} : mv sexpr := {kv.blist(kv.pair(kv.Z(k), _sx(t)) for k, t in zip(ks, trees))}.']
        n = len(names)
        R.count(f'binding: free symbols={n}')
        assign = {nm: rng.randint(-6, 6) for nm in names}
        foreign = rng.choice(['zz_foreign', '_', 'q9'] + [nm + '_' for nm in names[:1]] + [nm.swapcase() for nm in names[:1]] + [nm[:-1] or 'w' for nm in names[:1]])
        if foreign in names:
            foreign = 'zz_foreign'
        kinds = ['positional', 'keywords', 'keywords-extra', 'too-few', 'too-many', 'no-arguments', 'missing-keyword', 'missing-and-foreign', 'both-kinds']
        for kind in kinds:
            args, kw = [], []
            if kind == 'positional':
                args = [assign[nm] for nm in names]
            elif kind in ('keywords', 'keywords-extra'):
                kw = [(nm, assign[nm]) for nm in names]
                if kind == 'keywords-extra':
                    kw.append((foreign, rng.randint(-6, 6)))
                rng.shuffle(kw)
                if not kw:
                    continue
            elif kind == 'too-few':
                if n == 0:
                    continue
                args = [rng.randint(-6, 6) for _ in range(rng.randint(1, n) - 1)]
                if not args:
                    continue                              # = no-arguments
            elif kind == 'too-many':
                args = [rng.randint(-6, 6) for _ in range(n + rng.randint(1, 2))]
            elif kind in ('missing-keyword', 'missing-and-foreign'):
                if n == 0:
                    continue
                drop = rng.choice(names)
                kw = [(nm, assign[nm]) for nm in names if nm != drop]
                if kind == 'missing-and-foreign':
                    kw.append((foreign, assign[drop]))    # same COUNT as the free symbols: must not be bound by position
                rng.shuffle(kw)
                if not kw:
                    continue                              # = no-arguments
            elif kind == 'both-kinds':
                args = [rng.randint(-6, 6) for _ in range(rng.randint(1, 2))]
                kw = [(rng.choice(names + [foreign]), rng.randint(-6, 6))]
            R.count('binding: ' + kind)
            try:
                r = mvx(*args, **dict(kw))
                got = ('ok', [(int(k), v) for k, v in zip(r.keys(), r.values())])
            except Exception as e:  # noqa
                got = ('err', e)
            desc = (f'MultiVector(keys={tuple(ks)}, values={[str(v) for v in values]}) in Algebra({algs.describe(spec)}) called with '
                    f'args={args}, keywords={dict(kw)} (free symbols in name order: {names})')
            rep = dict(algebra=spec, keys=list(ks), values=[str(v) for v in values], args=args, keywords=kw, kind=kind)
            R.case(('binding', kind, tuple(ks), tuple(str(v) for v in values), tuple(args), tuple(kw)), n >= 2,
                   sample={'kind': kind, 'keys': list(ks), 'values': [str(v) for v in values], 'free symbols in name order': names, 'args': args,
                           'keywords': [list(p) for p in kw], 'result': str(got[1])[:200]})
            # ---- direct oracle (independent of the model): python's sorted + sympy substitution
            env = None
            if not (args and kw):
                if n == 0:
                    env = {}
                elif kw and all(nm in dict(kw) for nm in names):
                    env = {nm: dict(kw)[nm] for nm in names}
                elif args and not kw and len(args) == n:
                    env = dict(zip(names, args))
            if env is not None:
                want = [(int(k), int(sympy.sympify(v).subs({syms[nm]: sympy.Integer(a) for nm, a in env.items()}))) for k, v in zip(ks, values)]
                clause = 'call-positional-order' if args else 'call-keyword-binding' if kw else 'call-without-symbols'
                if got[0] != 'ok':
                    R.violation({'clause': 'call-raises'}, rep, f'call-raises: {desc} raised {type(got[1]).__name__}: {got[1]}')
                    continue
                try:
                    val = [(k, int(v)) for k, v in got[1]]
                except Exception:  # noqa
                    val = got[1]
                if val != want:
                    R.violation({'clause': clause}, rep, f'{clause}: {desc} returned {got[1]}, binding the arguments as the property demands gives {want}')
                    continue
            elif got[0] == 'ok':
                clause = 'call-foreign-keyword' if kind == 'missing-and-foreign' else 'call-missing-keyword' if kind == 'missing-keyword' else 'call-arity'
                R.violation({'clause': clause}, rep, f'{clause}: {desc} returned {got[1]} instead of raising: the arguments cannot be bound to the free symbols')
                continue
            # ---- the model, evaluated in Coq
            call = f'call Zops (fun z => z) {mvdef} {kv.zlist(args)} {kv.blist(kv.pair(_sname(nm), kv.Z(a)) for nm, a in kw)}'
            if got[0] == 'ok':
                try:
                    expect = 'Ok ' + kv.blist(kv.pair(kv.Z(k), kv.Z(int(v))) for k, v in got[1])
                except Exception:  # noqa
                    R.violation({'clause': 'call-not-a-number'}, rep, f'call-not-a-number: {desc} returned {got[1]}')
                    continue
            else:
                expect = oc.err_term(got[1])
            cases.append({'check': f'{RES} ({call}) ({expect})', 'show': f'({call}, sorted_names (free_symbols {mvdef}))', 'defs': defs,
                          'raises': f'match {call} with Err _ => true | Ok _ => false end' if got[0] == 'err' else None,
                          'meta': dict(rep, desc=desc, got=str(got[1])[:300], kind=kind)})
    bad, shown = kv.run_cases('C12call', cases, imports='Model.All Model.Call')
    # both raise, different exception classes: finer than the property (it does not name the exceptions) - a fidelity note
    both = [i for i in bad if cases[i]['raises']]
    if both:
        still, _ = kv.run_cases('C12callerr', [{'check': cases[i]['raises'], 'defs': cases[i]['defs']} for i in both], imports='Model.All Model.Call')
        finer = {both[j] for j in range(len(both)) if j not in set(still)}
        R.fidelity_notes += len(finer)
        bad = [i for i in bad if i not in finer]
    for i in bad:
        m = cases[i]['meta']
        R.violation({'clause': 'call-model-' + m['kind']}, {k: m[k] for k in ('algebra', 'keys', 'values', 'args', 'keywords', 'kind')},
                    f'call-model-{m["kind"]}: {m["desc"]}: the implementation gives {m["got"]}, Model/Call.v (which provably binds positional arguments '
                    f'in name order and keywords by name) gives {shown.get(i, "<not shown>")}')


REPLAY_BY_RERUN = True      # inputs derive from the seed recorded in the replay file: the recorded run is regenerated


def replay(R, rec):
    return kv.replay_by_rerun(__import__('sys').modules[__name__], rec['property'], rec)
