"""C20 — the graph widget payload reflects the multivectors it is given.
Correspondence: random nested subject trees (colours, strings, sparse / full-canonical / full-binary /
permuted / array-valued / ndarray-backed multivectors, lists, tuples, zero-argument callables, the
single-callable form) in default-basis algebras d <= 4: widget.subjects, the front end's decoding
(graph.js mirrored), key2idx, draggable_points(_idxs) and inplacereplace are compared inside Coq with
Model/Graph.v; oracle on the implementation: the decoded payload equals the coefficient of every
blade read independently through attribute access; drag sequences through `widget.draggable_points = ...`."""
import warnings
import kv, algs
import graphlib as G

RULE = ('random subject trees of depth <= 3 with 1-4 root subjects in Algebra(p,q,r) for d <= 4 (quick: 5 algebras incl. 2DPGA/3DPGA '
        'signatures), multivector layouts {sparse, canonical, binary, permuted, sparse-permuted, list-of-arrays, 2-D ndarray, 1-D ndarray, '
        'integer ndarray}; 1 payload case + 1 decode case + 2 draggable cases per tree, key2idx probes, drag write-backs (direct and through '
        'the traitlet).  Non-trivial = the tree contains a multivector; distinct = distinct (algebra, tree).')
TRUSTED = ['graph.js: its decode / toElement helpers are EXECUTED by node on every payload and compared with the hand-made mirror (tools/jsdecode.js); only ganja.js and the widget transport stay unexecuted', 'Model/Graph.v (hand-written after graph.py and graph.js) tied by this correspondence', 'graph.js is re-modelled from its source text (ganja.js itself is fetched from the network by the front end and is not available)',
           'traitlets/anywidget transport, JSON serialisation, ndarray.tobytes are not modelled (values compared as numbers)']
ASSUMPTIONS = ['one trailing array dimension', 'float coefficients compared as the integers they hold']


def run(R, tier):
    warnings.filterwarnings('ignore')
    import numpy as np
    from kingdon import Algebra, MultiVector
    rng = R.rng
    G.set_rng(rng)
    pool = {'A2': Algebra(2), 'P2': Algebra(2, 0, 1), 'A3': Algebra(3), 'P3': Algebra(3, 0, 1), 'M11': Algebra(1, 1), 'A1': Algebra(1)}
    # several algebras of one process that agree in (p, q, r) / signature / repr but not in the order of their blades or generators:
    # every widget must describe ITS algebra (signature, Cayley table, key2idx), whichever algebra drew first
    pool.update({'P2c': Algebra.fromname('2DPGA'), 'M11r': Algebra(signature=[-1, 1]), 'P2s': Algebra(2, 0, 1, start_index=1)})
    if tier != 'quick':
        pool.update({'P3c': Algebra.fromname('3DPGA')})
    if tier != 'quick':
        pool.update({'A4': Algebra(4), 'S31': Algebra(3, 1), 'N': Algebra(signature=[0, -1, 1]), 'Z2': Algebra(0, 0, 2)})
    G.set_algebras(pool)
    enc, dec, k2i, inp, idx = [], [], [], [], []
    js_jobs = []          # payloads decoded a second time by the REAL helpers of kingdon/graph.js, run by node

    def viol(clause, detail, **rep):
        R.violation({'clause': clause}, rep, f'{clause}: {detail}')
    # corpus first: the listed known finding F17 (draggable indices shifted by array-valued subjects)
    alg = pool['A2']
    pts = MultiVector.fromkeysvalues(alg, (1, 2), [np.array([10., 20., 30.]), np.array([11., 21., 31.])])
    P = alg.vector([7, 8])
    w = alg.graph(lambda: pts, P)
    R.case(('corpus', 'F17'), True)
    shown = G.js_decode(w.subjects, w.key2idx)
    i = w.draggable_points_idxs[0]
    if shown[i] != ('E', [0, 7, 8, 0]):
        viol('drag-index-shift', f'alg.graph(lambda: pts, P) with a 3-element array-valued pts: draggable_points_idxs = {w.draggable_points_idxs} '
                                 f'addresses subjects[{i}] = {shown[i]}, not P = [0, 7, 8, 0]', steps='pts array-valued before a draggable point')
    ncases = 60 if tier == 'quick' else 1500
    for c in range(ncases):
        an = rng.choice(list(pool))
        alg = pool[an]
        canon = G.CANON[an]
        raw = [G.rand_subj(an, 3) for _ in range(rng.choice([1, 1, 2, 3, 4]))]
        if c % 7 == 0:
            raw = [('call', ('list', raw))]
        if c % 11 == 3:
            raw = [('call', raw[0])]
        try:
            w = alg.graph(*[G.to_py(t) for t in raw])
            subjects = w.subjects
        except Exception as e:  # noqa
            viol('graph-raises', f'alg.graph raised {type(e).__name__}: {e} for the tree {raw}'[:400], algebra=an, tree=str(raw))
            continue
        rawc = G.clist([G.to_coq(t) for t in raw])
        canc = G.czl(canon)
        has_mv = 'mv' in str(raw)
        R.count('algebra=' + an); R.count('roots=' + str(len(raw)))
        R.case((an, str(raw)), has_mv, sample={'algebra': an, 'tree': str(raw)[:300], 'subjects': str(subjects)[:300]})
        try:
            enc.append({'check': f'list_eqb payload_eqb (graph_subjects {canc} {rawc}) {G.clist([G.payload_to_coq(p) for p in subjects])}',
                        'show': f'graph_subjects {canc} {rawc}', 'meta': {'what': 'payload', 'algebra': an, 'tree': str(raw), 'impl': str(subjects)}})
            key2idx = w.key2idx
            d = G.js_decode(subjects, key2idx)
            js_jobs.append((subjects, dict(key2idx), G.py_decoded_to_json(d), an, str(raw)))
            dec.append({'check': f'list_eqb elem_eqb (map (decode {canc}) (graph_subjects {canc} {rawc})) {G.clist([G.elem_to_coq(e) for e in d])}',
                        'meta': {'what': 'decode', 'algebra': an, 'tree': str(raw), 'impl': str(d)}})
        except (AssertionError, ValueError) as e:
            # e.g. bytes that are not whole float64 numbers, or do not decode to the coefficients supplied
            viol('payload-shape', f'the payload of {str(raw)[:200]} in {an} is not what the front end reads (Float64Array / number lists): {type(e).__name__} {e}'[:400],
                 algebra=an, tree=str(raw)); continue
        want = [y for t in G.pre_subjects_tree(raw) for y in G.truth(t)]
        if want != d:
            viol('decode-encode', f'the front end would see {str(d)[:300]} for the tree {str(raw)[:300]} in {an}; the coefficients read through attribute access are {str(want)[:300]}',
                 algebra=an, tree=str(raw))
        pga = alg.r == 1 and alg.d in (3, 4)
        pgac = f'(Some {alg.d - 1})' if pga else 'None'
        idx.append({'check': f'list_eqb payload_eqb (draggable_points_default {canc} {pgac} (pre_subjects {rawc})) {G.clist([G.payload_to_coq(p) for p in w.draggable_points])}',
                    'meta': {'what': 'draggable_points', 'algebra': an, 'tree': str(raw), 'impl': str(w.draggable_points)}})
        idx.append({'check': f'list_eqb Nat.eqb (draggable_idxs {pgac} (pre_subjects {rawc})) {G.clist([str(i) + "%nat" for i in w.draggable_points_idxs])}',
                    'meta': {'what': 'draggable_points_idxs', 'algebra': an, 'tree': str(raw), 'impl': str(w.draggable_points_idxs)}})
    for an, alg in pool.items():
        w = alg.graph()
        canon = G.CANON[an]
        sig_ok = [int(s) for s in alg.signature] == list(w.signature)
        R.case(('meta', an), True)
        if not sig_ok or w.key2idx != {k: i for i, k in enumerate(canon)}:
            viol('meta', f'signature/key2idx of the widget do not describe Algebra {an}', algebra=an)
        # the Cayley table sent to the front end: entry [J][I] = the product of the J-th and I-th canonical blade ('0', or +-name, scalar as 1)
        names = list(alg.canon2bin)
        want_cayley = []
        for nj in names:
            row = []
            for ni in names:
                pr = alg.blades[nj] * alg.blades[ni]
                if not len(pr.keys()) or not any(pr.values()):
                    row.append('0')
                else:
                    k, v = list(pr.keys())[0], list(pr.values())[0]
                    nm = alg.bin2canon[k]
                    row.append(('-' if v < 0 else '') + ('1' if nm == 'e' else nm))
            want_cayley.append(row)
        if [list(r) for r in w.cayley] != want_cayley:
            viol('meta', f'the Cayley table of the widget does not describe Algebra {an} (first difference: '
                         f'{next(((i, j, w.cayley[i][j], want_cayley[i][j]) for i in range(len(names)) for j in range(len(names)) if w.cayley[i][j] != want_cayley[i][j]), None)})', algebra=an)
        for k in range(-1, 2 ** alg.d + 2):
            got = w.key2idx.get(k)
            k2i.append({'check': f'opt_eqb Nat.eqb (key2idx {G.czl(canon)} {G.cz(k)}) {("(Some " + str(got) + "%nat)") if got is not None else "None"}',
                        'meta': {'what': 'key2idx', 'algebra': an, 'tree': str(k), 'impl': str(got)}})
    # drag write-back
    for c in range(50 if tier == 'quick' else 800):
        an = rng.choice(list(pool))
        alg = pool[an]
        canon = G.CANON[an]
        while True:
            t = G.rand_mv(an)
            if not t[4]:
                break
        if c % 3 == 2 and alg.d >= 2:
            # a single-grade subject that lacks a blade of its grade (a point / line with a zero coordinate left out)
            g_ = rng.randrange(1, alg.d)
            gk = [k_ for k_ in canon if bin(k_).count('1') == g_]
            if len(gk) >= 2:
                ks_ = rng.sample(gk, rng.randint(1, len(gk) - 1))
                t = ('mv', an, ks_, [[rng.randint(-9, 9)] for _ in ks_], False, 'list')
        mv = G.to_py(t)
        other = G.to_py(('mv', an, canon, [[0]] * len(canon), False, 'list'))
        w = alg.graph(other, mv)
        try:
            cur = G.js_decode(w.subjects, w.key2idx)[1][1]
        except (AssertionError, ValueError) as e:
            viol('payload-shape', f'the payload of {str(t)[:200]} in {an} is not what the front end reads: {type(e).__name__} {e}'[:400], algebra=an, tree=str(t)); continue
        steps = rng.randint(1, 3)
        for _ in range(steps):
            new = [x if rng.random() < 0.4 else rng.randint(-9, 9) for x in cur]
            before = G.to_coq(('mv', an, t[2], [[G.num_of(x)] for x in mv._values], False, 'list'))[4:]
            idxs = w.draggable_points_idxs
            if c % 2 == 0 or 1 not in idxs:
                w.inplacereplace(w.pre_subjects, [(1, {'mv': new})])
                R.count('drag=inplacereplace')
            else:
                pts = [G.js_decode(w.subjects, w.key2idx)[i] for i in idxs]
                rep = [{'mv': list(p[1])} for p in pts]
                rep[idxs.index(1)] = {'mv': new}
                w.draggable_points = rep
                R.count('drag=traitlet')
            try:
                after = [[G.num_of(x)] for x in mv._values]
            except ValueError as e:
                viol('drag-writeback', f'after reporting {new} (what the front end read from the payload, partly changed) for the multivector {str(t)[:200]} in {an} '
                                       f'the stored coefficients are {list(mv._values)}: {e}'[:500], algebra=an, mv=str(t), reported=[float(x) for x in new])
                break
            inp.append({'check': f'gmv_eqb (inplace_one {G.czl(canon)} {before} {G.czl(new)}) (mkG {G.czl(t[2])} {G.clist([G.czl(x) for x in after])} false)',
                        'meta': {'what': 'inplacereplace', 'algebra': an, 'tree': str(t), 'impl': str(after)}})
            R.case(('drag', an, str(t), str(new)), True)
            d = G.js_decode(w.get_subjects(), w.key2idx)[1][1]
            want = [new[i] if canon[i] in t[2] else 0 for i in range(len(canon))]
            if d != want:
                viol('drag-writeback', f'after reporting {new} for the multivector with keys {t[2]} in {an} the front end would be sent {d}, expected {want}',
                     algebra=an, mv=str(t), reported=new)
            cur = d
    # several draggable points and a callable that depends on them; the front end reports that ONE of them moved (every draggable point
    # comes back as a full multivector): the moved point is overwritten in place and the subjects SENT afterwards (the `subjects`
    # trait, not a fresh evaluation) are those of the new state, dependent callables included
    for c in range(8 if tier == 'quick' else 100):
        an = rng.choice(['P2', 'P3', 'P2c'] if 'P2c' in pool else ['P2', 'P3'])
        alg = pool[an]
        canon = G.CANON[an]
        npts = rng.choice((2, 3))
        pts = [alg.vector([float(rng.randint(1, 5)) for _ in range(alg.d)]).dual() for _ in range(npts)]
        dep = lambda: pts[0] & pts[-1]
        w = alg.graph(0xFF0000, *pts, dep)
        idxs = list(w.draggable_points_idxs)
        R.count('drag=several-points'); R.case(('drag-several', an, npts, c), True)
        if len(idxs) != npts:
            continue            # not all recognised as draggable points in this algebra: nothing to move
        def dense(m):
            full = [0.0] * len(canon)
            for k, v in m.items():
                full[w.key2idx[k]] = float(v)
            return full
        moved = rng.randrange(npts)
        newp = alg.vector([float(rng.randint(-5, 5)) for _ in range(alg.d)]).dual()
        w.draggable_points = [{'mv': dense(newp) if i == moved else dense(p)} for i, p in enumerate(pts)]
        try:
            sent = G.js_decode(w.subjects, w.key2idx)
            want = [0xFF0000] + [('E', [G.num_of(v) for v in dense(newp if i == moved else p)]) for i, p in enumerate(pts)]
            jn = (newp if moved == 0 else pts[0]) & (newp if moved == npts - 1 else pts[-1])
            want.append(('E', [G.num_of(v) for v in dense(jn)]))
            stored_ok = dense(pts[moved]) == dense(newp)
        except (AssertionError, ValueError) as e:
            viol('payload-shape', f'after a drag of point {moved} of {npts} in {an}: {type(e).__name__} {e}'[:300], algebra=an); continue
        if not stored_ok or sent != want:
            viol('drag-writeback', f'{npts} draggable points and a callable depending on them in {an}; the front end reported that point {moved} moved to {dense(newp)}: '
                                   f'the point object now holds {dense(pts[moved])}, the subjects sent are {str(sent)[:300]}, expected {str(want)[:300]}',
                 algebra=an, moved=moved, points=[dense(p) for p in pts])
    # the front end's own code (toElement / decode extracted from graph.js, executed by node) must decode every payload to
    # what the hand-made mirror of it (tools/graphlib.py, Model/Graph.v) computed: ties the trusted re-modelling to the JS
    real = G.node_decode([(sj, k2) for sj, k2, _, _, _ in js_jobs], kv.REPO) if js_jobs else []
    if real is None:
        R.notes.append('node is not available: graph.js was not executed, the hand-made mirror of decode/toElement is trusted (and pinned)')
    else:
        def num_eq(a, b):
            if isinstance(a, dict) and isinstance(b, dict):
                return set(a) == set(b) and all(num_eq(a[k], b[k]) for k in a)
            if isinstance(a, list) and isinstance(b, list):
                return len(a) == len(b) and all(num_eq(x, y) for x, y in zip(a, b))
            if isinstance(a, (int, float)) and isinstance(b, (int, float)):
                return float(a) == float(b)
            return a == b
        for (sj, k2, mirror, an, tree), got in zip(js_jobs, real):
            R.count('graph.js executed by node'); R.case(('js', an, tree), True)
            if 'ok' not in got or not num_eq(got['ok'], mirror):
                viol('frontend-decode', f'kingdon/graph.js (run by node) decodes the payload of {tree[:200]} in {an} to {str(got)[:200]}, '
                                        f'the mirror of it the model is built on gives {str(mirror)[:200]}', algebra=an, tree=tree)
    cases = enc + dec + k2i + inp + idx
    bad, shown = kv.run_cases('C20', cases, imports='Model.Util Model.Graph')
    for i in bad:
        m = cases[i]['meta']
        R.violation({'clause': 'model-' + m['what']}, {'algebra': m['algebra'], 'tree': m['tree'], 'impl': m['impl'], 'model': shown.get(i)},
                    f'{m["what"]} for {m["tree"][:200]} in {m["algebra"]}: implementation {m["impl"][:200]} differs from Model/Graph.v')


REPLAY_BY_RERUN = True      # inputs derive from the seed recorded in the replay file: the recorded run is regenerated


def replay(R, rec):
    return kv.replay_by_rerun(__import__('sys').modules[__name__], rec['property'], rec)
