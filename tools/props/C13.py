"""C13 — algebra options change speed, never results.
Differential correspondence on the real kingdon: the product of option settings {cse} x {graded} x
{codegen_symbolcls: built-in rational polynomials / sympy.Symbol} x {wrapper: None / a semantics-
preserving one} for every operator on grade-block key patterns (valid in all modes); every option
combination must return the element the default options return.  In graded mode every operation that
succeeds in the default mode must succeed and every result must store complete grades.
The theorem side: the generated polynomial is independent of the coefficient structure used for code
generation (naturality, Props/C13.v); the printers/builders the options select are glue validated here.
Clause generated-code (tools/genvalidate.py, Model/Slp.v, Theory/Slp.v): the TEXT of the generated function - whatever cse /
graded / symbol class printed it - is parsed into a straight-line program and validated by Coq on indeterminates against the
model operator; one `true` holds for all inputs in all commutative rings (C13_generated_code_all_inputs)."""
import warnings, itertools
from fractions import Fraction
import kv, algs, opcorr as oc

RULE = ('option combinations {cse} x {graded} x {symbolcls} x {wrapper} (16) x signatures d<=2 (all) and d=3 (sampled) x operators '
        '(29, incl. composite/inverse/series) x grade-block operands (random grades, Fraction values; floats for sqrt); each case = one '
        'operator call under one option combination compared with the default options.  Non-trivial = non-default options and a '
        'non-empty result; distinct = distinct (signature, options, operator, grades).  '
        'Clause generated-code: random algebras d = 1..4 (every signature incl. degenerate, start index, custom bases, 2DPGA/3DPGA) x '
        '{cse} x {graded} x {symbolcls default/sympy} x operators gp op ip lc rc sp cp acp rp add sub sw proj neg reverse involute '
        'conjugate hodge unhodge normsq x random key patterns in random storage order (grade blocks in graded mode): the source text '
        'of the generated function (checked to compile to the code object that runs) is translated to an SLP and '
        '`validate (model op A) keys_in keys_out program` is evaluated by Coq on polynomial indeterminates (exact level: same keys, '
        'same order, == polynomials; sw proj normsq: blade by blade, absent = 0) - each case holds for ALL inputs.  A failed '
        'validation is reported only with a concrete integer input on which the real function and the model differ blade by '
        'blade; a mere difference of stored keys is a fidelity note.  Non-trivial = non-empty result; distinct = distinct '
        '(algebra, options, operator, key tuples).  '
        'Clause generated-code, operators that divide (generated_code_div): random algebras d = 1..4 (as above, not graded) x {cse} x {symbolcls default / sympy for d <= 3} x inv on '
        'random key patterns (sparse <= 3 blades, one grade, scalar+bivector, full even, all blades for d <= 3; random storage order) and div '
        'with <= 3 x <= 3 blades; patterns whose generation raises ZeroDivisionError (identically zero denominator, degenerate signatures) '
        'are counted and compared with the model denominator (zero polynomial), not validated.  The text (d = 1/(...), a**(-n), cse lines) '
        'is translated to the SLP with division of Model/SlpDiv.v and `validate_inv / validate_div A keys keys_out program` is evaluated by '
        'Coq: fractions of polynomials, cross-multiplied against the closed-form numerator / denominator of Model/Inverse.v, output keys = '
        'non-zero blades of the symbolic numerator - each `true` holds for ALL operands in every field-like coefficient ring.  A failed '
        'validation is reported only with a concrete Fraction input on which the real function differs blade by blade from the model '
        'evaluated over Qc (and x * result from kingdon itself is shown); otherwise a fidelity note.')
TRUSTED = ['kingdon with default options is the reference; the model enters through the naturality theorem only',
           'clause generated-code: tools/genvalidate.py (python ast -> SLP of Model/Slp.v, ~100 lines, fail closed; the text is checked '
           'to compile to the code object the function runs) and python evaluating + - * ** unary-minus on numbers as the ring '
           'operations; sympy.cse, the sympy printer and KingdonPrinter are NOT trusted for a validated function',
           'clause generated-code for inv / div: tools/genvalidate.py program_div_of (python ast -> SLP with division of Model/SlpDiv.v, the '
           'same statement shape, plus EXPR / EXPR and EXPR ** (-n) read as 1 / EXPR ** n; fail closed) and python evaluating / on Fractions as '
           'the division of the coefficient field (ZeroDivisionError on a zero divisor)']
ASSUMPTIONS = ['Fraction arithmetic exact; results involving sqrt / float constants compared to 1e-9 relative']

OPS2 = ['gp', 'sw', 'cp', 'acp', 'ip', 'sp', 'lc', 'rc', 'op', 'rp', 'proj', 'add', 'sub', 'div']
OPS1 = ['inv', 'neg', 'reverse', 'involute', 'conjugate', 'sqrt', 'polarity', 'unpolarity', 'hodge', 'unhodge', 'normsq',
        'outerexp', 'outersin', 'outercos', 'outertan']


def same(a, b, tol=1e-9):
    da, db = oc.coeff_map(a), oc.coeff_map(b)
    for k in set(da) | set(db):
        u, v = da.get(k, 0), db.get(k, 0)
        if u == v:
            continue
        try:
            if abs(complex(u) - complex(v)) > tol * max(1.0, abs(complex(u)), abs(complex(v))):
                return False
        except Exception:
            return False
    return True


def run(R, tier):
    warnings.filterwarnings('ignore')
    import sympy
    rng = R.rng

    def wrapper(f):
        def g(*a): return f(*a)
        g.__name__ = f.__name__
        return g
    combos = list(itertools.product((True, False), (False, True), (None, sympy.Symbol), (None, wrapper)))
    # corpus first: the listed known findings are replayed deterministically on the current tree
    g = algs.make_impl({'sig': [1, 0, 0], 'graded': True})
    B = g.bivector([1, 2, 3])
    P = B * B
    R.case(('corpus', 'F5'), True)
    if tuple(P.keys()) != tuple(g.indices_for_grades[P.grades]):
        R.violation({'clause': 'graded-incomplete', 'graded': True, 'null_generator': True},
                    {'signature': [1, 0, 0], 'steps': 'B = bivector([1,2,3]); B*B', 'keys': list(P.keys())},
                    'graded mode: B*B for a bivector B in Algebra(signature=[1,0,0], graded=True) stores incomplete grades')
    try:
        P + B
    except ValueError:
        R.violation({'clause': 'fails-under-options', 'graded': True, 'null_generator': True},
                    {'signature': [1, 0, 0], 'steps': 'B = bivector([1,2,3]); (B*B)+B'},
                    'graded mode: (B*B)+B raises ValueError in Algebra(signature=[1,0,0], graded=True), succeeds in default mode')
    sigs = []
    for d in (1, 2):
        sigs += algs.all_sigs(d)
    sigs += [[rng.choice((1, -1, 0)) for _ in range(3)] for _ in range(2 if tier == 'quick' else 12)]
    if tier == 'quick':
        sigs = rng.sample(sigs[:12], 5) + sigs[12:]
    for sig in sigs:
        d = len(sig)
        spec = {'sig': sig}
        base = algs.make_impl(spec)
        plan = []
        ops = [(o, 2) for o in OPS2] + [(o, 1) for o in OPS1]
        rng.shuffle(ops)
        for op, ar in ops[:(10 if tier == 'quick' else 29)]:
            grades = []
            vals = []
            for _ in range(ar):
                if op == 'sqrt':
                    gs = (0, rng.randint(1, d)) if d >= 1 else (0,)
                else:
                    gs = tuple(sorted(rng.sample(range(d + 1), rng.randint(1, min(2, d + 1)))))
                n = len(base.indices_for_grades[gs])
                if op == 'sqrt':
                    v = [float(rng.randint(5, 9))] + [float(rng.randint(0, 2)) if i == 0 else 0.0 for i in range(n - 1)]
                else:
                    v = [Fraction(rng.randint(-4, 4) or 1, rng.randint(1, 2)) for _ in range(n)]
                grades.append(gs); vals.append(v)
            plan.append((op, grades, vals))

        def call(alg, op, grades, vals):
            try:
                mvs = [alg.multivector(list(v), grades=g) for g, v in zip(grades, vals)]
                r = getattr(alg, op)(*mvs)
                return ('ok', [(int(k), v) for k, v in zip(r.keys(), r.values())], r)
            except ZeroDivisionError:
                return ('zde', None, None)
            except Exception as e:  # noqa
                return ('err', f'{type(e).__name__}: {e}'[:200], None)
        ref = {i: call(base, *p) for i, p in enumerate(plan)}
        for cse, graded, symcls, wrap in combos:
            if (cse, graded, symcls, wrap) == (True, False, None, None):
                continue
            if tier == 'quick' and rng.random() < 0.55:
                continue
            opts = dict(cse=cse)
            if symcls is not None: opts['codegen_symbolcls'] = symcls
            if wrap is not None: opts['wrapper'] = wrap
            s2 = dict(spec, graded=graded)
            alg = algs.make_impl(s2, **opts)
            oname = f'cse={cse},graded={graded},symbolcls={"sympy" if symcls else "default"},wrapper={"set" if wrap else "None"}'
            for i, (op, grades, vals) in enumerate(plan):
                got = call(alg, op, grades, vals)
                R.count('options:' + oname); R.count('op=' + op)
                R.case((tuple(sig), oname, op, tuple(grades)), got[0] == 'ok' and bool(got[1]),
                       sample={'signature': sig, 'options': oname, 'op': op, 'grades': [list(g) for g in grades],
                               'values': [[str(x) for x in v] for v in vals], 'result': str(got[1])[:160]})
                r0 = ref[i]
                cls = {'clause': None, 'graded': graded, 'null_generator': 0 in sig, 'cse': cse, 'symbolcls': 'sympy' if symcls else 'default',
                       'wrapper': bool(wrap)}
                rep = {'signature': sig, 'options': oname, 'op': op, 'grades': [list(g) for g in grades], 'values': [[str(x) for x in v] for v in vals]}
                if r0[0] == 'ok' and got[0] != 'ok':
                    R.violation(dict(cls, clause='fails-under-options'), dict(rep, got=str(got[:2]), default=str(r0[1])[:200]),
                                f'{op} on grades {grades} succeeds with default options but gives {got[:2]} with {oname} in Algebra(signature={sig})')
                    continue
                if r0[0] != 'ok':
                    if got[0] == 'ok' and r0[0] == 'err':
                        pass
                    continue
                if not same(got[1], r0[1]):
                    R.violation(dict(cls, clause='differs-under-options'), dict(rep, got=str(got[1])[:300], default=str(r0[1])[:300]),
                                f'{op} on grades {grades} in Algebra(signature={sig}): {oname} returns {str(got[1])[:200]}, default options return {str(r0[1])[:200]}')
                    continue
                if graded:
                    r = got[2]
                    want = tuple(alg.indices_for_grades[r.grades]) if r.keys() else ()
                    if tuple(r.keys()) != want:
                        R.violation(dict(cls, clause='graded-incomplete'), dict(rep, keys=list(r.keys()), expected=list(want)),
                                    f'graded mode: {op} on grades {grades} in Algebra(signature={sig}) stores keys {tuple(r.keys())}, complete grades would be {want}')


    # ---- the outer-exponential family in 4-D (series code with float constants): symbol class and cse must not matter ----
    for it in range(4 if tier == 'quick' else 60):
        sig = [rng.choice((1, -1, 1, 0)) for _ in range(4)]
        blade = rng.choice([3, 5, 6, 9, 10, 12])
        items = {0: rng.choice((1.5, 0.75, -1.25, 2.0))}
        if it % 2:
            items[blade] = rng.choice((0.5, -0.25, 1.0))
        outs = {}
        for oname, opts in (('default', {}), ('symbolcls=sympy', {'codegen_symbolcls': sympy.Symbol}), ('cse=False', {'cse': False})):
            alg = algs.make_impl({'sig': sig}, **opts)
            x = alg.multivector(dict(items))
            for op in ('outerexp', 'outersin', 'outercos', 'outertan'):
                try:
                    r = getattr(x, op)()
                    outs[oname, op] = ('ok', [(int(k), float(v)) for k, v in zip(r.keys(), r.values())])
                except Exception as e:  # noqa
                    outs[oname, op] = ('err', type(e).__name__)
        for (oname, op), got in outs.items():
            if oname == 'default':
                continue
            r0 = outs['default', op]
            R.count('options:series-4d:' + oname); R.case(('series4d', tuple(sig), oname, op, tuple(items)), True)
            if got[0] != r0[0] or (got[0] == 'ok' and not same(got[1], r0[1])):
                R.violation({'clause': 'differs-under-options', 'graded': False, 'null_generator': 0 in sig, 'symbolcls': oname},
                            {'signature': sig, 'options': oname, 'op': op, 'x': {str(k): v for k, v in items.items()}, 'got': str(got), 'default': str(r0)},
                            f'{op} of {items} in Algebra(signature={sig}): {oname} returns {got}, default options return {r0}')
    # ---- wide operands in 4-D (long generated functions): cse on / off and the defining composition ----
    for it in range(3 if tier == 'quick' else 40):
        sig = [rng.choice((1, -1)) for _ in range(4)]
        outs = {}
        shapes = [((0, 2, 4), (1, 2, 3)), ((0, 2, 4), (0, 1, 2, 3, 4)), ((1, 3), (1, 2, 3))]
        gx, gy = shapes[it % len(shapes)]
        vals = None
        for oname, opts in (('default', {}), ('cse=False', {'cse': False})):
            alg = algs.make_impl({'sig': sig}, **opts)
            if vals is None:
                vals = ([rng.randint(-5, 5) or 1 for _ in alg.indices_for_grades[gx]], [rng.randint(-5, 5) or 2 for _ in alg.indices_for_grades[gy]])
            X = alg.multivector(list(vals[0]), grades=gx); Y = alg.multivector(list(vals[1]), grades=gy)
            for op, f, comp in (('sw', lambda a, b: a >> b, lambda a, b: a * b * ~a), ('proj', lambda a, b: a @ b, lambda a, b: (a | b) * ~b)):
                R.count('options:wide-4d:' + oname); R.case(('wide4d', tuple(sig), oname, op, gx, gy), True)
                try:
                    r = f(X, Y); c = comp(X, Y)
                except Exception as e:  # noqa  (a generated function that raises: NameError of a lost cse assignment, ...)
                    R.violation({'clause': 'fails-under-options', 'graded': False, 'null_generator': False, 'cse': 'cse' not in opts},
                                {'signature': sig, 'options': oname, 'op': op, 'grades': [list(gx), list(gy)], 'values': [list(vals[0]), list(vals[1])],
                                 'got': f'{type(e).__name__}: {e}'[:200]},
                                f'{op} of grades {gx} on grades {gy} in Algebra(signature={sig}) with {oname} raises {type(e).__name__}: {str(e)[:120]}')
                    continue
                outs[oname, op] = [(int(k), v) for k, v in zip(r.keys(), r.values())]
                if not same(outs[oname, op], [(int(k), v) for k, v in zip(c.keys(), c.values())]):
                    R.violation({'clause': 'differs-under-options', 'graded': False, 'null_generator': False, 'cse': 'cse' not in opts},
                                {'signature': sig, 'options': oname, 'op': op, 'grades': [list(gx), list(gy)], 'values': [list(vals[0]), list(vals[1])]},
                                f'{op} of grades {gx} on grades {gy} in Algebra(signature={sig}) with {oname} differs from its defining composition')
    # ---- graded mode: the basis blades handed out by alg.blades are the blades of their name ----
    for it in range(4 if tier == 'quick' else 40):
        d = rng.choice((2, 3, 4, 4))
        sig = [rng.choice((1, -1, 0)) for _ in range(d)]
        g2 = algs.make_impl({'sig': sig, 'graded': True})
        for nm, k in g2.canon2bin.items():
            b = g2.blades[nm]
            R.count('graded-blades'); R.case(('graded-blade', tuple(sig), nm), True)
            got = {int(kk): v for kk, v in zip(b.keys(), b.values()) if v != 0}
            if got != {int(k): 1}:
                R.violation({'clause': 'differs-under-options', 'graded': True, 'null_generator': 0 in sig, 'blades': True},
                            {'signature': sig, 'options': 'graded=True', 'blade': nm, 'got': str(got)},
                            f'graded mode: alg.blades.{nm} in Algebra(signature={sig}, graded=True) is {got} (keys: coefficient), expected {{{k}: 1}}')
    # ---- graded mode: grade selection / accessors of a multivector that no longer stores whole grades (x.filter() drops blades) ----
    for it in range(6 if tier == 'quick' else 80):
        d = rng.choice((2, 3, 3, 4))
        sig = [rng.choice((1, -1, 0)) for _ in range(d)]
        g2, g0 = algs.make_impl({'sig': sig, 'graded': True}), algs.make_impl({'sig': sig})
        gs = tuple(sorted(rng.sample(range(d + 1), rng.randint(1, d + 1))))
        ks = list(g2.indices_for_grades[gs])
        vals = [rng.choice((0, 0, rng.randint(1, 9), -rng.randint(1, 9))) for _ in ks]
        if not any(vals):
            vals[0] = 3
        xg, x0 = g2.multivector(keys=tuple(ks), values=list(vals)), g0.multivector(keys=tuple(ks), values=list(vals))
        yg, y0 = xg.filter(), x0.filter()
        R.count('graded-incomplete'); R.case(('graded-incomplete', tuple(sig), gs, tuple(vals)), True)
        for g in range(d + 1):
            try:
                a_, b_ = yg.grade(g), y0.grade(g)
                got = {int(k): v for k, v in zip(a_.keys(), a_.values()) if v != 0}
                want = {int(k): v for k, v in zip(b_.keys(), b_.values()) if v != 0}
                stray = [int(k) for k in a_.keys() if bin(int(k)).count('1') != g]
            except Exception as e:  # noqa
                got, want, stray = f'{type(e).__name__}: {e}'[:80], None, []
            if got != want or stray:
                R.violation({'clause': 'differs-under-options', 'graded': True, 'null_generator': 0 in sig, 'incomplete': True},
                            {'signature': sig, 'options': 'graded=True', 'grades': list(gs), 'values': vals, 'grade': g},
                            f'graded mode: x.filter().grade({g}) for x = {dict(zip(ks, vals))} in Algebra(signature={sig}, graded=True) is {got}'
                            f'{" with keys of other grades " + str(stray) if stray else ""}; default mode gives {want}')
                break
    # ---- graded mode: functions registered with symbolic=True of one, two and three arguments, called with symbolic operands ----
    import sympy as _sp
    for it in range(4 if tier == 'quick' else 40):
        d = rng.choice((2, 3))
        sig = [0] + [rng.choice((1, -1)) for _ in range(d)] if it % 2 == 0 else [rng.choice((1, -1, 0)) for _ in range(d + 1)]
        gsel = [tuple(sorted(rng.sample(range(len(sig) + 1), rng.randint(1, 2)))) for _ in range(3)]
        outs = {}
        for graded in (False, True):
            A_ = algs.make_impl({'sig': sig, 'graded': graded})
            null_ = A_.blades[list(A_.canon2bin)[1]]        # the first generator (null in half of the algebras)
            f1 = A_.register(symbolic=True)(lambda x: x * null_)
            f2 = A_.register(symbolic=True)(lambda x, y: (x * y) ^ null_)
            f3 = A_.register(symbolic=True)(lambda a_, b_, c_: (a_ + b_) * c_)
            xs = [A_.multivector(name=nm_, grades=g_) for nm_, g_ in zip('uvw', gsel)]
            res = {}
            for label, call in (('f1(u) = u * e_first', lambda: f1(xs[0])), ('f2(u, v) = (u * v) ^ e_first', lambda: f2(xs[0], xs[1])),
                                ('f3(u, u, w) = (u + u) * w', lambda: f3(xs[0], xs[0], xs[2])), ('f3(u, u, e_first)', lambda: f3(xs[0], xs[0], null_))):
                try:
                    r_ = call()
                    res[label] = ('ok', {int(k_): _sp.expand(_sp.sympify(v_)) for k_, v_ in zip(r_.keys(), r_.values())}, tuple(int(k_) for k_ in r_.keys()),
                                  tuple(A_.indices_for_grades[r_.grades]) if graded else None)
                except Exception as e:  # noqa
                    res[label] = ('err', f'{type(e).__name__}: {e}'[:100], None, None)
            outs[graded] = res
        for label in outs[False]:
            R.count('graded-registered-symbolic'); R.case(('graded-registered', tuple(sig), tuple(gsel), label), True)
            d0, g0 = outs[False][label], outs[True][label]
            if d0[0] != 'ok':
                continue
            nz = lambda m_: {k_: v_ for k_, v_ in m_.items() if v_ != 0}
            bad_ = None
            if g0[0] != 'ok':
                bad_ = f'raises {g0[1]} in graded mode'
            elif nz(g0[1]) != nz(d0[1]):
                bad_ = f'graded result {nz(g0[1])} differs from the default-mode result {nz(d0[1])}'
            elif g0[2] != g0[3]:
                bad_ = f'graded result stores the keys {g0[2]}, complete grades are {g0[3]}'
            if bad_:
                R.violation({'clause': 'differs-under-options', 'graded': True, 'null_generator': 0 in sig, 'registered': True},
                            {'signature': sig, 'options': 'graded=True', 'function': label, 'grades': [list(g_) for g_ in gsel]},
                            f'graded mode: the function {label} registered with symbolic=True, called with symbolic operands of grades {gsel} in Algebra(signature={sig}): {bad_}')
    # ---- options x (lists of elements with equally many coefficients on different blades; inverses of non-simple bivectors in 4-D) ----
    def wrap_(f):
        def g(*a_): return f(*a_)
        g.__name__ = f.__name__
        return g
    for it in range(3 if tier == 'quick' else 30):
        sig3 = [rng.choice((1, -1)) for _ in range(3)]
        base = algs.make_impl({'sig': sig3})
        mkv = lambda A_, ks_, vs_: A_.multivector(keys=tuple(ks_), values=list(vs_))
        vk, bk = list(base.indices_for_grades[(1,)]), list(base.indices_for_grades[(2,)])
        elems = [(vk, [float(rng.randint(1, 5)) for _ in vk]), (vk, [float(rng.randint(-5, -1)) for _ in vk]), (bk, [float(rng.randint(1, 5)) for _ in bk])]
        rot = ([0] + bk, [float(rng.randint(1, 4)) for _ in range(4)])
        for oname, opts in (('wrapper', {'wrapper': wrap_}), ('graded', {'graded': True}), ('wrapper+graded', {'wrapper': wrap_, 'graded': True}), ('cse=False+wrapper', {'wrapper': wrap_, 'cse': False})):
            A_ = algs.make_impl({'sig': sig3, **({'graded': True} if opts.get('graded') else {})}, **{k_: v_ for k_, v_ in opts.items() if k_ != 'graded'})
            for sym_, f_ in (('>>', lambda r_, l_: r_ >> l_), ('*', lambda r_, l_: r_ * l_), ('+', lambda r_, l_: [r_ + e_ for e_ in l_] if False else r_ * l_)):
                R.count('options-list-operand'); R.case(('opt-list', tuple(sig3), oname, sym_, it), True)
                try:
                    got_ = f_(mkv(A_, *rot), [mkv(A_, *e_) for e_ in elems])
                    want_ = [f_(mkv(base, *rot), mkv(base, *e_)) for e_ in elems]
                    cm = lambda m_: {int(k_): float(v_) for k_, v_ in zip(m_.keys(), m_.values()) if v_ != 0}
                    ok_ = len(got_) == len(want_) and all(cm(g_) == cm(w_) for g_, w_ in zip(got_, want_))
                    shown_ = [cm(g_) for g_ in got_], [cm(w_) for w_ in want_]
                except Exception as e:  # noqa
                    ok_, shown_ = False, (f'{type(e).__name__}: {e}'[:100], None)
                if not ok_:
                    R.violation({'clause': 'differs-under-options', 'graded': bool(opts.get('graded')), 'null_generator': False, 'list_operand': True},
                                {'signature': sig3, 'options': oname, 'op': sym_, 'elements': elems, 'rotor': rot},
                                f'R {sym_} [two vectors, a bivector] with {oname} in Algebra(signature={sig3}) gives {shown_[0]}, default options give {shown_[1]} '
                                f'(R = {dict(zip(*rot))})')
    for it in range(1 if tier == 'quick' else 10):
        sig4 = [rng.choice((1, -1)) for _ in range(4)]
        a_, b_ = float(rng.randint(1, 3)), float(rng.randint(2, 5))
        outs_ = {}
        for graded in (False, True):
            A_ = algs.make_impl({'sig': sig4, 'graded': graded})
            bk = list(A_.indices_for_grades[(2,)])
            B_ = A_.multivector(keys=tuple(bk), values=[a_ if k_ == 3 else (b_ if k_ == 12 else 0.0) for k_ in bk])       # a e12 + b e34: not a blade
            v_ = A_.multivector(keys=tuple(A_.indices_for_grades[(1,)]), values=[1.0, 2.0, 3.0, 4.0])
            for label, call in (('B.inv()', lambda: B_.inv()), ('v / B', lambda: v_ / B_), ('B * B.inv()', lambda: B_ * B_.inv())):
                try:
                    r_ = call()
                    outs_[graded, label] = {int(k_): round(float(x_), 9) for k_, x_ in zip(r_.keys(), r_.values()) if abs(x_) > 1e-12}
                except Exception as e:  # noqa
                    outs_[graded, label] = f'{type(e).__name__}'
        for label in ('B.inv()', 'v / B', 'B * B.inv()'):
            R.count('options-nonsimple-inverse'); R.case(('opt-inv', tuple(sig4), label, it), True)
            if outs_[True, label] != outs_[False, label]:
                R.violation({'clause': 'differs-under-options', 'graded': True, 'null_generator': False, 'inverse': True},
                            {'signature': sig4, 'options': 'graded=True', 'op': label, 'B': [a_, b_]},
                            f'{label} for the non-simple bivector B = {a_} e12 + {b_} e34 (stored as a whole grade) in Algebra(signature={sig4}): graded mode gives {outs_[True, label]}, '
                            f'default mode {outs_[False, label]}')
    # ---- graded mode, operands whose coefficients are a mix of sympy symbols, numbers and zeros (any metric): some coefficients of a
    #      grade of the result vanish identically, the grade is stored whole all the same, and the element is that of the default mode ----
    for it in range(8 if tier == 'quick' else 100):
        d = rng.choice((2, 3))
        sig = [rng.choice((1, -1)) for _ in range(d)] if it % 2 == 0 else [rng.choice((1, -1, 0)) for _ in range(d)]
        syms_ = list(_sp.symbols('x y z'))
        def mixed(n_):
            return [rng.choice([syms_[i_ % 3], 0, 0, 1, syms_[(i_ + 1) % 3] + 1]) for i_ in range(n_)]
        g1, g2 = rng.choice(((1,), (2,), (1,), (0, 2))), rng.choice(((1,), (1,), (2,)))
        outs_ = {}
        vals1 = vals2 = None
        for graded in (False, True):
            A_ = algs.make_impl({'sig': sig, 'graded': graded})
            k1, k2 = A_.indices_for_grades[g1], A_.indices_for_grades[g2]
            vals1 = vals1 or mixed(len(k1)); vals2 = vals2 or mixed(len(k2))
            if not any(getattr(v_, 'free_symbols', None) for v_ in vals1 + vals2):
                vals1[0] = syms_[0]
            u_ = A_.multivector(keys=tuple(k1), values=list(vals1)); v_ = A_.multivector(keys=tuple(k2), values=list(vals2))
            for sym_, f_ in (('^', lambda: u_ ^ v_), ('*', lambda: u_ * v_), ('|', lambda: u_ | v_), ('(u ^ v) | v', lambda: (u_ ^ v_) | v_), ('u * v - v * u', lambda: u_ * v_ - v_ * u_)):
                try:
                    r_ = f_()
                    outs_[graded, sym_] = ('ok', {int(k_): _sp.expand(_sp.sympify(x_)) for k_, x_ in zip(r_.keys(), r_.values()) if _sp.expand(_sp.sympify(x_)) != 0},
                                           tuple(int(k_) for k_ in r_.keys()), tuple(A_.indices_for_grades[r_.grades]) if graded else None)
                except Exception as e:  # noqa
                    outs_[graded, sym_] = ('err', f'{type(e).__name__}: {e}'[:100], None, None)
        for sym_ in ('^', '*', '|', '(u ^ v) | v', 'u * v - v * u'):
            R.count('graded-mixed-symbolic'); R.case(('graded-mixed', tuple(sig), g1, g2, sym_, str(vals1), str(vals2)), True)
            d0, g0 = outs_[False, sym_], outs_[True, sym_]
            if d0[0] != 'ok':
                continue
            bad_ = None
            if g0[0] != 'ok':
                bad_ = f'raises {g0[1]} in graded mode (default mode: {d0[1]})'
            elif g0[1] != d0[1]:
                bad_ = f'graded result {g0[1]} differs from the default-mode result {d0[1]}'
            elif g0[2] != g0[3]:
                bad_ = f'graded result stores the keys {g0[2]}, complete grades are {g0[3]}'
            if bad_:
                R.violation({'clause': 'differs-under-options', 'graded': True, 'null_generator': 0 in sig, 'mixed': True},
                            {'signature': sig, 'options': 'graded=True', 'op': sym_, 'grades': [list(g1), list(g2)], 'values': [str(vals1), str(vals2)]},
                            f'graded mode: {sym_} for u = {vals1} on grades {g1}, v = {vals2} on grades {g2} in Algebra(signature={sig}): {bad_}')
                break
    # ---- graded sandwich by an even element that is not a versor, 5-D (the result has more grades than the subject) ----
    for it in range(1 if tier == 'quick' else 8):
        sig5 = [1, 1, 1, 1, rng.choice((1, -1))]
        xv = [float(rng.randint(1, 4)) for _ in range(4)]
        yv = [float(rng.randint(1, 5)) for _ in range(5)]
        outs_ = {}
        for graded in (False, True):
            A_ = algs.make_impl({'sig': sig5, 'graded': graded})
            if graded:
                ek = list(A_.indices_for_grades[(0, 2, 4)])
                X_ = A_.multivector(keys=tuple(ek), values=[dict(zip((0, 3, 12, 15), xv)).get(k_, 0.0) for k_ in ek])
            else:
                X_ = A_.multivector(keys=(0, 3, 12, 15), values=list(xv))
            Y_ = A_.multivector(keys=tuple(A_.indices_for_grades[(1,)]), values=list(yv))
            try:
                r_ = X_ >> Y_
                outs_[graded] = {int(k_): round(float(v_), 9) for k_, v_ in zip(r_.keys(), r_.values()) if abs(v_) > 1e-12}
            except Exception as e:  # noqa
                outs_[graded] = f'{type(e).__name__}: {e}'[:100]
        R.count('options-graded-sandwich-5d'); R.case(('opt-sw5', tuple(sig5), tuple(xv), tuple(yv)), True)
        if outs_[True] != outs_[False]:
            R.violation({'clause': 'differs-under-options', 'graded': True, 'null_generator': False, 'sandwich5': True},
                        {'signature': sig5, 'options': 'graded=True', 'x': xv, 'y': yv},
                        f'x >> y for x = {dict(zip(("e", "e12", "e34", "e1234"), xv))} (even, not a versor) and the vector y = {yv} in Algebra(signature={sig5}): '
                        f'graded mode gives {outs_[True]}, default mode {outs_[False]}')
    # ---- graded mode against Model/Graded.v (completion of grades), evaluated in Coq ----
    pool = algs.AlgPool()
    cases = []
    for it in range(40 if tier == 'quick' else 800):
        d = rng.choice((2, 3, 3, 4))
        spec = {'sig': [rng.choice((1, -1, 0, 0)) for _ in range(d)], 'graded': True}
        alg = algs.make_impl(spec)
        gsx = tuple(sorted(rng.sample(range(d + 1), rng.randint(1, 2))))
        gsy = tuple(sorted(rng.sample(range(d + 1), rng.randint(1, 2))))
        x = list(zip(alg.indices_for_grades[gsx], oc.random_values(rng, len(alg.indices_for_grades[gsx]), zero_p=0.15)))
        y = list(zip(alg.indices_for_grades[gsy], oc.random_values(rng, len(alg.indices_for_grades[gsy]), zero_p=0.15)))
        ref_, dfn = pool.ref(spec)
        for op, mop in (('gp', 'ggp'), ('op', 'gop'), ('ip', 'gip'), ('add', 'gadd')):
            mx, my = oc.make_mv(alg, [k for k, _ in x], [v for _, v in x]), oc.make_mv(alg, [k for k, _ in y], [v for _, v in y])
            kind, out = oc.call_impl(alg, op, mx, my)
            R.count('graded-model:' + op); R.case(('graded-model', algs.describe(spec), op, gsx, gsy), True)
            exp = oc.mv_term(out) if kind == 'ok' else '[(99, 99)]'
            chk = f'mv_eqb ({mop} Zops A {oc.mv_term(x)} {oc.mv_term(y)}) {exp}'
            cases.append({'check': algs.with_alg(ref_, chk), 'defs': [dfn], 'show': algs.with_alg(ref_, f'{mop} Zops A {oc.mv_term(x)} {oc.mv_term(y)}', '[]'),
                          'meta': {'spec': spec, 'op': op, 'x': x, 'y': y, 'impl': out if kind == 'ok' else f'{type(out).__name__}: {out}'}})
    bad, shown = kv.run_cases('C13', cases, imports='Model.All Model.Graded')
    for i in bad:
        m = cases[i]['meta']
        R.violation({'clause': 'graded-model', 'graded': True, 'null_generator': 0 in m['spec']['sig']},
                    {'algebra': m['spec'], 'op': m['op'], 'x': m['x'], 'y': m['y'], 'impl': str(m['impl']), 'model': shown.get(i)},
                    f'graded mode: {m["op"]} of {m["x"]}, {m["y"]} in Algebra({algs.describe(m["spec"])}) returns {m["impl"]}, '
                    f'Model/Graded.v (complete grades, default-mode coefficients) gives {shown.get(i)}')

    # ---- clause generated-code: translation validation of the text kingdon generates (all inputs per function) ----
    generated_code(R, tier)
    generated_code_div(R, tier)


def gen_spec(rng):
    d = rng.choice((1, 2, 2, 3, 3, 3, 4, 4, 4))
    r = rng.random()
    if r < 0.05 and d >= 3:
        return {'fromname': '2DPGA' if d == 3 else '3DPGA'}
    sig = [rng.choice((1, -1, 0)) for _ in range(d)]
    if r < 0.25:
        return {'sig': sig, 'basis': algs.random_basis(rng, d)}
    return {'sig': sig, 'start': rng.choice((None, 0, 1))}


def generated_code(R, tier):
    import sympy
    import genvalidate as gv
    rng = R.rng
    pool = algs.AlgPool()
    cases = []
    ops = list(gv.BIN) + list(gv.UN)
    n = 150 if tier == 'quick' else 3000
    wide_every = 38 if tier == 'quick' else 60
    for it in range(n):
        spec = gen_spec(rng)
        graded = rng.random() < 0.25 and 'fromname' not in spec
        if graded:
            spec = dict(spec, graded=True)
        cse = rng.random() < 0.55
        if it < 2 * len(ops):
            op = ops[it % len(ops)]                 # every operator at least twice
        else:                                       # sympy.cse only finds something in the composites: a third of the functions
            op = rng.choice(gv.COMPOSITE) if rng.random() < 0.33 else rng.choice(ops)
        sym = rng.random() < 0.15
        opts = {'cse': cse}
        if sym:
            opts['codegen_symbolcls'] = sympy.Symbol
        alg = algs.make_impl(spec, **opts)       # a fresh algebra: the function is generated now
        d = alg.d
        if sym and op in gv.COMPOSITE and d >= 4:
            continue                              # seconds of sympy per function
        ar = 2 if op in gv.BIN else 1
        if graded:
            keys = [tuple(alg.indices_for_grades[tuple(sorted(rng.sample(range(d + 1), rng.randint(1, d + 1))))]) for _ in range(ar)]
        else:
            keys = [oc.random_keys(rng, alg)[0] for _ in range(ar)]
        if it % wide_every == wide_every - 1:
            # wide results (more than 32 output expressions: d = 5, 6, a sparse left operand and whole grades on the right), cse on
            d = 6
            spec = {'sig': [rng.choice((1, 1, -1, 0)) for _ in range(d)], 'start': None}
            graded, sym, cse = False, False, True
            alg = algs.make_impl(spec, cse=True)
            op = rng.choice(['sw', 'sw', 'sw', 'proj'])        # the operators whose text goes through sympy.cse
            ar = 2
            canon = list(alg.canon2bin.values())
            kx = tuple(rng.sample(canon, rng.randint(2, 4)))
            gs = rng.choice([(2, 3), (3, 4), (2, 3, 4)])
            ky = tuple(alg.indices_for_grades[gs])
            keys = [kx, ky]
            R.count('generated-code:wide')
        oname = {'cse': cse, 'graded': graded, 'symbolcls': 'sympy' if sym else 'default'}
        R.count(f'generated-code:d={d}'); R.count('generated-code:op=' + op); R.count(f'generated-code:cse={cse}')
        R.count(f'generated-code:graded={graded}'); R.count('generated-code:basis=' + algs.kind(spec))
        try:
            c = gv.case(pool, spec, alg, op, keys, oname)
        except gv.Untranslatable as e:
            # fail closed: not validated, not a violation (the sampled comparisons above still cover the function)
            R.count('generated-code:untranslated'); R.count(f'generated-code:untranslated:{op}:{str(e)[:60]}')
            R.notes.append(f'generated-code: {op} {keys} in Algebra({algs.describe(spec)}) {oname} is outside the translated subset: {e}')
            continue
        except Exception as e:  # noqa
            # generating the function raised: with default options (cse on, not graded) the same operator on the same blades must raise too
            try:
                alg0 = algs.make_impl({k: v for k, v in spec.items() if k != 'graded'})
                od0 = getattr(alg0, op)
                od0[tuple(keys[0])] if ar == 1 else od0[tuple(tuple(k) for k in keys)]
                default_raises = None
            except Exception as e0:  # noqa
                default_raises = type(e0).__name__
            R.count('generated-code:generation-raises')
            R.case(('generated-code-raises', algs.describe(spec), tuple(sorted(oname.items())), op, tuple(keys)), True)
            if default_raises != type(e).__name__:
                R.violation({'clause': 'fails-under-options', 'op': op, 'cse': cse, 'graded': graded},
                            {'algebra': spec, 'options': oname, 'op': op, 'keys_in': [list(k) for k in keys], 'error': f'{type(e).__name__}: {e}'[:200]},
                            f'generating {op} for keys {[list(k) for k in keys]} in Algebra({algs.describe(spec)}) with {oname} raised {type(e).__name__}: {e}'[:400]
                            + f'; with default options: {default_raises or "no error"}')
            continue
        m = c['meta']
        R.count('generated-code:validated-functions'); R.count('generated-code:level=' + m['level'])
        if m['lets']:
            R.count('generated-code:with-cse-assignments')
        R.case(('generated-code', algs.describe(spec), tuple(sorted(oname.items())), op, tuple(keys)), bool(m['keys_out']),
               sample={'clause': 'generated-code', 'algebra': algs.describe(spec), 'options': oname, 'op': op,
                       'keys_in': m['keys_in'], 'keys_out': m['keys_out'], 'source': m['source'][:400]})
        cases.append(c)
    bad, _ = kv.run_cases('C13gen', cases, prelude=gv.PRELUDE, imports=gv.IMPORTS, shard=40)
    if not bad:
        return
    # a validation failed: exhibit a concrete integer input on which the real function and the model differ
    wcases, owner = [], []
    for i in bad:
        m = cases[i]['meta']
        for j in range(24):
            hi = 2 if j < 8 else (9 if j < 16 else 60)
            inputs = [[(rng.randint(-hi, hi) or 1) for _ in ks] for ks in m['keys_in']]
            wcases.append(gv.concrete_case(pool, m, inputs)); owner.append(i)
    wbad, wshown = kv.run_cases('C13genw', wcases, prelude=gv.PRELUDE, imports=gv.IMPORTS, shard=48)
    first = {}
    for w in wbad:
        first.setdefault(owner[w], w)
    need = [w for w in list(first.values())[:8] if w not in wshown and wcases[w].get('show')]   # only the first replays are kept
    if need:                                    # the model's value on the witness (run_cases shows only the first few)
        defs = sorted({dfn for w in need for dfn in wcases[w]['defs']})
        outs = kv.eval_terms('C13genw', [wcases[w]['show'] for w in need], prelude=gv.PRELUDE + '\n'.join(defs), imports=gv.IMPORTS)
        if len(outs) == len(need):
            wshown.update({w: o[-1500:] for w, o in zip(need, outs)})
    for i in bad:
        m = cases[i]['meta']
        cls = {'clause': 'generated-code', 'op': m['op'], 'cse': m['options'].get('cse'), 'graded': m['options'].get('graded'),
               'symbolcls': m['options'].get('symbolcls'), 'null_generator': 0 in algs.norm(_named(m['spec']))['sig']}
        if i not in first:
            # same coefficient on every blade at every point tried: only the stored keys / their order differ from the model
            R.fidelity_notes += 1
            R.notes.append(f'generated-code: {m["op"]} {m["keys_in"]} in Algebra({algs.describe(m["spec"])}) {m["options"]}: stored keys '
                           f'{m["keys_out"]} differ from the model\'s, coefficients agree')
            continue
        w = first[i]
        wm = wcases[w]['meta']
        R.violation(cls, {'algebra': m['spec'], 'options': m['options'], 'op': m['op'], 'keys_in': m['keys_in'], 'keys_out': m['keys_out'],
                          'source': m['source'], 'inputs': wm['inputs'], 'impl_output': wm['output'], 'model': wshown.get(w)},
                    f'generated code of {m["op"]} for keys {m["keys_in"]} in Algebra({algs.describe(m["spec"])}) with {m["options"]} does not '
                    f'compute the model operator: on coefficients {wm["inputs"]} the generated function returns {wm["output"]} for keys '
                    f'{m["keys_out"]}, the model gives {str(wshown.get(w))[-300:]}; text: {m["source"][:300]!r}')


def _named(spec):
    if 'fromname' in spec:
        return {'pqr': algs.NAMED[spec['fromname']][0]}
    return spec


def replay_generated(rec):
    """self-contained replay of a generated-code record: regenerate the function, run it on the recorded input,
    compare blade by blade with the model evaluated by Coq.  True = agrees."""
    import sympy
    import genvalidate as gv
    r = rec['replay']
    spec, o = r['algebra'], r['options']
    opts = {'cse': o.get('cse', True)}
    if o.get('symbolcls') == 'sympy':
        opts['codegen_symbolcls'] = sympy.Symbol
    alg = algs.make_impl(spec, **opts)
    pool = algs.AlgPool()
    keys_out, func, src = gv.generate(alg, r['op'], r['keys_in'])
    meta = {'spec': spec, 'op': r['op'], 'keys_in': r['keys_in'], 'keys_out': list(keys_out), 'func': func, 'level': 'coefficient'}
    bad, _ = kv.run_cases('C13genr', [gv.concrete_case(pool, meta, r['inputs'])], prelude=gv.PRELUDE, imports=gv.IMPORTS)
    return not bad


REPLAY_BY_RERUN = False     # generated-code records are self-contained; every other record is replayed by regenerating the recorded run (same seed)


def replay(R, rec):
    if (rec.get('class') or {}).get('clause') == 'generated-code' and 'inputs' in (rec.get('replay') or {}):
        if (rec.get('replay') or {}).get('op') in ('inv', 'div'):
            return replay_generated_div(rec)
        return replay_generated(rec)
    return kv.replay_by_rerun(__import__('sys').modules[__name__], rec['property'], rec)


# ---------------------------------------------------------------------------------------------------------------------------
# clause generated-code for the operators that DIVIDE: alg.inv[keys], alg.div[keys_x, keys_y]  (Model/SlpDiv.v, Theory/SlpDiv.v)
def _div_pattern(rng, alg, style):
    d = alg.d
    canon = list(alg.canon2bin.values())
    if style == 'sparse':
        ks = rng.sample(canon, rng.randint(1, min(len(canon), 3)))
    elif style == 'grade':
        ks = list(alg.indices_for_grade[rng.randrange(d + 1)])
    elif style == 'rotor':
        ks = [k for g in (0, 2) if g <= d for k in alg.indices_for_grade[g]]
    elif style == 'even':
        ks = [k for g in range(0, d + 1, 2) for k in alg.indices_for_grade[g]]
    else:
        ks = canon[:]
    if rng.random() < 0.5:
        rng.shuffle(ks)
    return tuple(int(k) for k in ks)


def _frac_inputs(rng, keys_in, j):
    hi = 2 if j < 8 else (5 if j < 16 else 30)
    return [[Fraction(rng.randint(-hi, hi) or 1, rng.choice((1, 1, 2, 3))) for _ in ks] for ks in keys_in]


def _oracle_product(spec, op, keys_in, keys_out, inputs, out):
    """kingdon's own products on Fractions: x * result (inv), result * y - x (div); text for the report"""
    try:
        alg = algs.make_impl(spec)
        mk = lambda ks, vs: alg.multivector(keys=tuple(ks), values=[Fraction(v) for v in vs])
        r = mk(keys_out, out)
        if op == 'inv':
            p = mk(keys_in[0], inputs[0]) * r
            return 'x * result = ' + str({int(k): str(v) for k, v in zip(p.keys(), p.values()) if v != 0}) + ' (an inverse gives {0: 1})'
        p = r * mk(keys_in[1], inputs[1]) - mk(keys_in[0], inputs[0])
        return 'result * y - x = ' + str({int(k): str(v) for k, v in zip(p.keys(), p.values()) if v != 0}) + ' (x / y gives {})'
    except Exception as e:  # noqa
        return f'(product check not available: {type(e).__name__})'


def generated_code_div(R, tier):
    import genvalidate as gv
    rng = R.rng
    pool = algs.AlgPool()
    cases, zcases = [], []
    n = 100 if tier == 'quick' else 1500
    for it in range(n):
        spec = gen_spec(rng)
        cse = rng.random() < 0.55
        op = 'div' if it % 4 == 3 else 'inv'
        sym = rng.random() < 0.15
        alg = algs.make_impl(spec, cse=cse)       # a fresh algebra: the function is generated now
        d = alg.d
        if sym and d <= 3:                        # sympy.Symbol coefficients while generating (d = 4: seconds of sympy per function)
            import sympy
            alg = algs.make_impl(spec, cse=cse, codegen_symbolcls=sympy.Symbol)
        else:
            sym = False
        if op == 'inv':
            if it < 10:
                style = ('sparse', 'grade', 'rotor', 'even', 'full')[it % 5]        # every pattern kind at least twice
            else:
                style = rng.choice(('sparse', 'sparse', 'sparse', 'grade', 'rotor', 'even', 'full'))
            if d == 4 and style == 'full':
                style = 'rotor'                   # 16 indeterminates: too slow; the full even subalgebra (8) in a third of the cases
            if d == 4 and style == 'even' and rng.random() < 0.65:
                style = 'sparse'
            keys = [_div_pattern(rng, alg, style)]
        else:
            style = 'sparse'
            keys = [_div_pattern(rng, alg, 'sparse'), _div_pattern(rng, alg, rng.choice(('sparse', 'sparse', 'grade') if d <= 3 else ('sparse',)))]
        oname = {'cse': cse, 'graded': False, 'symbolcls': 'sympy' if sym else 'default'}
        R.count(f'generated-code-div:d={d}'); R.count('generated-code-div:op=' + op); R.count(f'generated-code-div:cse={cse}')
        R.count('generated-code-div:symbolcls=' + oname['symbolcls'])
        R.count('generated-code-div:pattern=' + style); R.count('generated-code-div:basis=' + algs.kind(spec))
        try:
            c = gv.case_inv(pool, spec, alg, keys[0], oname) if op == 'inv' else gv.case_div(pool, spec, alg, keys[0], keys[1], oname)
        except gv.Untranslatable as e:
            R.count('generated-code-div:untranslated'); R.count(f'generated-code-div:untranslated:{op}:{str(e)[:60]}')
            R.notes.append(f'generated-code: {op} {keys} in Algebra({algs.describe(spec)}) {oname} is outside the translated subset: {e}')
            continue
        except ZeroDivisionError:
            # an identically zero denominator (degenerate signatures): no function exists; the model's symbolic denominator must be the
            # zero polynomial too
            R.count('generated-code-div:generation-zero-division')
            R.case(('generated-code-div-zde', algs.describe(spec), op, tuple(keys)), True)
            ref, dfn = pool.ref(spec)
            ky = keys[-1]
            zcases.append({'check': algs.with_alg(ref, f'match inv_symbolic A {kv.zlist(ky)} 0 with Ok (_, den_) => pisz den_ | Err _ => false end'),
                           'defs': [dfn], 'meta': {'spec': spec, 'op': op, 'keys_in': [list(k) for k in keys]}})
            continue
        except Exception as e:  # noqa   any other exception while generating: cse must not matter
            try:
                alg0 = algs.make_impl(spec)
                gv.generate_div(alg0, op, keys)
                default_raises = None
            except Exception as e0:  # noqa
                default_raises = type(e0).__name__
            R.count('generated-code-div:generation-raises')
            R.case(('generated-code-div-raises', algs.describe(spec), cse, op, tuple(keys)), True)
            if default_raises != type(e).__name__:
                R.violation({'clause': 'fails-under-options', 'op': op, 'cse': cse, 'graded': False},
                            {'algebra': spec, 'options': oname, 'op': op, 'keys_in': [list(k) for k in keys], 'error': f'{type(e).__name__}: {e}'[:200]},
                            f'generating {op} for keys {[list(k) for k in keys]} in Algebra({algs.describe(spec)}) with {oname} raised {type(e).__name__}: {e}'[:400]
                            + f'; with default options: {default_raises or "no error"}')
            continue
        m = c['meta']
        R.count('generated-code-div:validated-functions')
        if m['lets'] > 1:
            R.count('generated-code-div:with-cse-assignments')
        R.case(('generated-code-div', algs.describe(spec), cse, op, tuple(keys)), bool(m['keys_out']),
               sample={'clause': 'generated-code', 'algebra': algs.describe(spec), 'options': oname, 'op': op,
                       'keys_in': m['keys_in'], 'keys_out': m['keys_out'], 'source': m['source'][:400]})
        cases.append(c)
    if zcases:
        zbad, _ = kv.run_cases('C13divz', zcases, prelude=gv.PRELUDE, imports=gv.IMPORTS_DIV, shard=60)
        for i in zbad:
            m = zcases[i]['meta']
            R.fidelity_notes += 1
            R.notes.append(f'generated-code: generating {m["op"]} {m["keys_in"]} in Algebra({algs.describe(m["spec"])}) raises ZeroDivisionError, the '
                           f'closed-form denominator of the model is not the zero polynomial')
    bad, _ = kv.run_cases('C13div', cases, prelude=gv.PRELUDE, imports=gv.IMPORTS_DIV, shard=12)
    if not bad:
        return
    # a validation failed: exhibit a concrete rational input on which the real function and the model (over Qc) differ
    wcases, owner = [], []
    for i in bad:
        m = cases[i]['meta']
        for j in range(24):
            wcases.append(gv.concrete_case_div(pool, m, _frac_inputs(rng, m['keys_in'], j))); owner.append(i)
    wbad, wshown = kv.run_cases('C13divw', wcases, prelude=gv.PRELUDE, imports=gv.IMPORTS_DIV, shard=48)
    first = {}
    for w in wbad:
        first.setdefault(owner[w], w)
    need = [w for w in list(first.values())[:8] if w not in wshown]
    if need:
        defs = sorted({dfn for w in need for dfn in wcases[w]['defs']})
        outs = kv.eval_terms('C13divw', [wcases[w]['show'] for w in need], prelude=gv.PRELUDE + '\n'.join(defs), imports=gv.IMPORTS_DIV)
        if len(outs) == len(need):
            wshown.update({w: o[-1500:] for w, o in zip(need, outs)})
    for i in bad:
        m = cases[i]['meta']
        cls = {'clause': 'generated-code', 'op': m['op'], 'cse': m['options'].get('cse'), 'graded': False,
               'symbolcls': m['options'].get('symbolcls'), 'null_generator': 0 in algs.norm(_named(m['spec']))['sig']}
        if i not in first:
            # equal to the model's value on every blade at every point tried (where both return): stored keys / raising differ at most
            R.fidelity_notes += 1
            R.notes.append(f'generated-code: {m["op"]} {m["keys_in"]} in Algebra({algs.describe(m["spec"])}) {m["options"]}: the validation against '
                           f'the closed-form fraction failed (stored keys {m["keys_out"]}), no rational input with a different value found')
            continue
        w = first[i]
        wm = wcases[w]['meta']
        prod = _oracle_product(m['spec'], m['op'], m['keys_in'], m['keys_out'], wm['inputs'], wm['output'])
        R.violation(cls, {'algebra': m['spec'], 'options': m['options'], 'op': m['op'], 'keys_in': m['keys_in'], 'keys_out': m['keys_out'],
                          'source': m['source'], 'inputs': wm['inputs'], 'impl_output': wm['output'], 'model': wshown.get(w)},
                    f'generated code of {m["op"]} for keys {m["keys_in"]} in Algebra({algs.describe(m["spec"])}) with {m["options"]} does not '
                    f'compute the model inverse/quotient: on coefficients {wm["inputs"]} the generated function returns {wm["output"]} for keys '
                    f'{m["keys_out"]}, the model (numerators, denominators) gives {str(wshown.get(w))[-300:]}; {prod}; text: {m["source"][:300]!r}')


def replay_generated_div(rec):
    """self-contained replay of a generated-code record of inv / div: regenerate the function, run it on the recorded rational input,
    compare blade by blade with the model evaluated by Coq over Qc.  True = agrees."""
    import genvalidate as gv
    r = rec['replay']
    spec, o = r['algebra'], r['options']
    opts = {'cse': o.get('cse', True)}
    if o.get('symbolcls') == 'sympy':
        import sympy
        opts['codegen_symbolcls'] = sympy.Symbol
    alg = algs.make_impl(spec, **opts)
    pool = algs.AlgPool()
    keys_out, func, src = gv.generate_div(alg, r['op'], r['keys_in'])
    meta = {'spec': spec, 'op': r['op'], 'keys_in': r['keys_in'], 'keys_out': list(keys_out), 'func': func}
    inputs = [[Fraction(v) for v in x] for x in r['inputs']]
    bad, _ = kv.run_cases('C13divr', [gv.concrete_case_div(pool, meta, inputs)], prelude=gv.PRELUDE, imports=gv.IMPORTS_DIV)
    return not bad
