"""C14 — custom bases and start indices are a pure relabelling.
Correspondence on the real kingdon: phi(e_name) = ordered product of the generators of the name, taken
in the default-basis algebra of the same signature and start index; for every operator
relabel(op_custom(x, y)) = op_default(relabel x, relabel y) (the duals up to the orientation sign of
the custom pseudoscalar), coefficient accessors with every spelling, the named constructors, inverse;
rejection of operands from algebras whose metric or basis differ.  The sign-table isomorphism and the
multivector-level statement are theorems (Props/C14.v, Theory/Relabel.v); the model's agreement with
the implementation on custom bases is part of the C01-C05 correspondences; in addition the model's
phi_key / phi_sign (Theory/Relabel.v, D = mk_default of the same signature and start index) are evaluated by
Coq on every explored basis and compared with the implementation's ordered products in the real default
algebra, together with the table isomorphism itself (table_iso_b) and wf_alg of both algebras."""
import warnings, itertools, functools, operator
from fractions import Fraction
import kv, algs, opcorr as oc

RULE = ('custom bases: all admissible bases for d<=2 (sampled in quick), random ones for d=3,4 (5 in thorough), start indices 0-2, the three '
        'named algebras; operators {gp, op, ip, lc, rc, sp, cp, acp, add, sub, neg, reverse, involute, conjugate, sw, proj, inv, div, rp, '
        'hodge, unhodge, polarity, unpolarity, normsq}; random sparse operands (Fraction values); accessor spellings; all pairs from a pool '
        'of 9 algebras for the rejection clause; per basis one model case: the Coq values of (phi_key, phi_sign) on all blades = the '
        'ordered products computed by the real default-basis algebra.  Non-trivial = the basis differs from the default one; distinct = distinct (basis, operator, keys).')
TRUSTED = ['the default-basis algebra of the implementation is the reference (its table is covered by C01)', 'Fraction arithmetic']
ASSUMPTIONS = ['the orientation sign of the custom pseudoscalar is factored out for the dual-type operators, as C05 forces']

PLAIN2 = ['gp', 'op', 'ip', 'lc', 'rc', 'sp', 'cp', 'acp', 'add', 'sub', 'sw', 'proj', 'div']
PLAIN1 = ['neg', 'reverse', 'involute', 'conjugate', 'inv', 'normsq']
DUAL1 = ['hodge', 'unhodge', 'polarity', 'unpolarity']
DUAL2 = ['rp']


def run(R, tier):
    warnings.filterwarnings('ignore')
    from kingdon import Algebra, MultiVector
    rng = R.rng

    def viol(clause, detail, **rep):
        R.violation({'clause': clause}, rep, f'{clause}: {detail}')
    # corpus first: the listed known finding (matrix representation in a custom basis)
    import numpy as np
    A0 = Algebra.fromname('2DPGA'); e1 = A0.blades.e1
    R.case(('corpus', 'F10'), True)
    if not np.array_equal(np.asarray((e1 * e1).asmatrix()), e1.asmatrix() @ e1.asmatrix()):
        R.violation({'clause': 'matrix', 'basis': 'custom'}, {'algebra': "Algebra.fromname('2DPGA')", 'x': 'e1', 'y': 'e1'},
                    "matrix: (e1*e1).asmatrix() != e1.asmatrix() @ e1.asmatrix() in Algebra.fromname('2DPGA')")
    specs = []
    for d in (1, 2):
        for start in (0, 1, 2):
            bases = list(algs.all_bases(d, start))
            if tier == 'quick':
                bases = rng.sample(bases, min(len(bases), 3))
            for basis in bases:
                specs.append({'sig': rng.choice(algs.all_sigs(d)), 'basis': basis})
    for _ in range(6 if tier == 'quick' else 120):
        d = rng.choice((3, 3, 4) if tier == 'quick' else (3, 4, 4, 5))
        specs.append({'sig': [rng.choice((1, 1, -1, 0)) for _ in range(d)], 'basis': algs.random_basis(rng, d)})
    specs += [{'fromname': nm} for nm in algs.NAMED]
    pool, cases = algs.AlgPool(), []
    for spec in specs:
        Ac = algs.make_impl(spec)
        d = Ac.d
        vecs = [b[1:] for b in Ac.canon2bin if len(b) == 2]
        start = Ac.start_index
        Ad = Algebra(signature=[int(s) for s in Ac.signature], start_index=start)
        desc = algs.describe(spec)
        R.count(f'd={d}'); R.count('kind=' + algs.kind(spec))

        @functools.lru_cache(None)
        def phi_blade(name):
            """-> (key in Ad, sign): the ordered product of the generators of `name` in the default algebra"""
            m = functools.reduce(operator.mul, [Ad.blades['e' + c] for c in name[1:]], Ad.blades['e'])
            items = [(k, v) for k, v in zip(m.keys(), m.values()) if v != 0]
            return items[0] if items else (0, 0)

        def relabel(items):
            out = {}
            for k, v in items:
                kd, s = phi_blade(Ac.bin2canon[k])
                out[kd] = out.get(kd, 0) + s * v
            return list(out.items())
        # the named blade really is that ordered product (sign +-1, never 0) and the map is a bijection on blades
        imgs = [phi_blade(n) for n in Ac.canon2bin]
        if any(s not in (1, -1) for _, s in imgs) or len({k for k, _ in imgs}) != len(imgs):
            viol('relabel-bijection', f'blades of Algebra({desc}) do not map bijectively to signed blades of the default algebra', algebra=spec); continue
        o = phi_blade(Ac.bin2canon[2 ** d - 1])[1]
        # model tie: phi_key / phi_sign of Theory/Relabel.v against these ordered products of the implementation
        ref, dfn = pool.ref(spec)
        chk = ('let D := mk_default (a_sig A) (a_start A) false in '
               f'wf_alg A && wf_alg D && Z.eqb (a_start A) {kv.Z(start)} && '
               'list_eqb (pair_eqb Z.eqb Z.eqb) (map (fun I => (phi_key A D I, phi_sign A D I)) (canon_keys A)) '
               + kv.blist(kv.pair(kv.Z(k), kv.Z(s_)) for k, s_ in imgs) + ' && table_iso_b A D')
        show = 'let D := mk_default (a_sig A) (a_start A) false in Some (a_start A, map (fun I => (I, phi_key A D I, phi_sign A D I)) (canon_keys A), table_iso_b A D)'
        cases.append({'check': algs.with_alg(ref, chk), 'show': algs.with_alg(ref, show, 'None'), 'defs': [dfn],
                      'meta': {'spec': spec, 'impl': [(int(k), int(s_)) for k, s_ in imgs]}})
        R.case((desc, 'phi-model'), True, sample={'basis': desc, 'phi (key, sign) per canonical blade': str(imgs)[:160]})
        for rep in range(2 if tier == 'quick' else 5):
            ka, _ = oc.random_keys(rng, Ac, rng.choice(['sparse', 'grade', 'dense', 'single']))
            kb, _ = oc.random_keys(rng, Ac, rng.choice(['sparse', 'grade', 'single']))
            ka, kb = ka[:6], kb[:6]
            x = [(k, Fraction(rng.randint(-5, 5) or 1, rng.randint(1, 2))) for k in ka]
            y = [(k, Fraction(rng.randint(-5, 5) or 1, rng.randint(1, 2))) for k in kb]
            xc, yc = oc.make_mv(Ac, ka, [v for _, v in x]), oc.make_mv(Ac, kb, [v for _, v in y])
            rx, ry = relabel(x), relabel(y)
            xd, yd = oc.make_mv(Ad, [k for k, _ in rx], [v for _, v in rx]), oc.make_mv(Ad, [k for k, _ in ry], [v for _, v in ry])
            ops = [(o_, 2, 1) for o_ in PLAIN2] + [(o_, 1, 1) for o_ in PLAIN1] + [(o_, 1, o) for o_ in DUAL1] + [(o_, 2, o) for o_ in DUAL2]
            if d >= 4:
                ops = [t for t in ops if t[0] not in ('sw', 'proj', 'div', 'inv')] + ([('inv', 1, 1)] if len(ka) <= 2 else [])
            for op, ar, factor in ops:
                def outcome(alg, args):
                    try:
                        r = getattr(alg, op)(*args)
                        return ('ok', [(int(k), Fraction(v)) for k, v in zip(r.keys(), r.values())])
                    except ZeroDivisionError:
                        return ('zde', None)
                    except Exception as e:  # noqa
                        return ('err', type(e).__name__)
                rc = outcome(Ac, [xc, yc][:ar])
                rd = outcome(Ad, [xd, yd][:ar])
                R.count('op=' + op)
                R.case((desc, op, ka, kb if ar == 2 else ()), True,
                       sample={'basis': desc, 'op': op, 'x': [(k, str(v)) for k, v in x], 'y': [(k, str(v)) for k, v in y] if ar == 2 else None,
                               'custom result': str(rc[1])[:120]})
                if rc[0] != rd[0]:
                    viol('relabel-' + op, f'{op} in Algebra({desc}) gives {rc[0]} but {rd[0]} in the default-basis algebra for x={x}, y={y}', algebra=spec, op=op, x=str(x), y=str(y)); continue
                if rc[0] != 'ok':
                    continue
                lhs = relabel(rc[1])
                rhs = [(k, factor * v) for k, v in rd[1]]
                if not oc.same_element(lhs, rhs):
                    viol('relabel-' + op, f'relabel({op}_custom(x, y)) = {lhs} but {op}_default(relabel x, relabel y) = {rhs} (orientation factor {factor}) in Algebra({desc}); x={x}, y={y}',
                         algebra=spec, op=op, x=str(x), y=str(y))
            # matrix representation commutes with the map: in particular it stays multiplicative
            if d <= 3 and rep == 0 and x and y:      # (an operand that stores no blade has the NUMBER 0 as its asmatrix(): no matrix product)
                import numpy as np
                R.case((desc, 'asmatrix', ka, kb), True)
                try:
                    ok = bool(np.all(np.asarray((xc * yc).asmatrix(), dtype=float) == np.asarray(xc.asmatrix() @ yc.asmatrix(), dtype=float)))
                except Exception:
                    ok = False
                if not ok:
                    R.violation({'clause': 'matrix', 'basis': 'custom'}, {'algebra': spec, 'x': str(x), 'y': str(y)},
                                f'matrix: (x*y).asmatrix() != x.asmatrix() @ y.asmatrix() in Algebra({desc}) for x={x}, y={y}')
            # accessors: the coefficient of a spelled blade is the coefficient of the same ordered product in the default algebra
            names = rng.sample(list(Ac.canon2bin), min(4, len(Ac.canon2bin)))
            # the longest names several times: permutations with more than one cycle only exist from grade 4 on
            names += [n for n in Ac.canon2bin if len(n) - 1 >= min(4, Ac.d)] * 4
            for nm in names:
                digs = list(nm[1:]); rng.shuffle(digs)
                sp = 'e' + ''.join(digs)
                R.case((desc, 'getattr', ka, sp), True)
                if getattr(xc, sp) != getattr(xd, sp):
                    viol('accessor', f'x.{sp} = {getattr(xc, sp)} in Algebra({desc}) but {getattr(xd, sp)} after relabelling into the default basis; x={x}', algebra=spec, spelling=sp, x=str(x))
    bad, shown = kv.run_cases('C14', cases, imports='Model.All Theory.WF Theory.Relabel')
    for i in bad:
        m = cases[i]['meta']
        R.violation({'clause': 'relabel-model', 'basis': algs.kind(m['spec'])},
                    {'algebra': m['spec'], 'impl': m['impl'], 'model': shown.get(i)},
                    f'relabel-model: the ordered products of the generators of the blades of Algebra({algs.describe(m["spec"])}) computed in the '
                    f'default-basis algebra are {m["impl"]}, the proved model gives {shown.get(i)}')
    # named constructors are instances of the general mechanism
    for nm, (pqr, basis) in algs.NAMED.items():
        A1, A2 = Algebra.fromname(nm), Algebra(*pqr, basis=list(basis))
        R.case(('named', nm), True)
        if dict(A1.canon2bin) != dict(A2.canon2bin) or list(A1.signature) != list(A2.signature) or A1.signs != A2.signs:
            viol('named-constructor', f'Algebra.fromname({nm!r}) differs from Algebra{pqr} with the same basis', name=nm)
        # the numbering of the generators comes from the basis: an explicit start_index does not change the algebra
        for si in (0, 1, 2):
            try:
                A3 = Algebra.fromname(nm, start_index=si)
                ok3 = dict(A3.canon2bin) == dict(A1.canon2bin) and [int(x_) for x_ in A3.signature] == [int(x_) for x_ in A1.signature] and (A1.d > 6 or A3.signs == A1.signs)
            except Exception as e:  # noqa
                ok3 = False
            R.case(('named-start', nm, si), True)
            if not ok3:
                viol('named-constructor', f'Algebra.fromname({nm!r}, start_index={si}) is not the algebra Algebra.fromname({nm!r}) (the generators of a custom basis are numbered by their names)', name=nm, start_index=si)
    # rejection: operands from algebras whose metric or basis differ must not be combined silently
    pool = [('Algebra(2)', Algebra(2)), ('Algebra(1,1)', Algebra(1, 1)), ('Algebra(signature=[-1,1])', Algebra(signature=[-1, 1])),
            ('Algebra(signature=[1,-1])', Algebra(signature=[1, -1])), ('Algebra(2,0,1)', Algebra(2, 0, 1)), ('2DPGA', Algebra.fromname('2DPGA')),
            ('Algebra(signature=[1,1,0])', Algebra(signature=[1, 1, 0])), ('Algebra(3)', Algebra(3)),
            ('Algebra(2, basis e,e2,e1,e12)', Algebra(2, basis=['e', 'e2', 'e1', 'e12'])), ('Algebra(2, basis e,e1,e2,e21)', Algebra(2, basis=['e', 'e1', 'e2', 'e21']))]
    for (na, A), (nb, B) in itertools.permutations(pool, 2):
        same = [int(s) for s in A.signature] == [int(s) for s in B.signature] and list(A.canon2bin.items()) == list(B.canon2bin.items())
        if same:
            continue
        R.count('clause=rejection'); R.case(('reject', na, nb), True)
        xa = A.multivector({1: 2, 2: 3}); yb = B.multivector({1: 5, 2: 7})
        for sym, f in (('*', lambda a, b: a * b), ('+', lambda a, b: a + b), ('^', lambda a, b: a ^ b), ('>>', lambda a, b: a >> b)):
            try:
                r = f(xa, yb)
                viol('rejection', f'{na} element {sym} {nb} element returned {r} instead of raising', left=na, right=nb, op=sym)
                break
            except Exception:
                pass
    # ... also beyond d = 6, where the sign table is filled lazily: fresh algebras, then algebras that already multiplied
    for d in (7, 8) + ((9,) if tier == 'thorough' else ()):
        sigs = [[-1] + [1] * (d - 1), [1] * (d - 1) + [-1], [1] * d, [0] + [1] * (d - 1), [1] * (d - 1) + [0]]
        for sa, sb in itertools.permutations(sigs, 2):
            for warmed in (False, True):
                A, B = Algebra(signature=sa), Algebra(signature=sb)
                xa = A.multivector({1: 2, 1 << (d - 1): 3}); yb = B.multivector({1: 5, 1 << (d - 1): 7})
                if warmed:
                    xa * xa; yb * yb
                R.count('clause=rejection-large'); R.case(('reject', d, tuple(sa), tuple(sb), warmed), True)
                for sym, f in (('+', lambda a, b: a + b), ('-', lambda a, b: a - b), ('*', lambda a, b: a * b), ('|', lambda a, b: a | b)):
                    try:
                        r = f(xa, yb)
                        viol('rejection', f'd={d}: element of Algebra(signature={sa}) {sym} element of Algebra(signature={sb}) returned {r} instead of raising'
                             + (' (after both algebras had multiplied)' if warmed else ' (fresh algebras)'), left=str(sa), right=str(sb), op=sym)
                        break
                    except Exception:
                        pass


REPLAY_BY_RERUN = True      # inputs derive from the seed recorded in the replay file: the recorded run is regenerated


def replay(R, rec):
    return kv.replay_by_rerun(__import__('sys').modules[__name__], rec['property'], rec)
