"""C16 — array coefficients, sequences, callables and plain numbers broadcast right.
Correspondence / oracle on the real kingdon: element-wise action on array-valued coefficients (indexing
commutes with every operator), exactness of __getitem__/__setitem__, a plain number on either side of
every infix operator = the scalar multivector, list/tuple operands give the sequence of results in
order, nested zero-argument callables are unwrapped, operand order of reflected operators with
NON-commuting operands.  The operand-order table itself is re-derived from the source and proved in
Props/C16.v; the element-wise clause is the naturality theorem (Theory/Natural.v) for the evaluation
homomorphism of the pointwise ring."""
import warnings, itertools
import kv, algs, opcorr as oc

RULE = ('operators (infix, reflected, method, unary) x trailing shapes (), (3,), (2,3) x containers (list of arrays, 2-D/3-D ndarray) x '
        'index expressions (int, negative int, slice, tuple) x operand kinds on either side (int, float, numpy scalar, list, tuple, '
        'nested callable); integer/float values.  Non-trivial = an array-valued, sequence, callable or number operand is involved; '
        'distinct = distinct (clause, operator, shapes, operand kinds).')
TRUSTED = ['numpy broadcasting itself is not modelled: the pointwise ring idx -> R is the assumption of the element-wise theorem',
           'Gen/Dunder.v (translator) for the operand-order table']
ASSUMPTIONS = ['numeric comparison exact for integer-valued float arrays (all generated values are small integers stored as floats)']

INFIX = {'+': 'add', '-': 'sub', '*': 'gp', '^': 'op', '|': 'ip', '&': 'rp', '>>': 'sw', '@': 'proj', '/': 'div'}
PY = {'+': lambda a, b: a + b, '-': lambda a, b: a - b, '*': lambda a, b: a * b, '^': lambda a, b: a ^ b,
      '|': lambda a, b: a | b, '&': lambda a, b: a & b, '>>': lambda a, b: a >> b, '@': lambda a, b: a @ b,
      '/': lambda a, b: a / b}
UNARY = ['neg', 'reverse', 'involute', 'conjugate', 'hodge', 'unhodge', 'normsq']


def items(mv):
    import numpy as np
    return [(int(k), np.asarray(v, dtype=float)) for k, v in zip(mv.keys(), mv.values())]


def same(a, b):
    import numpy as np
    da, db = oc.coeff_map(a), oc.coeff_map(b)
    for k in set(da) | set(db):
        u = da.get(k, 0.0); v = db.get(k, 0.0)
        try:
            if not np.allclose(np.asarray(u, dtype=float), np.asarray(v, dtype=float), rtol=1e-9, atol=1e-9):
                return False
        except Exception:
            return False
    return True


def run(R, tier):
    warnings.filterwarnings('ignore')
    import numpy as np
    from kingdon import MultiVector
    rng = R.rng
    n = 40 if tier == 'quick' else 800

    def viol(clause, detail, **rep):
        R.violation({'clause': clause}, rep, f'{clause}: {detail}')

    for it in range(n):
        d = rng.choice((2, 3, 3))
        sig = [rng.choice((1, 1, -1, 0)) for _ in range(d)]
        spec = {'sig': sig}
        alg = algs.make_impl(spec)
        canon = list(alg.canon2bin.values())
        shape = rng.choice([(3,), (2, 3), (4,)])
        container = rng.choice(['list-of-arrays', 'ndarray'])

        def arr_mv(keys):
            vals = [np.array([[float(rng.randint(-4, 4)) for _ in range(int(np.prod(shape)))]]).reshape(shape) for _ in keys]
            if container == 'ndarray':
                return MultiVector.fromkeysvalues(alg, tuple(keys), np.array(vals))
            return MultiVector.fromkeysvalues(alg, tuple(keys), vals)
        ka = rng.sample(canon, rng.randint(1, min(4, len(canon))))
        kb = rng.sample(canon, rng.randint(1, min(4, len(canon))))
        X, Y = arr_mv(ka), arr_mv(kb)
        idxs = [rng.randrange(shape[0]), -1, slice(0, 2), tuple(rng.randrange(s) for s in shape)]
        if len(shape) == 2:
            idxs.append((slice(None), 1))
        # 1. indexing commutes with every operator
        ops = list(INFIX.items())
        rng.shuffle(ops)
        for sym, opname in ops[:5]:
            if opname in ('div',):
                continue
            try:
                res = PY[sym](X, Y)
            except Exception as e:  # noqa
                viol('array-op-raises', f'X {sym} Y raised {type(e).__name__} for shape {shape} ({container})', algebra=spec, op=sym)
                continue
            for idx in idxs:
                R.count('clause=index-commutes'); R.count('shape=' + str(shape)); R.count('container=' + container)
                R.case(('idx', algs.describe(spec), sym, tuple(ka), tuple(kb), str(shape), container, str(idx)), True,
                       sample={'clause': 'index commutes', 'algebra': algs.describe(spec), 'op': sym, 'shape': shape, 'container': container, 'index': str(idx)})
                try:
                    l = items(res[idx]); r = items(PY[sym](X[idx], Y[idx]))
                except Exception as e:  # noqa
                    viol('index-raises', f'(X {sym} Y)[{idx}] raised {type(e).__name__}', algebra=spec, op=sym, index=str(idx)); continue
                if not same(l, r):
                    viol('index-commutes', f'(X {sym} Y)[{idx}] != X[{idx}] {sym} Y[{idx}] in Algebra({algs.describe(spec)}), shape {shape}, {container}',
                         algebra=spec, op=sym, index=str(idx), keys=[ka, kb])
        for opname in rng.sample(UNARY, 3):
            res = getattr(alg, opname)(X)
            idx = rng.choice(idxs)
            R.case(('idx1', algs.describe(spec), opname, tuple(ka), str(shape), str(idx)), True)
            if not same(items(res[idx]), items(getattr(alg, opname)(X[idx]))):
                viol('index-commutes', f'{opname}(X)[{idx}] != {opname}(X[{idx}])', algebra=spec, op=opname, index=str(idx))
        # 2. getitem / setitem touch exactly the addressed entries
        idx = rng.choice(idxs)
        before = [np.array(v, dtype=float).copy() for v in X.values()]
        got = X[idx]
        R.count('clause=getitem'); R.case(('get', it, str(idx)), True)
        if list(got.keys()) != list(X.keys()) or not all(np.array_equal(np.asarray(g), b[idx]) for g, b in zip(got.values(), before)):
            viol('getitem', f'X[{idx}] does not hold values[..., {idx}] of every coefficient', algebra=spec, index=str(idx))
        newvals = [np.asarray(b[idx]) * 0 + 7.0 for b in before]
        R.count('clause=setitem'); R.case(('set', it, str(idx)), True)
        try:
            X[idx] = MultiVector.fromkeysvalues(alg, X.keys(), newvals)
        except Exception as e:  # noqa
            viol('setitem-raises', f'X[{idx}] = V raised {type(e).__name__}: {e} (shape {shape}, {container})'[:300], algebra=spec, index=str(idx))
        for v, b in zip(X.values(), before):
            exp = b.copy(); exp[idx] = 7.0
            if not np.array_equal(np.asarray(v), exp):
                viol('setitem', f'X[{idx}] = V changed entries other than the addressed ones (or not the addressed ones)', algebra=spec, index=str(idx))
                break
        # 3. plain numbers on either side = the scalar multivector
        x = oc.make_mv(alg, kb, [float(v) for v in oc.random_values(rng, len(kb), zero_p=0)])
        for num in (3, 2.5, np.float64(4.0), np.int64(2)):
            sc = MultiVector.fromkeysvalues(alg, (0,), [num])
            for sym, opname in INFIX.items():
                for side in ('left', 'right'):
                    R.count('clause=number'); R.count('number=' + type(num).__name__)
                    R.case(('num', algs.describe(spec), sym, side, type(num).__name__, tuple(kb)), True)
                    def outcome(f):
                        try:
                            return ('ok', items(f()))
                        except Exception as e:  # noqa
                            return ('err', type(e).__name__)
                    w = outcome(lambda: PY[sym](sc, x) if side == 'left' else PY[sym](x, sc))
                    g = outcome(lambda: PY[sym](num, x) if side == 'left' else PY[sym](x, num))
                    if w[0] == 'err' or g[0] == 'err':
                        if w != g:
                            viol('number-raises', f'{num!r} {sym} x ({side}): {g}, with the scalar multivector: {w}', algebra=spec, op=sym, side=side, number=repr(num))
                        continue
                    got, want = g[1], w[1]
                    if not same(got, want):
                        viol('number-operand', f'{"number " + sym + " x" if side == "left" else "x " + sym + " number"} with number={num!r} differs from the scalar multivector: {got} vs {want}',
                             algebra=spec, op=sym, side=side, number=repr(num), x=[(k, float(v)) for k, v in zip(x.keys(), x.values())])
        # 4. list / tuple operands, callables, operand order with non-commuting operands
        a = oc.make_mv(alg, ka, [float(v) for v in oc.random_values(rng, len(ka), zero_p=0)])
        b = oc.make_mv(alg, kb, [float(v) for v in oc.random_values(rng, len(kb), zero_p=0)])
        kc = rng.sample(canon, rng.randint(1, min(3, len(canon))))
        c = oc.make_mv(alg, kc, [float(v) for v in oc.random_values(rng, len(kc), zero_p=0)])
        for sym, opname in INFIX.items():
            if opname == 'div':
                continue
            for ctor in (list, tuple):
                for side in ('left', 'right'):
                    R.count('clause=sequence'); R.case(('seq', algs.describe(spec), sym, ctor.__name__, side, tuple(ka), tuple(kb), tuple(kc)), True)
                    seq = ctor([a, b])
                    try:
                        got = PY[sym](seq, c) if side == 'left' else PY[sym](c, seq)
                        want = ctor([PY[sym](a, c), PY[sym](b, c)]) if side == 'left' else ctor([PY[sym](c, a), PY[sym](c, b)])
                    except Exception as e:  # noqa
                        viol('sequence-raises', f'{ctor.__name__} {side} of {sym} raised {type(e).__name__}: {e}', algebra=spec, op=sym, side=side); continue
                    if type(got) is not ctor or len(got) != 2 or not all(same(items(g), items(w)) for g, w in zip(got, want)):
                        viol('sequence-operand', f'[a, b] {sym} c with the {ctor.__name__} on the {side}: results are not (a {sym} c, b {sym} c) in order '
                                                 f'(operand order or mapping broken) in Algebra({algs.describe(spec)}); a keys {ka}, b keys {kb}, c keys {kc}',
                             algebra=spec, op=sym, side=side, container=ctor.__name__,
                             a=[(k, float(v)) for k, v in zip(a.keys(), a.values())], b=[(k, float(v)) for k, v in zip(b.keys(), b.values())],
                             c=[(k, float(v)) for k, v in zip(c.keys(), c.values())])
            for side in ('left', 'right'):
                R.count('clause=callable'); R.case(('call', algs.describe(spec), sym, side, tuple(ka), tuple(kc)), True)
                f = (lambda: (lambda: a))
                try:
                    got = items(PY[sym](f, c) if side == 'left' else PY[sym](c, f))
                    want = items(PY[sym](a, c) if side == 'left' else PY[sym](c, a))
                except TypeError:
                    if side == 'left':
                        continue        # a function on the LEFT of an infix operator reaches the reflected dunder only if python dispatches to it
                    viol('callable-raises', f'c {sym} callable raised TypeError', algebra=spec, op=sym); continue
                except Exception as e:  # noqa
                    viol('callable-raises', f'callable on the {side} of {sym} raised {type(e).__name__}', algebra=spec, op=sym); continue
                if not same(got, want):
                    viol('callable-operand', f'a nested callable on the {side} of {sym} is not replaced by its value with the operand order kept',
                         algebra=spec, op=sym, side=side)


def replay(R, rec):
    warnings.filterwarnings('ignore')
    import numpy as np
    from kingdon import MultiVector
    r = rec['replay']
    alg = algs.make_impl(r['algebra'])
    cl = rec['class']['clause']
    if cl == 'sequence-operand':
        mk = lambda its: oc.make_mv(alg, [k for k, _ in its], [v for _, v in its])
        a, b, c = mk(r['a']), mk(r['b']), mk(r['c'])
        ctor = list if r['container'] == 'list' else tuple
        f = PY[r['op']]
        got = f(ctor([a, b]), c) if r['side'] == 'left' else f(c, ctor([a, b]))
        want = [f(a, c), f(b, c)] if r['side'] == 'left' else [f(c, a), f(c, b)]
        return all(same(items(g), items(w)) for g, w in zip(got, want))
    if cl == 'number-operand':
        x = oc.make_mv(alg, [k for k, _ in r['x']], [v for _, v in r['x']])
        num = eval(r['number'], {'np': np, 'numpy': np})
        sc = MultiVector.fromkeysvalues(alg, (0,), [num])
        f = PY[r['op']]
        return same(items(f(num, x) if r['side'] == 'left' else f(x, num)), items(f(sc, x) if r['side'] == 'left' else f(x, sc)))
    return False
