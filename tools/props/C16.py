"""C16 — array coefficients, sequences, callables and plain numbers broadcast right.
Correspondence / oracle on the real kingdon: element-wise action on array-valued coefficients (indexing
commutes with every operator), exactness of __getitem__/__setitem__, a plain number on either side of
every infix operator = the scalar multivector, list/tuple operands give the sequence of results in
order, nested zero-argument callables are unwrapped, operand order of reflected operators with
NON-commuting operands.  The operand-order table itself is re-derived from the source and proved in
Props/C16.v; the element-wise clause is the naturality theorem (Theory/Natural.v) for the evaluation
homomorphism of the pointwise ring.  The storage / indexing / assignment logic and the operand normalisation of
OperatorDict._call_binary are modelled in Model/Storage.v (theorems: Theory/Storage.v) and compared with the
implementation INSIDE Coq (storage_part): list-backed and ndarray-backed multivectors x subscripts x assigned
values -> result or exception class and final storage; operand trees on either side of gp/op/add/sub -> nesting
of the result and every coefficient."""
import warnings, itertools
import kv, algs, opcorr as oc

RULE = ('operators (infix, reflected, method, unary) x trailing shapes (), (3,), (2,3) x containers (list of arrays, 2-D/3-D ndarray) x '
        'index expressions (int, negative int, slice, tuple) x operand kinds on either side (int, float, numpy scalar, list, tuple, '
        'nested callable); integer/float values.  Non-trivial = an array-valued, sequence, callable or number operand is involved; '
        'distinct = distinct (clause, operator, shapes, operand kinds).  Model correspondence: storage kinds (list of arrays, ragged / mixed '
        'lists with python and numpy numbers, 1-D and 2-D ndarray, 0..4 keys, trailing axis 0..4) x subscripts (int incl. negative and out of '
        'range, slices with None / negative / out-of-range bounds and steps incl. 0, tuples of length 0, 1, 2) x right-hand sides (multivector '
        'with aligned / number / misaligned coefficients in either storage kind, other keys, raw sequences of other lengths, plain number); '
        'operand trees of depth <= 3 over numbers, multivectors (own and foreign algebra), lists, tuples, nested callables, call and infix form.')
TRUSTED = ['numpy broadcasting itself is not modelled: the pointwise ring idx -> R is the assumption of the element-wise theorem',
           'Gen/Dunder.v (translator) for the operand-order table',
           'hand-written model coq/Model/Storage.v of __getitem__/__setitem__/shape/itermv/items/map and _call_binary/__call__ (numpy 1-D/2-D '
           'integer and slice subscripts, 1-D assignment broadcast): tied by this correspondence only (no source pin)',
           'python operator dispatch (which dunder an infix expression reaches) is not modelled: the model starts at algebra.op(left, right)']
ASSUMPTIONS = ['numeric comparison exact for integer-valued float arrays (all generated values are small integers stored as floats)',
               'storage model: one trailing axis; results are values (no aliasing between X, X[idx] and the assigned V); one dtype (int64)',
               'callables are pure and take no argument']

INFIX = {'+': 'add', '-': 'sub', '*': 'gp', '^': 'op', '|': 'ip', '&': 'rp', '>>': 'sw', '@': 'proj', '/': 'div'}
PY = {'+': lambda a, b: a + b, '-': lambda a, b: a - b, '*': lambda a, b: a * b, '^': lambda a, b: a ^ b,
      '|': lambda a, b: a | b, '&': lambda a, b: a & b, '>>': lambda a, b: a >> b, '@': lambda a, b: a @ b,
      '/': lambda a, b: a / b}
UNARY = ['neg', 'reverse', 'involute', 'conjugate', 'hodge', 'unhodge', 'normsq']


def items(mv):
    import numpy as np
    return [(int(k), np.asarray(v, dtype=float)) for k, v in zip(mv.keys(), mv.values())]


def same(a, b):
    import numpy as np
    da, db = oc.coeff_map(a), oc.coeff_map(b)
    for k in set(da) | set(db):
        u = da.get(k, 0.0); v = db.get(k, 0.0)
        try:
            if not np.allclose(np.asarray(u, dtype=float), np.asarray(v, dtype=float), rtol=1e-9, atol=1e-9):
                return False
        except Exception:
            return False
    return True


def run(R, tier):
    warnings.filterwarnings('ignore')
    import numpy as np
    from kingdon import MultiVector
    rng = R.rng
    n = 40 if tier == 'quick' else 800

    def viol(clause, detail, **rep):
        R.violation({'clause': clause}, rep, f'{clause}: {detail}')

    for it in range(n):
        d = rng.choice((2, 3, 3))
        sig = [rng.choice((1, 1, -1, 0)) for _ in range(d)]
        spec = {'sig': sig}
        alg = algs.make_impl(spec)
        canon = list(alg.canon2bin.values())
        shape = rng.choice([(3,), (2, 3), (4,)])
        container = rng.choice(['list-of-arrays', 'ndarray'])

        def arr_mv(keys):
            # element types differ between the two operands (integers on one side, quarters on the other): the result must hold
            # the exact products whatever the dtype of the left operand
            dt = rng.choice(['float64', 'float64', 'int64', 'float32'])
            q = 1 if dt == 'int64' else 4
            vals = [np.array([[rng.randint(-4 * q, 4 * q) / q for _ in range(int(np.prod(shape)))]], dtype=dt).reshape(shape) for _ in keys]
            R.count('dtype=' + dt)
            if container == 'ndarray':
                return MultiVector.fromkeysvalues(alg, tuple(keys), np.array(vals, dtype=dt))
            return MultiVector.fromkeysvalues(alg, tuple(keys), vals)
        ka = rng.sample(canon, rng.randint(1, min(4, len(canon))))
        kb = rng.sample(canon, rng.randint(1, min(4, len(canon))))
        X, Y = arr_mv(ka), arr_mv(kb)
        idxs = [rng.randrange(shape[0]), -1, slice(0, 2), tuple(rng.randrange(s) for s in shape)]
        if len(shape) == 2:
            idxs.append((slice(None), 1))
        # 1. indexing commutes with every operator
        ops = list(INFIX.items())
        rng.shuffle(ops)
        for sym, opname in ops[:5]:
            if opname in ('div',):
                continue
            try:
                res = PY[sym](X, Y)
            except Exception as e:  # noqa
                viol('array-op-raises', f'X {sym} Y raised {type(e).__name__} for shape {shape} ({container})', algebra=spec, op=sym)
                continue
            for idx in idxs:
                R.count('clause=index-commutes'); R.count('shape=' + str(shape)); R.count('container=' + container)
                R.case(('idx', algs.describe(spec), sym, tuple(ka), tuple(kb), str(shape), container, str(idx)), True,
                       sample={'clause': 'index commutes', 'algebra': algs.describe(spec), 'op': sym, 'shape': shape, 'container': container, 'index': str(idx)})
                try:
                    l = items(res[idx]); r = items(PY[sym](X[idx], Y[idx]))
                except Exception as e:  # noqa
                    viol('index-raises', f'(X {sym} Y)[{idx}] raised {type(e).__name__}', algebra=spec, op=sym, index=str(idx)); continue
                if not same(l, r):
                    viol('index-commutes', f'(X {sym} Y)[{idx}] != X[{idx}] {sym} Y[{idx}] in Algebra({algs.describe(spec)}), shape {shape}, {container}',
                         algebra=spec, op=sym, index=str(idx), keys=[ka, kb])
        # 1b. an array of elements combined with ONE element (number coefficients, as a list or as a 1-D array), also when the number
        #     of elements equals the number of stored blades (a square coefficient array): every element is combined with that element
        kq = rng.sample(canon, rng.randint(2, min(4, len(canon))))
        for n_el in (len(kq), len(kq) + 1):
            Xq = MultiVector.fromkeysvalues(alg, tuple(kq), np.array([[float(rng.randint(-9, 9)) for _ in range(n_el)] for _ in kq]))
            one_vals = [float(rng.randint(-9, 9)) for _ in kq]
            for one_kind in ('list', 'ndarray'):
                One = MultiVector.fromkeysvalues(alg, tuple(kq), list(one_vals) if one_kind == 'list' else np.array(one_vals))
                for sym in ('+', '-', '*'):
                    R.count('clause=array-with-one-element'); R.case(('arr-one', algs.describe(spec), sym, tuple(kq), n_el, one_kind), True)
                    for side in ('left', 'right'):
                        try:
                            res = PY[sym](Xq, One) if side == 'left' else PY[sym](One, Xq)
                            ok = all(same(items(res[i]), items(PY[sym](Xq[i], One) if side == 'left' else PY[sym](One, Xq[i]))) for i in range(n_el))
                        except Exception as e:  # noqa
                            viol('array-op-raises', f'array of {n_el} elements {sym} one element ({one_kind} coefficients) raised {type(e).__name__}: {e}'[:300], algebra=spec, op=sym)
                            continue
                        if not ok:
                            viol('index-commutes', f'(X {sym} y)[i] != X[i] {sym} y for an array X of {n_el} elements on {len(kq)} blades ({side}: the array) and a single element y '
                                                   f'with {one_kind} coefficients in Algebra({algs.describe(spec)})', algebra=spec, op=sym, keys=[kq], index='all')
        for opname in rng.sample(UNARY, 3):
            # the three public forms in turn: alg.op(X), the method X.op(), the prefix operator where there is one
            form = rng.choice(['alg', 'method', 'prefix'])
            def un(v):
                if form == 'prefix' and opname == 'reverse':
                    return ~v
                if form == 'prefix' and opname == 'neg':
                    return -v
                if form == 'method' and hasattr(v, opname):
                    return getattr(v, opname)()
                return getattr(alg, opname)(v)
            idx = rng.choice(idxs)
            R.count('unary-form=' + form); R.case(('idx1', algs.describe(spec), opname, form, tuple(ka), str(shape), str(idx)), True)
            try:
                res = un(X)
                ok = same(items(res[idx]), items(un(X[idx])))
            except Exception as e:  # noqa
                viol('array-op-raises', f'{opname}(X) ({form} form) raised {type(e).__name__}: {e} for shape {shape} ({container})'[:300], algebra=spec, op=opname)
                continue
            if not ok:
                viol('index-commutes', f'{opname}(X)[{idx}] != {opname}(X[{idx}]) ({form} form, shape {shape}, {container})', algebra=spec, op=opname, index=str(idx))
        # 2. getitem / setitem touch exactly the addressed entries
        idx = rng.choice(idxs)
        before = [np.array(v, dtype=float).copy() for v in X.values()]
        got = X[idx]
        R.count('clause=getitem'); R.case(('get', it, str(idx)), True)
        if list(got.keys()) != list(X.keys()) or not all(np.array_equal(np.asarray(g), b[idx]) for g, b in zip(got.values(), before)):
            viol('getitem', f'X[{idx}] does not hold values[..., {idx}] of every coefficient', algebra=spec, index=str(idx))
        newvals = [np.asarray(b[idx]) * 0 + 7.0 for b in before]
        R.count('clause=setitem'); R.case(('set', it, str(idx)), True)
        try:
            X[idx] = MultiVector.fromkeysvalues(alg, X.keys(), newvals)
        except Exception as e:  # noqa
            viol('setitem-raises', f'X[{idx}] = V raised {type(e).__name__}: {e} (shape {shape}, {container})'[:300], algebra=spec, index=str(idx))
        for v, b in zip(X.values(), before):
            exp = b.copy(); exp[idx] = 7.0
            if not np.array_equal(np.asarray(v), exp):
                viol('setitem', f'X[{idx}] = V changed entries other than the addressed ones (or not the addressed ones)', algebra=spec, index=str(idx))
                break
        # 3. plain numbers on either side = the scalar multivector
        x = oc.make_mv(alg, kb, [float(v) for v in oc.random_values(rng, len(kb), zero_p=0)])
        for num in (3, 2.5, np.float64(4.0), np.int64(2), 0, 1, -1, 0.0):
            sc = MultiVector.fromkeysvalues(alg, (0,), [num])
            for sym, opname in INFIX.items():
                for side in ('left', 'right'):
                    R.count('clause=number'); R.count('number=' + type(num).__name__)
                    R.case(('num', algs.describe(spec), sym, side, type(num).__name__, tuple(kb)), True)
                    def outcome(f):
                        try:
                            return ('ok', items(f()))
                        except Exception as e:  # noqa
                            return ('err', type(e).__name__)
                    w = outcome(lambda: PY[sym](sc, x) if side == 'left' else PY[sym](x, sc))
                    g = outcome(lambda: PY[sym](num, x) if side == 'left' else PY[sym](x, num))
                    if w[0] == 'err' or g[0] == 'err':
                        if w != g:
                            viol('number-raises', f'{num!r} {sym} x ({side}): {g}, with the scalar multivector: {w}', algebra=spec, op=sym, side=side, number=repr(num))
                        continue
                    got, want = g[1], w[1]
                    if not same(got, want):
                        viol('number-operand', f'{"number " + sym + " x" if side == "left" else "x " + sym + " number"} with number={num!r} differs from the scalar multivector: {got} vs {want}',
                             algebra=spec, op=sym, side=side, number=repr(num), x=[(k, float(v)) for k, v in zip(x.keys(), x.values())])
        # 3b. numbers that compare equal but are different numbers for python (2 / 2.0, 1024 / 1024.0 with a coefficient beyond 2**53,
        #     0.0 / -0.0), one after the other on the same algebra and operator: each acts as ITS scalar multivector (types and signs kept)
        import math as _math
        xb = oc.make_mv(alg, kb[:2] or [0], [2 ** 53 + 1, 3][:len(kb[:2]) or 1])
        def strict(v_):
            v_ = v_.item() if hasattr(v_, 'item') and not isinstance(v_, (int, float)) else v_
            return (type(v_).__name__, v_, _math.copysign(1.0, v_) if isinstance(v_, float) else 0)
        for seq in ((1024, 1024.0), (2.0, 2), (0.0, -0.0), (-0.0, 0.0), (True, 1.0)):
            for num in seq:
                R.count('clause=number-equal-but-different'); R.case(('num-eq', algs.describe(spec), repr(seq), repr(num), tuple(kb[:2])), True)
                try:
                    g_ = xb * num
                    w_ = xb * MultiVector.fromkeysvalues(alg, (0,), [num])
                    gs, ws = {int(k_): strict(v_) for k_, v_ in zip(g_.keys(), g_.values())}, {int(k_): strict(v_) for k_, v_ in zip(w_.keys(), w_.values())}
                except Exception as e:  # noqa
                    viol('number-raises', f'x * {num!r} raised {type(e).__name__}', algebra=spec, op='*', side='right', number=repr(num)); continue
                if gs != ws:
                    viol('number-operand', f'x * {num!r} (after x * {seq[0]!r} on the same algebra) = {gs}, with the scalar multivector holding {num!r}: {ws}; x = {dict(zip(xb.keys(), xb.values()))}',
                         algebra=spec, op='*', side='right', number=repr(num), x=[(int(k_), int(v_)) for k_, v_ in zip(xb.keys(), xb.values())])
        # 3c. an array of exact numbers (dtype object: Fractions) as the other operand = the scalar multivector holding that array
        from fractions import Fraction as _Fr
        wts = np.array([_Fr(2, 7), _Fr(-1, 3), _Fr(5, 2)][:shape[0]] + [_Fr(1, 2)] * max(0, shape[0] - 3), dtype=object)
        if len(shape) == 1:
            R.count('clause=object-array-operand'); R.case(('objarr', algs.describe(spec), tuple(ka), str(shape)), True)
            try:
                res_o = X * wts
                if not isinstance(res_o, MultiVector):
                    viol('number-operand', f'X * (object array of {len(wts)} Fractions) is a {type(res_o).__name__}, not a multivector (shape {shape}, {container})', algebra=spec, op='*', side='right', number='object array')
                else:
                    for i_ in range(shape[0]):
                        l_ = {int(k_): float(np.asarray(v_).reshape(-1)[0]) for k_, v_ in zip(res_o[i_].keys(), res_o[i_].values())}
                        r_ = {int(k_): float(v_) * float(wts[i_]) for k_, v_ in zip(X[i_].keys(), X[i_].values())}
                        if any(abs(l_.get(k_, 0) - r_.get(k_, 0)) > 1e-9 for k_ in set(l_) | set(r_)):
                            viol('index-commutes', f'(X * w)[{i_}] != X[{i_}] * w[{i_}] for an object array w of Fractions (shape {shape}, {container})', algebra=spec, op='*', index=str(i_), keys=[ka])
                            break
            except Exception as e:  # noqa
                viol('array-op-raises', f'X * (object array of Fractions) raised {type(e).__name__}: {e}'[:200], algebra=spec, op='*')
        # 4. list / tuple operands, callables, operand order with non-commuting operands
        a = oc.make_mv(alg, ka, [float(v) for v in oc.random_values(rng, len(ka), zero_p=0)])
        b = oc.make_mv(alg, kb, [float(v) for v in oc.random_values(rng, len(kb), zero_p=0)])
        kc = rng.sample(canon, rng.randint(1, min(3, len(canon))))
        c = oc.make_mv(alg, kc, [float(v) for v in oc.random_values(rng, len(kc), zero_p=0)])
        for sym, opname in INFIX.items():
            if opname == 'div':
                continue
            for ctor in (list, tuple):
                for side in ('left', 'right'):
                    R.count('clause=sequence'); R.case(('seq', algs.describe(spec), sym, ctor.__name__, side, tuple(ka), tuple(kb), tuple(kc)), True)
                    seq = ctor([a, b])
                    try:
                        got = PY[sym](seq, c) if side == 'left' else PY[sym](c, seq)
                        want = ctor([PY[sym](a, c), PY[sym](b, c)]) if side == 'left' else ctor([PY[sym](c, a), PY[sym](c, b)])
                    except Exception as e:  # noqa
                        viol('sequence-raises', f'{ctor.__name__} {side} of {sym} raised {type(e).__name__}: {e}', algebra=spec, op=sym, side=side); continue
                    if type(got) is not ctor or len(got) != 2 or not all(same(items(g), items(w)) for g, w in zip(got, want)):
                        viol('sequence-operand', f'[a, b] {sym} c with the {ctor.__name__} on the {side}: results are not (a {sym} c, b {sym} c) in order '
                                                 f'(operand order or mapping broken) in Algebra({algs.describe(spec)}); a keys {ka}, b keys {kb}, c keys {kc}',
                             algebra=spec, op=sym, side=side, container=ctor.__name__,
                             a=[(k, float(v)) for k, v in zip(a.keys(), a.values())], b=[(k, float(v)) for k, v in zip(b.keys(), b.values())],
                             c=[(k, float(v)) for k, v in zip(c.keys(), c.values())])
            for side in ('left', 'right'):
                R.count('clause=callable'); R.case(('call', algs.describe(spec), sym, side, tuple(ka), tuple(kc)), True)
                f = (lambda: (lambda: a))
                try:
                    got = items(PY[sym](f, c) if side == 'left' else PY[sym](c, f))
                    want = items(PY[sym](a, c) if side == 'left' else PY[sym](c, a))
                except TypeError:
                    if side == 'left':
                        continue        # a function on the LEFT of an infix operator reaches the reflected dunder only if python dispatches to it
                    viol('callable-raises', f'c {sym} callable raised TypeError', algebra=spec, op=sym); continue
                except Exception as e:  # noqa
                    viol('callable-raises', f'callable on the {side} of {sym} raised {type(e).__name__}', algebra=spec, op=sym); continue
                if not same(got, want):
                    viol('callable-operand', f'a nested callable on the {side} of {sym} is not replaced by its value with the operand order kept',
                         algebra=spec, op=sym, side=side)

        # 4b. a list of elements of ONE grade, each storing the same number of coefficients on DIFFERENT blades (basis vectors, axis
        #     planes): every element is combined on its own blades
        g1 = [k for k in canon if bin(k).count('1') == 1]
        if len(g1) >= 2:
            frame = [oc.make_mv(alg, [k], [float(i_ + 2)]) for i_, k in enumerate(g1)]
            for sym in ('*', '>>', '^', '+'):
                for side in ('left', 'right'):
                    R.count('clause=sequence-same-shape'); R.case(('seq-frame', algs.describe(spec), sym, side, tuple(kc)), True)
                    try:
                        got = PY[sym](frame, c) if side == 'left' else PY[sym](c, frame)
                        want = [PY[sym](e_, c) if side == 'left' else PY[sym](c, e_) for e_ in frame]
                    except Exception as e:  # noqa
                        viol('sequence-raises', f'list of basis vectors on the {side} of {sym} raised {type(e).__name__}: {e}'[:200], algebra=spec, op=sym, side=side); continue
                    if len(got) != len(want) or not all(same(items(g_), items(w_)) for g_, w_ in zip(got, want)):
                        viol('sequence-operand', f'[e_i ...] {sym} c with the list of weighted basis vectors {[dict(zip(e_.keys(), e_.values())) for e_ in frame]} on the {side}: '
                                                 f'element-wise results differ ({[dict(zip(g_.keys(), g_.values())) for g_ in got]} vs {[dict(zip(w_.keys(), w_.values())) for w_ in want]}) '
                                                 f'in Algebra({algs.describe(spec)}), c keys {kc}', algebra=spec, op=sym, side=side, container='list',
                             c=[(k, float(v)) for k, v in zip(c.keys(), c.values())])
        # 5. division with a sequence / callable / array of elements on the left: `other / c` is other * c.inv() element by
        #    element, in this order (c an invertible element that does not commute with the numerators)
        nn = [k for k in canon if k and bin(k).count('1') == 1 and sig[int(k).bit_length() - 1] != 0]
        if len(nn) >= 2:
            kc2 = rng.sample(nn, 2)
            c2 = oc.make_mv(alg, kc2, [2.0, 1.0])
            if abs(float((c2 * c2).e)) > 1e-9:           # invertible vector (its square is a non-zero scalar)
                for ctor in (list, tuple):
                    R.count('clause=sequence-division'); R.case(('seqdiv', algs.describe(spec), ctor.__name__, tuple(ka), tuple(kb), tuple(kc2)), True)
                    try:
                        got = ctor([a, b]) / c2
                        want = [a * c2.inv(), b * c2.inv()]
                    except Exception as e:  # noqa
                        viol('sequence-raises', f'{ctor.__name__} / c raised {type(e).__name__}: {e}', algebra=spec, op='/', side='left'); continue
                    if type(got) is not ctor or len(got) != 2 or not all(same(items(g), items(w)) for g, w in zip(got, want)):
                        viol('sequence-operand', f'[a, b] / c with a {ctor.__name__} on the left is not (a * c.inv(), b * c.inv()) in Algebra({algs.describe(spec)}); '
                                                 f'a keys {ka}, b keys {kb}, c = 2 e{kc2[0]} + e{kc2[1]} (binary keys)',
                             algebra=spec, op='/', side='left', container=ctor.__name__,
                             a=[(k, float(v)) for k, v in zip(a.keys(), a.values())], b=[(k, float(v)) for k, v in zip(b.keys(), b.values())],
                             c=[(k, float(v)) for k, v in zip(c2.keys(), c2.values())])
                try:
                    got = items((lambda: a) / c2); want = items(a * c2.inv())
                    R.count('clause=callable-division'); R.case(('calldiv', algs.describe(spec), tuple(ka), tuple(kc2)), True)
                    if not same(got, want):
                        viol('callable-operand', f'callable / c is not value * c.inv() (operand order) in Algebra({algs.describe(spec)})', algebra=spec, op='/', side='left')
                except TypeError:
                    pass            # python did not dispatch to the reflected dunder

    storage_part(R, tier)


# ======================================================================================================
# correspondence with Model/Storage.v (evaluated inside Coq): storage kinds, index forms, assignment,
# shape / itermv / items / map, and the operand normalisation of OperatorDict._call_binary
# ======================================================================================================
class Unobservable(Exception):
    pass


def coef_term(e):
    kind, v = e
    if kind == 'arr':
        return f'(CArr {kv.zlist(v)})'
    return f'({"CNp" if kind == "np" else "CNum"} {kv.Z(v)})'


def store_term(s):
    if s[0] == 'list':
        return '(LBack (' + kv.blist(coef_term(e) for e in s[1]) + ' : list (coef Z)))'
    if s[0] == 'nd1':
        return f'(Nd1 ({kv.zlist(s[1])} : list Z))'
    return f'(Nd2 {kv.nat(s[1])} ({kv.blist(kv.zlist(r) for r in s[2])} : list (list Z)))'


def smv_term(keys, s):
    return f'(mkSmv {kv.zlist(keys)} {store_term(s)})'


def build_store(s):
    import numpy as np
    if s[0] == 'list':
        return [np.array(v, dtype=np.int64) if k == 'arr' else (np.int64(v) if k == 'np' else int(v)) for k, v in s[1]]
    if s[0] == 'nd1':
        return np.array(s[1], dtype=np.int64)
    return np.array(s[2], dtype=np.int64).reshape(len(s[2]), s[1])


def obs_store(vals):
    import numpy as np
    if isinstance(vals, np.ndarray):
        if vals.ndim == 1:
            return ('nd1', [int(x) for x in vals])
        if vals.ndim == 2:
            return ('nd2', int(vals.shape[1]), [[int(x) for x in r] for r in vals])
        raise Unobservable(f'ndarray of rank {vals.ndim}')
    if not isinstance(vals, (list, tuple)):
        raise Unobservable(type(vals).__name__)
    out = []
    for v in vals:
        if isinstance(v, np.ndarray):
            if v.ndim != 1:
                raise Unobservable(f'entry of rank {v.ndim}')
            out.append(('arr', [int(x) for x in v]))
        elif isinstance(v, np.generic):
            out.append(('np', int(v)))
        elif isinstance(v, (int, float)):
            out.append(('num', int(v)))
        else:
            raise Unobservable(type(v).__name__)
    return ('list', out)


def store_entries(s):
    """coarse view: per key (values, is_array)"""
    if s[0] == 'list':
        return [(list(v), True) if k == 'arr' else ([v], False) for k, v in s[1]]
    if s[0] == 'nd1':
        return [([v], False) for v in s[1]]
    return [(list(r), True) for r in s[2]]


def idx1_term(i):
    if isinstance(i, slice):
        o = lambda v: 'None' if v is None else f'(Some {kv.Z(v)})'
        return f'(ISlice (mkSlice {o(i.start)} {o(i.stop)} {o(i.step)}))'
    return f'(IInt {kv.Z(i)})'


def item_term(it):
    if isinstance(it, tuple):
        return '(PyTup (' + kv.blist(idx1_term(i) for i in it) + ' : list idx1))'
    return f'(PyOne {idx1_term(it)})'


def item_enc(it):
    e1 = lambda i: ['s', i.start, i.stop, i.step] if isinstance(i, slice) else i
    return {'t': [e1(i) for i in it]} if isinstance(it, tuple) else e1(it)


def item_dec(j):
    d1 = lambda i: slice(i[1], i[2], i[3]) if isinstance(i, list) else i
    return tuple(d1(i) for i in j['t']) if isinstance(j, dict) else d1(j)


def err_name(e):
    return oc.ERRMAP.get(type(e).__name__, 'EOther')


def positions(item, n):
    """positions of an axis of length n the subscript addresses (python's own slice.indices), None = the
    subscript is invalid for this axis"""
    ix = item if isinstance(item, tuple) else (item,)
    if len(ix) == 0:
        return list(range(n)), True
    if len(ix) > 1:
        return None, None
    i = ix[0]
    if isinstance(i, slice):
        if i.step == 0:
            return None, None
        return list(range(*i.indices(n))), True
    if -n <= i < n:
        return [i % n], False
    return None, None


def rand_idx1(rng, n):
    if rng.random() < 0.5:
        return rng.randint(-n - 2, n + 1)
    o = lambda: None if rng.random() < 0.35 else rng.randint(-n - 3, n + 3)
    return slice(o(), o(), rng.choice([None, None, 1, 1, 2, -1, -1, -2, 3, -3, 0]))


def rand_item(rng, n):
    u = rng.random()
    if u < 0.7:
        return rand_idx1(rng, n)
    if u < 0.78:
        return ()
    if u < 0.93:
        return (rand_idx1(rng, n),)
    return (rand_idx1(rng, n), rand_idx1(rng, n))


def rand_store(rng, k=None, n=None, kinds=('list', 'list', 'nd2', 'nd2', 'nd1')):
    k = rng.choice((0, 1, 1, 2, 2, 3, 3, 4)) if k is None else k
    n = rng.randint(1, 4) if n is None else n
    kind = rng.choice(kinds)
    val = lambda: rng.randint(-9, 9)
    if kind == 'nd1':
        return ('nd1', [val() for _ in range(k)])
    if kind == 'nd2':
        return ('nd2', n, [[val() for _ in range(n)] for _ in range(k)])
    mode = rng.choice(['uniform'] * 5 + ['ragged', 'mixed'])
    ents = []
    for _ in range(k):
        if mode == 'mixed' and rng.random() < 0.4:
            ents.append((rng.choice(['np', 'num']), val()))
        else:
            ents.append(('arr', [val() for _ in range(n if mode != 'ragged' else rng.randint(0, 4))]))
    return ('list', ents)


def store_kind(s):
    if s[0] != 'list':
        return 'ndarray' if s[0] == 'nd2' else 'ndarray-1d'
    ks = {k for k, _ in s[1]}
    if ks <= {'arr'}:
        return 'list-of-arrays' if len({len(v) for _, v in s[1]}) <= 1 else 'list-ragged'
    return 'list-mixed'


def axis_len(s):
    if s[0] == 'nd2':
        return s[1]
    if s[0] == 'list':
        for k, v in s[1]:
            if k == 'arr':
                return len(v)
    return 2


def getitem_case(alg, keys, Xs, item):
    """run X[item] on the real code; -> (case dict for Coq, direct-oracle failure or None)"""
    from kingdon import MultiVector
    X = MultiVector.fromkeysvalues(alg, tuple(keys), build_store(Xs))
    oracle = None
    try:
        Y = X[item]
        out = obs_store(Y.values())
        exp = f'(Ok {smv_term(list(Y.keys()), out)})'
        impl = {'keys': list(Y.keys()), 'values': out}
        # the property itself: same keys in the same order, per key exactly values[key][idx]
        want = []
        for (vals, isarr), kind in zip(store_entries(Xs), [k for k, _ in Xs[1]] if Xs[0] == 'list' else itertools.repeat('np')):
            if isarr:
                ps, keep = positions(item, len(vals))
            else:       # a numpy scalar may be subscripted with the empty tuple only, a python number not at all
                ps, keep = ([0], False) if item == () and kind != 'num' else (None, None)
            if ps is None:
                want = None
                break
            want.append(([vals[p] for p in ps], keep))
        if list(Y.keys()) != list(keys) or want is None or store_entries(out) != want:
            oracle = f'X[{item!r}] = {out} for values {Xs}: not values[key][idx] for every key'
    except Unobservable as e:
        exp, impl = '(Err EOther)', f'unobservable result: {e}'
    except Exception as e:  # noqa
        exp, impl = f'(Err {err_name(e)})', type(e).__name__
        ents = store_entries(Xs)
        if ents and all(isarr and positions(item, len(vals))[0] is not None for vals, isarr in ents):
            oracle = f'X[{item!r}] raised {type(e).__name__} although the subscript is valid for every coefficient of {Xs}'
    Xt, it = smv_term(keys, Xs), item_term(item)
    return {'check': f'res_eqb smv_eqb (mv_getitem {Xt} {it}) {exp}',
            'coarse': f'res_eqb smv_coarse_eqb (mv_getitem {Xt} {it}) {exp}',
            'show': f'mv_getitem {Xt} {it}',
            'meta': {'clause': 'storage-getitem', 'keys': list(keys), 'X': Xs, 'item': item_enc(item), 'impl': impl}}, oracle


def rhs_term(V):
    if V[0] == 'mv':
        return f'(FromMv {kv.zlist(V[1])} {store_term(V[2])})'
    if V[0] == 'raw':
        return f'(FromRaw {store_term(V[1])})'
    return f'(FromNum {kv.Z(V[1])})'


def build_rhs(alg, V):
    from kingdon import MultiVector
    if V[0] == 'mv':
        return MultiVector.fromkeysvalues(alg, tuple(V[1]), build_store(V[2]))
    if V[0] == 'raw':
        return build_store(V[1])
    return int(V[1])


def rand_rhs(rng, alg, keys, Xs, item):
    """-> (V descriptor, mode).  'aligned' = a multivector with the keys of X and the shape of X[item]."""
    from kingdon import MultiVector
    k = len(store_entries(Xs))
    val = lambda: rng.randint(-9, 9)
    mode = rng.choice(['aligned'] * 6 + ['scalars'] * 2 + ['misaligned', 'wrongkeys', 'raw', 'raw', 'num'])
    shapes = None
    try:
        import numpy as np
        Y = MultiVector.fromkeysvalues(alg, tuple(keys), build_store(Xs))[item]
        shapes = [tuple(np.shape(v)) for v in Y.values()]
    except Exception:  # noqa
        pass
    if mode in ('aligned', 'wrongkeys'):
        if shapes is None or len(shapes) != len(keys) or Xs[0] == 'nd1' or (Xs[0] == 'list' and any(kd != 'arr' for kd, _ in Xs[1])):
            shapes = [rng.choice([(), (rng.randint(0, 3),)]) for _ in range(k)]
            mode = 'misaligned' if mode == 'aligned' else mode
        if shapes and all(sh == shapes[0] for sh in shapes) and rng.random() < 0.5:
            st = ('nd1', [val() for _ in shapes]) if shapes[0] == () else \
                 ('nd2', shapes[0][0], [[val() for _ in range(shapes[0][0])] for _ in shapes])
        else:
            st = ('list', [(rng.choice(['np', 'num']), val()) if sh == () else ('arr', [val() for _ in range(sh[0])]) for sh in shapes])
        ks = list(keys)
        if mode == 'wrongkeys':
            ks = ks[::-1] if len(set(ks)) > 1 and rng.random() < 0.5 else ks + [99]
            if ks == list(keys):
                mode = 'aligned'
        return ('mv', ks, st), mode
    if mode == 'scalars':
        st = ('nd1', [val() for _ in range(k)]) if rng.random() < 0.5 else ('list', [(rng.choice(['np', 'num']), val()) for _ in range(k)])
        return ('mv', list(keys), st), mode
    if mode == 'misaligned':
        return ('mv', list(keys), rand_store(rng, k=k, n=rng.randint(0, 4))), mode
    if mode == 'raw':
        return ('raw', rand_store(rng, k=max(0, rng.choice((k - 1, k, k, k + 1, 1, 0))), n=rng.choice((axis_len(Xs), rng.randint(0, 4))))), mode
    return ('num', val()), mode


def setitem_case(alg, keys, Xs, item, V, mode):
    from kingdon import MultiVector
    X = MultiVector.fromkeysvalues(alg, tuple(keys), build_store(Xs))
    Vpy = build_rhs(alg, V)
    err = None
    try:
        X[item] = Vpy
    except Exception as e:  # noqa
        err = e
    oracle = None
    try:
        after = obs_store(X.values())
        exp = f'({store_term(after)}, {"None" if err is None else "Some " + err_name(err)})'
        impl = {'values': after, 'raised': None if err is None else type(err).__name__}
        # the property itself.  Frame: nothing but the addressed entries of every coefficient changes, whatever happens.
        b, a = store_entries(Xs), store_entries(after)
        if len(a) != len(b) or list(X.keys()) != list(keys):
            oracle = ('setitem-frame', 'number of coefficients or keys changed')
        else:
            for j, ((bv, barr), (av, aarr)) in enumerate(zip(b, a)):
                ps = positions(item, len(bv))[0] if barr else None      # a coefficient that is a number cannot be assigned into
                if barr != aarr or len(av) != len(bv) or any(av[q] != bv[q] for q in range(len(bv)) if ps is None or q not in ps):
                    oracle = ('setitem-frame', f'coefficient {j} changed outside the addressed entries: {bv} -> {av}')
                    break
        # Exact: a multivector with the keys of X whose coefficients have the addressed shape is stored entry for entry;
        # one whose coefficients are numbers gives every blade ITS OWN number, broadcast over the addressed entries --
        # for both storage kinds (regression stream of the fixed finding `X[:] = V` on array-backed X)
        ents = store_entries(Xs)
        valid = Xs[0] != 'nd1' and all(isarr and positions(item, len(vals))[0] is not None for vals, isarr in ents) \
            and (Xs[0] != 'nd2' or positions(item, Xs[1])[0] is not None)
        if oracle is None and valid and mode in ('aligned', 'scalars') and V[0] == 'mv' and list(V[1]) == list(keys):
            clause = 'setitem-exact' if mode == 'aligned' else 'setitem-scalar-broadcast'
            want = []
            for (vals, _), (vv, varr) in zip(ents, store_entries(V[2])):
                ps, keep = positions(item, len(vals))
                want.append((vv, True) if varr else ((vv * len(ps), True) if keep else (vv, False)))
            if err is not None:
                oracle = (clause, f'raised {type(err).__name__}: {err}'[:200])
            else:
                got = store_entries(obs_store(X[item].values()))
                if got != want:
                    oracle = (clause, f'X[idx] afterwards holds {got}, assigned {store_entries(V[2])}: every blade must receive its own coefficient')
    except Unobservable as e:
        exp, impl = '(LBack [], Some EOther)', f'unobservable: {e}'
    Xt, it, Vt = smv_term(keys, Xs), item_term(item), rhs_term(V)
    return {'check': f'set_outcome_eqb (mv_setitem {Xt} {it} {Vt}) {exp}',
            'coarse': f'set_outcome_coarse_eqb (mv_setitem {Xt} {it} {Vt}) {exp}',
            'show': f'mv_setitem {Xt} {it} {Vt}',
            'meta': {'clause': 'storage-setitem', 'keys': list(keys), 'X': Xs, 'item': item_enc(item), 'V': V, 'mode': mode, 'impl': impl}}, oracle


def misc_case(alg, keys, Xs, what):
    """shape / itermv / items / map against the model"""
    from kingdon import MultiVector
    X = MultiVector.fromkeysvalues(alg, tuple(keys), build_store(Xs))
    Xt = smv_term(keys, Xs)
    if what == 'shape':
        try:
            exp = kv.natlist(X.shape); chk = f'list_eqb Nat.eqb (mv_shape {Xt}) {exp}'
        except Exception as e:  # noqa
            exp = type(e).__name__; chk = 'false'
        show = f'mv_shape {Xt}'
    elif what == 'itermv':
        try:
            g = X.itermv()
            if g is X:
                exp = f'(ItSelf {Xt})'
            else:
                outs = []
                while True:
                    try:
                        Y = next(g)
                        outs.append(f'(Ok {smv_term(list(Y.keys()), obs_store(Y.values()))})')
                    except StopIteration:
                        break
                    except Unobservable:
                        outs.append('(Err EOther)'); break
                    except Exception as e:  # noqa
                        outs.append(f'(Err {err_name(e)})'); break
                exp = '(ItGen (' + kv.blist(outs) + ' : list (res (smv Z))))'
        except Exception as e:  # noqa
            exp = f'(ItErr {err_name(e)})'
        chk = f'iter_eqb (match mv_itermv {Xt} true with ItGen g => ItGen (gen_consume g) | r => r end) {exp}'
        show = f'mv_itermv {Xt} true'
    elif what == 'itermv-axis':
        try:
            g = X.itermv(axis=0)
            exp = f'(ItSelf {Xt})' if g is X else '(ItErr EOther)'
        except Exception as e:  # noqa
            exp = f'(ItErr {err_name(e)})'
        chk = f'iter_eqb (mv_itermv {Xt} false) {exp}'
        show = f'mv_itermv {Xt} false'
    elif what == 'items':
        its = list(X.items())
        ent = obs_store([v for _, v in its])
        exp = kv.blist(kv.pair(kv.Z(k), coef_term(e)) for (k, _), e in zip(its, ent[1]))
        chk = (f'list_eqb (pair_eqb Z.eqb coef_eqb) (mv_items {Xt}) ({exp} : list (Z * coef Z)) && list_eqb Z.eqb (mv_keys {Xt}) {kv.zlist(X.keys())} '
               f'&& store_eqb (mv_values {Xt}) {store_term(obs_store(X.values()))} && Nat.eqb (mv_len {Xt}) {kv.nat(len(X))}')
        show = f'mv_items {Xt}'
    else:
        two = what == 'map2'
        Y = X.map((lambda k, v: v) if two else (lambda v: v))
        exp = smv_term(list(Y.keys()), obs_store(Y.values()))
        chk = f'smv_eqb ({"mv_map2 (fun _ c => c)" if two else "mv_map1 (fun c => c)"} {Xt}) {exp}'
        show = f'mv_map1 (fun c => c) {Xt}'
    return {'check': chk, 'coarse': chk, 'show': show,
            'meta': {'clause': 'storage-' + what, 'keys': list(keys), 'X': Xs, 'impl': exp}}


# ---- operands
def rand_operand(rng, depth, keysets, other_p=0.04):
    u = rng.random()
    if depth <= 0 or u < 0.3:
        if rng.random() < 0.4:
            return ('num', rng.choice([v for v in range(-5, 6) if v]), rng.choice(['int', 'int', 'np']))
        ks = rng.choice(keysets)
        return ('mv', 1 if rng.random() < other_p else 0, [(k, v) for k, v in zip(ks, oc.random_values(rng, len(ks), zero_p=0))])
    if u < 0.55:
        return ('seq', [rand_operand(rng, depth - 1, keysets, other_p) for _ in range(rng.choice((0, 1, 2, 2, 3)))])
    if u < 0.75:
        return ('tup', [rand_operand(rng, depth - 1, keysets, other_p) for _ in range(rng.choice((0, 1, 2, 2, 3)))])
    return ('call', rand_operand(rng, depth - 1, keysets, other_p))


def build_operand(algs2, o):
    import numpy as np
    if o[0] == 'num':
        return np.int64(o[1]) if o[2] == 'np' else int(o[1])
    if o[0] == 'mv':
        return oc.make_mv(algs2[o[1]], [k for k, _ in o[2]], [v for _, v in o[2]])
    if o[0] == 'seq':
        return [build_operand(algs2, x) for x in o[1]]
    if o[0] == 'tup':
        return tuple(build_operand(algs2, x) for x in o[1])
    v = build_operand(algs2, o[1])
    return lambda v=v: v


def operand_term(o):
    if o[0] == 'num':
        return f'(ONum {kv.Z(o[1])})'
    if o[0] == 'mv':
        return f'(OMv {kv.nat(o[1])} ({oc.mv_term(o[2])} : mv Z))'
    if o[0] in ('seq', 'tup'):
        return f'({"OSeq" if o[0] == "seq" else "OTup"} ({kv.blist(operand_term(x) for x in o[1])} : list (operand Z)))'
    return f'(OCall {operand_term(o[1])})'


def operand_kinds(o, acc):
    acc.add(o[0])
    if o[0] in ('seq', 'tup'):
        for x in o[1]:
            operand_kinds(x, acc)
    elif o[0] == 'call':
        operand_kinds(o[1], acc)
    return acc


def obs_result(r):
    from kingdon import MultiVector
    if isinstance(r, MultiVector):
        return ('mv', oc.observe(r))
    if isinstance(r, list):
        return ('seq', [obs_result(x) for x in r])
    if isinstance(r, tuple):
        return ('tup', [obs_result(x) for x in r])
    raise Unobservable(type(r).__name__)


def result_term(r):
    if r[0] == 'mv':
        return f'(RMv ({oc.mv_term(r[1])} : mv Z))'
    return f'({"RSeq" if r[0] == "seq" else "RTup"} ({kv.blist(result_term(x) for x in r[1])} : list (result Z)))'


def result_same(a, b):
    if a[0] != b[0]:
        return False
    if a[0] == 'mv':
        return oc.same_element(a[1], b[1]) and {k for k, _ in a[1]} == {k for k, _ in b[1]}
    return len(a[1]) == len(b[1]) and all(result_same(x, y) for x, y in zip(a[1], b[1]))


def spec_norm(alg, f, l, r):
    """what the property demands of `l op r`: callables replaced by their values, a sequence on the right, then on
    the left, gives the sequence of results in order, a number is the scalar multivector, operand order kept"""
    from kingdon import MultiVector

    def strip(o):
        while callable(o) and not isinstance(o, MultiVector):
            o = o()
        return type(o)(strip(x) for x in o) if isinstance(o, (list, tuple)) else o

    def go(l, r):
        if isinstance(r, (list, tuple)):
            return type(r)(go(l, x) for x in r)
        if isinstance(l, (list, tuple)):
            return type(l)(go(x, r) for x in l)
        w = lambda a: a if isinstance(a, MultiVector) else MultiVector.fromkeysvalues(alg, (0,), [a])
        return f(w(l), w(r))
    return go(strip(l), strip(r))


def operand_case(pool, spec, algs2, opname, L, R_, form):
    alg = algs2[0]
    from kingdon import MultiVector
    l, r = build_operand(algs2, L), build_operand(algs2, R_)
    f = getattr(alg, opname)
    oracle = None
    try:
        if form == 'infix':
            got = oc.INFIX[opname](l, r)
        else:
            got = f(l, r)
        out = obs_result(got)
        exp = f'(Ok {result_term(out)})'
        impl = out
    except Unobservable as e:
        out, exp, impl = None, '(Err EOther)', f'unobservable: {e}'
    except Exception as e:  # noqa
        out, exp, impl = type(e).__name__, f'(Err {err_name(e)})', type(e).__name__
    try:
        want = obs_result(spec_norm(alg, f, l, r))
    except Exception as e:  # noqa
        want = type(e).__name__
    if isinstance(out, str) or isinstance(want, str):
        if out != want:
            oracle = f'implementation {impl}, the property demands {want}'
    elif out is None or not result_same(out, want):
        oracle = f'implementation {impl}, the property demands {want}'
    ref, dfn = pool.ref(spec)
    term = f'call_binary_total 0%nat (fun x y => Ok ({opname} Zops A x y)) {operand_term(L)} {operand_term(R_)}'
    return {'check': algs.with_alg(ref, f'res_result_same A ({term}) {exp}'), 'coarse': None,
            'show': algs.with_alg(ref, term, '(Err EOther)'), 'defs': [dfn],
            'meta': {'clause': 'operand-normalisation', 'algebra': spec, 'op': opname, 'left': L, 'right': R_, 'form': form, 'impl': impl}}, oracle


def storage_part(R, tier):
    rng = R.rng
    alg = algs.make_impl({'sig': [1, 1, 1]})
    cases = []
    n = 1 if tier == 'quick' else 25

    def rand_X(kinds=('list', 'list', 'nd2', 'nd2', 'nd1')):
        Xs = rand_store(rng, kinds=kinds)
        k = len(store_entries(Xs))
        keys = rng.sample(range(8), k)
        if rng.random() < 0.05:
            keys = keys + [8]          # len(keys) != len(values): only __getitem__ / items notice
        return keys, Xs
    for _ in range(450 * n):
        keys, Xs = rand_X(('list', 'list', 'list', 'nd2', 'nd2', 'nd2', 'nd1'))
        item = rand_item(rng, axis_len(Xs))
        c, oracle = getitem_case(alg, keys, Xs, item)
        cases.append(c)
        R.count('clause=storage-getitem'); R.count('storage=' + store_kind(Xs))
        R.count('index=' + ('tuple%d' % len(item) if isinstance(item, tuple) else type(item).__name__))
        R.case(('sget', repr(Xs), repr(item)), True, sample={'clause': 'storage getitem', 'values': Xs, 'index': repr(item), 'result': c['meta']['impl']})
        if oracle:
            R.violation({'clause': 'storage-getitem'}, c['meta'], 'getitem: ' + oracle)
    # the fixed finding first: P = alg.vector(np.zeros((2, 2))); P[:] = alg.vector(e1=7, e2=8), and its variants
    probes = [([1, 2], ('nd2', m, [[0] * m, [0] * m]), it, (('mv', [1, 2], ('list', [('num', 7), ('num', 8)])), 'scalars'))
              for m in (2, 3) for it in (slice(None), (), slice(0, 2), (slice(None, None, -1),), 1)]
    probes += [([1, 2], ('list', [('arr', [0] * 2), ('arr', [0] * 2)]), slice(None), (('mv', [1, 2], ('nd1', [7, 8])), 'scalars')),
               ([], ('nd2', 3, []), slice(None), (('mv', [], ('list', [])), 'aligned'))]
    for i in range(550 * n):
        if i < len(probes):
            keys, Xs, item, (V, mode) = probes[i]
        else:
            keys, Xs = rand_X()
            keys = keys[:len(store_entries(Xs))]
            item = rand_item(rng, axis_len(Xs))
            V, mode = rand_rhs(rng, alg, keys, Xs, item)
        c, oracle = setitem_case(alg, keys, Xs, item, V, mode)
        cases.append(c)
        R.count('clause=storage-setitem'); R.count('rhs=' + mode); R.count('storage=' + store_kind(Xs))
        R.case(('sset', repr(Xs), repr(item), repr(V)), True, sample={'clause': 'storage setitem', 'values': Xs, 'index': repr(item), 'assigned': V, 'result': c['meta']['impl']})
        if oracle:
            R.violation({'clause': oracle[0]}, c['meta'], f'X[{item!r}] = V with values {Xs}, V = {V}: {oracle[1]}')
    for _ in range(120 * n):
        keys, Xs = rand_X()
        what = rng.choice(['shape', 'itermv', 'itermv', 'itermv-axis', 'items', 'map1', 'map2'])
        if what != 'items':
            keys = keys[:len(store_entries(Xs))]
        cases.append(misc_case(alg, keys, Xs, what))
        R.count('clause=storage-' + what)
        R.case(('smisc', what, repr(Xs)), True)
    # two array axes (a grid of elements; outside Model/Storage.v, judged directly): element (i, j) of the multivector has the
    # coefficients values[key][i][j]; itermv() enumerates the elements in row-major order
    import numpy as np
    from kingdon import MultiVector
    for _ in range(40 * n):
        k, gn, gm = rng.randint(1, 4), rng.randint(1, 3), rng.randint(1, 4)
        keys = rng.sample(range(8), k)
        raw = [[[rng.randint(-9, 9) for _ in range(gm)] for _ in range(gn)] for _ in keys]
        back = rng.choice(['nd3', 'list-of-2d'])
        arr = np.array(raw, dtype=np.int64)
        X = MultiVector.fromkeysvalues(alg, tuple(keys), arr if back == 'nd3' else list(arr))
        R.count('clause=storage-grid'); R.count('storage=' + back); R.case(('sgrid', back, repr(raw)), gn > 1 and gm > 1)
        rep = {'keys': keys, 'values': raw, 'storage': back}
        try:
            if tuple(X.shape) != (k, gn, gm):       # shape is that of values(): the key axis first
                R.violation({'clause': 'storage-grid'}, rep, f'shape is {X.shape} for a {gn}x{gm} grid of elements ({back})')
            got = [[int(v) for v in e.values()] for e in X.itermv()]
            want = [[raw[a][i][j] for a in range(k)] for i in range(gn) for j in range(gm)]
            if got != want:
                R.violation({'clause': 'storage-grid'}, dict(rep, impl=got), f'itermv() of a {gn}x{gm} grid ({back}) yields the elements {got}, row-major order is {want}')
            # a list of indices selects / assigns whole rows of every coefficient (numpy's meaning of a list index)
            rows = sorted(set([0, gn - 1]))
            sel = X[rows]
            if [np.asarray(v).tolist() for v in sel.values()] != [[raw[a][r_] for r_ in rows] for a in range(k)]:
                R.violation({'clause': 'storage-grid'}, dict(rep, index=rows), f'X[{rows}] of a {gn}x{gm} grid ({back}) is {[np.asarray(v).tolist() for v in sel.values()]}')
            X2 = MultiVector.fromkeysvalues(alg, tuple(keys), np.array(raw, dtype=np.int64).copy() if back == 'nd3' else list(np.array(raw, dtype=np.int64).copy()))
            V_ = MultiVector.fromkeysvalues(alg, tuple(keys), [100 + a for a in range(k)])
            try:
                X2[rows] = V_
                after = [np.asarray(v).tolist() for v in X2.values()]
                want_after = [[[100 + a] * gm if r_ in rows else raw[a][r_] for r_ in range(gn)] for a in range(k)]
                if after != want_after:
                    R.violation({'clause': 'storage-grid'}, dict(rep, index=rows), f'X[{rows}] = V on a {gn}x{gm} grid ({back}) leaves {after}, numpy semantics give {want_after}')
            except (IndexError, ValueError, TypeError):
                pass            # refusing a list index is not a wrong value
            # a selection is a view: assigning through it changes the original (X[::2][0] = V)
            if gn >= 2:
                X3 = MultiVector.fromkeysvalues(alg, tuple(keys), np.array(raw, dtype=np.int64).copy() if back == 'nd3' else list(np.array(raw, dtype=np.int64).copy()))
                try:
                    view = X3[::2]
                    view[0] = V_
                    after3 = [np.asarray(v)[0].tolist() for v in X3.values()]
                    if after3 != [[100 + a] * gm for a in range(k)]:
                        R.violation({'clause': 'storage-grid'}, dict(rep, index='X[::2][0]'), f'X[::2][0] = V on a {gn}x{gm} grid ({back}): row 0 of X is now {after3}, expected the values of V (a strided selection is a view)')
                except (IndexError, ValueError, TypeError):
                    pass
            i, j = rng.randrange(gn), rng.randrange(gm)
            e = X[i, j]
            if list(e.keys()) != keys or [int(v) for v in e.values()] != [raw[a][i][j] for a in range(k)]:
                R.violation({'clause': 'storage-grid'}, dict(rep, index=[i, j]), f'X[{i}, {j}] of a {gn}x{gm} grid ({back}) is {e}')
        except Exception as e:  # noqa
            R.violation({'clause': 'storage-grid'}, rep, f'grid of elements ({back}) raised {type(e).__name__}: {e}'[:300])
    # operands
    pool = algs.AlgPool()
    for _ in range(8 * n):
        d = rng.choice((2, 3))
        sig = [rng.choice((1, 1, -1, 0)) for _ in range(d)]
        sig2 = [(-1 if s == 1 else 1) for s in sig]
        spec = {'sig': sig}
        algs2 = (algs.make_impl(spec), algs.make_impl({'sig': sig2}))
        canon = list(algs2[0].canon2bin.values())
        keysets = [rng.sample(canon, rng.randint(1, 3)) for _ in range(3)]
        for _ in range(45):
            opname = rng.choice(['gp', 'gp', 'op', 'add', 'sub'])
            L = rand_operand(rng, 3, keysets); R_ = rand_operand(rng, 3, keysets)
            tops = (L[0], R_[0])
            # the infix form runs the operator of the algebra of the multivector python dispatches to
            own = [o for o in (L, R_) if o[0] == 'mv']
            form = 'infix' if own and all(o[1] == 0 for o in own) and rng.random() < 0.5 and not (tops[0] == 'num' and L[2] == 'np') else 'call'
            c, oracle = operand_case(pool, spec, algs2, opname, L, R_, form)
            cases.append(c)
            kinds = sorted(operand_kinds(L, set()) | operand_kinds(R_, set()))
            R.count('clause=operand-normalisation'); R.count('operand-form=' + form)
            for side, o in (('left', L), ('right', R_)):
                R.count(f'{side}={o[0]}')
            R.case(('onorm', algs.describe(spec), opname, repr(L), repr(R_), form), len(kinds) > 1 or kinds != ['mv'],
                   sample={'clause': 'operand normalisation', 'op': opname, 'left': L, 'right': R_, 'result': c['meta']['impl']})
            if oracle:
                R.violation({'clause': 'operand-normalisation', 'op': opname, 'left': L[0], 'right': R_[0]}, c['meta'],
                            f'{opname}({L}, {R_}) [{form}] in Algebra({algs.describe(spec)}): {oracle}')
    bad, shown = kv.run_cases('C16', cases, imports='Model.All Model.Storage')
    if bad:
        # is the difference visible at the level of the property (coefficients, error class), or only in the kind of
        # scalar / container the model predicts?
        coarse = [dict(cases[i], check=cases[i]['coarse'] or cases[i]['check']) for i in bad]
        still, _ = kv.run_cases('C16c', coarse, imports='Model.All Model.Storage')
        still = {bad[j] for j in still}
        for i in bad:
            m = cases[i]['meta']
            if i not in still:
                R.fidelity_notes += 1
                continue
            R.violation({'clause': m['clause'] + '-model'}, dict(m, model=shown.get(i)),
                        f'{m["clause"]}: implementation {m["impl"]} differs from the model (Model/Storage.v) on {({k: v for k, v in m.items() if k not in ("impl", "clause")})}'[:900])


def replay_storage(R, rec):
    """re-run one case of storage_part: the direct oracle on the implementation, then the model inside Coq"""
    r = rec['replay']
    cl = r.get('clause', rec['class']['clause'])
    defs = []
    if cl == 'operand-normalisation':
        spec = r['algebra']
        algs2 = (algs.make_impl(spec), algs.make_impl({'sig': [(-1 if s == 1 else 1) for s in spec['sig']]}))
        c, oracle = operand_case(algs.AlgPool(), spec, algs2, r['op'], r['left'], r['right'], r['form'])
    else:
        alg = algs.make_impl({'sig': [1, 1, 1]})
        if cl == 'storage-getitem':
            c, oracle = getitem_case(alg, r['keys'], r['X'], item_dec(r['item']))
        elif cl == 'storage-setitem':
            c, oracle = setitem_case(alg, r['keys'], r['X'], item_dec(r['item']), r['V'], r['mode'])
        else:
            c, oracle = misc_case(alg, r['keys'], r['X'], cl[len('storage-'):]), None
    if oracle:
        return False
    bad, _ = kv.run_cases('C16r', [dict(c, check=c.get('coarse') or c['check'])], imports='Model.All Model.Storage')
    return not bad


def replay(R, rec):
    warnings.filterwarnings('ignore')
    import numpy as np
    from kingdon import MultiVector
    r = rec['replay']
    if isinstance(r, dict) and str(r.get('clause', '')).startswith(('storage-', 'operand-normalisation')):
        return replay_storage(R, rec)
    alg = algs.make_impl(r['algebra'])
    cl = rec['class']['clause']
    if cl == 'sequence-operand':
        mk = lambda its: oc.make_mv(alg, [k for k, _ in its], [v for _, v in its])
        a, b, c = mk(r['a']), mk(r['b']), mk(r['c'])
        ctor = list if r['container'] == 'list' else tuple
        f = PY[r['op']]
        got = f(ctor([a, b]), c) if r['side'] == 'left' else f(c, ctor([a, b]))
        want = [f(a, c), f(b, c)] if r['side'] == 'left' else [f(c, a), f(c, b)]
        return all(same(items(g), items(w)) for g, w in zip(got, want))
    if cl == 'number-operand':
        x = oc.make_mv(alg, [k for k, _ in r['x']], [v for _, v in r['x']])
        num = eval(r['number'], {'np': np, 'numpy': np})
        sc = MultiVector.fromkeysvalues(alg, (0,), [num])
        f = PY[r['op']]
        return same(items(f(num, x) if r['side'] == 'left' else f(x, num)), items(f(sc, x) if r['side'] == 'left' else f(x, sc)))
    return False
