"""C08 — results do not depend on how an operand is stored.
Metamorphic correspondence on the real kingdon: op(x, y) versus op(permute(x), pad(y)) (all permutations of
small key tuples, zero-padded supersets, both full layouts) for every operator, compared as elements
(coefficient of every blade); the model side is the congruence theorems of Props/C08.v plus, for the
polynomial operators, evaluation of the model on the re-stored operands."""
import warnings, itertools
from fractions import Fraction
import kv, algs, opcorr as oc

RULE = ('[every 12th case: inv / div of 2-3 blades of one grade in 4-D] '
        'for every operator (binary, unary, composite, inverse/division, series): a random element, all permutations of its key '
        'tuple (<=4 keys, else 6 random ones), 3 random zero-padded supersets and both full layouts (canonical, binary), applied to '
        'each operand; results compared blade by blade (exactly for integer/Fraction coefficients, to 1e-9 for sqrt/exp and the outer exponential family, whose generated code contains float constants). '
        'Non-trivial = the re-stored operand differs from the original; distinct = distinct (algebra, operator, layouts).')
TRUSTED = ['kingdon itself is both sides of the metamorphic relation; the model enters through the congruence theorems and the '
           'in-Coq evaluation of the polynomial operators on re-stored operands']
ASSUMPTIONS = ['Fraction arithmetic is exact; floats compared to 1e-9 relative for sqrt/exp only']

POLY_BIN = ['gp', 'op', 'ip', 'lc', 'rc', 'sp', 'cp', 'acp', 'rp', 'add', 'sub']
POLY_UN = ['neg', 'reverse', 'involute', 'conjugate', 'hodge', 'unhodge']
COMPOSITE_BIN = ['sw', 'proj', 'div']
COMPOSITE_UN = ['normsq', 'inv', 'outerexp', 'outersin', 'outercos', 'outertan', 'polarity', 'unpolarity']


def layouts(rng, alg, items, n_perm=6):
    """re-storings of the same element: [(tag, items')]"""
    out = []
    keys = [k for k, _ in items]
    if len(items) <= 4:
        perms = list(itertools.permutations(items))
    else:
        perms = []
        for _ in range(n_perm):
            p = items[:]; rng.shuffle(p); perms.append(tuple(p))
    for p in perms:
        if list(p) != items:
            out.append(('perm', list(p)))
    rest = [k for k in alg.canon2bin.values() if k not in keys]
    for _ in range(3):
        if rest:
            extra = rng.sample(rest, rng.randint(1, min(len(rest), 4)))
            padded = items + [(k, 0) for k in extra]
            rng.shuffle(padded)
            out.append(('pad', padded))
    d = dict(items)
    out.append(('full-canonical', [(k, d.get(k, 0)) for k in alg.canon2bin.values()]))
    out.append(('full-binary', [(k, d.get(k, 0)) for k in range(len(alg))]))
    return out


def obs(mv, exact=True):
    return [(int(k), v) for k, v in zip(mv.keys(), mv.values())]


def same(a, b, tol=None):
    da, db = oc.coeff_map(a), oc.coeff_map(b)
    for k in set(da) | set(db):
        u, v = da.get(k, 0), db.get(k, 0)
        if tol is None:
            if u != v:
                return False
        else:
            if abs(complex(u) - complex(v)) > tol * max(1.0, abs(complex(u)), abs(complex(v))):
                return False
    return True


def apply(alg, op, mvs):
    try:
        if op == 'exp':
            return 'ok', obs(mvs[0].exp())
        if op == 'sqrt':
            return 'ok', obs(mvs[0].sqrt())
        return 'ok', obs(getattr(alg, op)(*mvs))
    except Exception as e:  # noqa
        return 'err', type(e).__name__


def run(R, tier):
    warnings.filterwarnings('ignore')
    rng = R.rng
    pool = algs.AlgPool()
    cache, cases = {}, []
    n = 60 if tier == 'quick' else 1500
    import time
    t0, budget = time.time(), float(__import__('os').environ.get('KV_C08_BUDGET_S', '2400'))
    for i in range(n):
        if time.time() - t0 > budget:        # symbolic generation of dense inverses is slow: the stream is cut by time, the count is reported
            R.count(f'stream cut after {i} of {n} iterations (time budget {budget:.0f} s)')
            break
        heavy = i % 3 == 0
        d = rng.choice((1, 2, 3)) if heavy else rng.choice((2, 3, 3, 4, 4, 5))
        hi_inv = heavy and i % 12 == 0          # inverse / division of pure-grade and sparse operands in 4-D

        if rng.random() < 0.15 and d >= 2:
            spec = {'sig': [rng.choice((1, -1, 0)) for _ in range(d)], 'basis': algs.random_basis(rng, d)}
        else:
            spec = {'sig': [rng.choice((1, -1, 1, -1, 0)) for _ in range(d)], 'start': rng.choice((None, 0, 1))}
        if hi_inv:
            d = 4      # (5-D full-layout inverses take hours of symbolic work: out of the budget of a check)
            spec = {'sig': [rng.choice((1, -1)) for _ in range(d)], 'start': None}
        key = repr(spec)
        if key not in cache:
            cache[key] = algs.make_impl(spec)
        alg = cache[key]
        R.count(f'd={alg.d}')
        ops = [(o, 2) for o in POLY_BIN] + [(o, 1) for o in POLY_UN]
        if heavy:
            ops = [(o, 2) for o in COMPOSITE_BIN] + [(o, 1) for o in COMPOSITE_UN] + [('sqrt', 1), ('exp', 1)]
        rng.shuffle(ops)
        if hi_inv:
            ops = [('inv', 1), ('div', 2)]
        for op, ar in ops[:6 if tier == 'quick' else 10]:
            style = rng.choice(['sparse', 'grade', 'single']) if heavy else None
            ka, _ = oc.random_keys(rng, alg, style)
            kb, _ = oc.random_keys(rng, alg, style)
            ka, kb = ka[:6], kb[:6]
            if hi_inv:                 # two or three blades of one grade (in general not a simple blade)
                g = rng.choice((2, 2, 1, 3))
                gk = list(alg.indices_for_grade[g])
                pick = tuple(rng.sample(gk, min(len(gk), rng.randint(2, 3))))
                if rng.random() < 0.6:     # a blade and its complement within the grade: never a simple blade
                    k0 = rng.choice(gk)
                    comp = [k for k in gk if k & k0 == 0]
                    if comp:
                        pick = (k0, rng.choice(comp))
                if op == 'inv':
                    ka = pick
                else:
                    kb = pick
            if heavy:
                vals = lambda m: [Fraction(v) for v in oc.random_values(rng, m, zero_p=0.0)]
            else:
                vals = lambda m: oc.random_values(rng, m)
            tol = None
            if op == 'sqrt':          # a Study number with positive scalar part: scalar + one blade
                blade = rng.choice([k for k in alg.canon2bin.values() if k] or [0])
                ka = (0, blade) if blade else (0,)
                xs = [float(rng.randint(5, 9))] + ([float(rng.randint(1, 3))] if blade else [])
                tol = 1e-9
                neg = [k for k in alg.canon2bin.values() if k and alg.signs[k, k] == -1] if alg.d <= 6 else []
                if neg and rng.random() < 0.4:       # no scalar blade stored at all: a blade squaring to a negative number, magnitude != 1
                    blade = rng.choice(neg)
                    ka = (blade,)
                    xs = [float(rng.randint(2, 7))]
            elif op == 'exp':
                blade = rng.choice([k for k in alg.canon2bin.values() if k] or [0])
                ka = (blade,)
                xs = [rng.randint(1, 9) / 4.0]
                tol = 1e-9
            else:
                xs = vals(len(ka))
                if op.startswith('outer'):
                    tol = 1e-9          # the built-in polynomial class divides by j: float constants
            x = list(zip(ka, xs))
            y = list(zip(kb, vals(len(kb))))
            operands = [x, y][:ar]
            base = apply(alg, op, [oc.make_mv(alg, [k for k, _ in it], [v for _, v in it]) for it in operands])
            for which in range(ar):
                for tag, alt in layouts(rng, alg, operands[which]):
                    ops2 = list(operands); ops2[which] = alt
                    got = apply(alg, op, [oc.make_mv(alg, [k for k, _ in it], [v for _, v in it]) for it in ops2])
                    R.count(f'op={op}'); R.count('layout=' + tag)
                    R.case((algs.describe(spec), op, tuple(map(tuple, map(lambda it: [k for k, _ in it], ops2)))), True,
                           sample={'algebra': algs.describe(spec), 'op': op, 'operands': [[(k, str(v)) for k, v in it] for it in operands],
                                   'restored': [(k, str(v)) for k, v in alt], 'layout': tag})
                    bad = False
                    if base[0] != got[0]:
                        # a padded zero may legitimately turn an error-free sparse call into an error-free one only; flag
                        bad = True
                    elif base[0] == 'ok' and not same(base[1], got[1], tol):
                        bad = True
                    elif base[0] == 'err' and base[1] != got[1]:
                        bad = True
                    if bad:
                        R.violation({'clause': 'storage', 'op': op, 'layout': tag, 'basis': algs.kind(spec)},
                                    {'algebra': spec, 'op': op, 'operands': [[(k, str(v)) for k, v in it] for it in operands],
                                     'restored_index': which, 'restored': [(k, str(v)) for k, v in alt],
                                     'base': str(base), 'got': str(got)},
                                    f'{op} depends on storage in Algebra({algs.describe(spec)}): {operands} -> {base}, '
                                    f'operand {which} re-stored as {alt} ({tag}) -> {got}')
                    # model on the re-stored operands (polynomial operators, integer values)
                    if not heavy and got[0] == 'ok' and rng.random() < 0.35:
                        c = oc.case_for(pool, spec, alg, op, ops2)
                        cases.append(c)
    bad, shown = kv.run_cases('C08', cases)
    for i in bad:
        m = cases[i]['meta']
        R.violation({'clause': 'storage-model', 'op': m['op'], 'basis': algs.kind(m['spec'])},
                    {'algebra': m['spec'], 'op': m['op'], 'operands': m['operands'], 'impl': m['impl'], 'model': shown.get(i)},
                    f'{m["op"]} on re-stored operands {m["operands"]}: implementation {m["impl"]} differs from the model')


def replay(R, rec):
    warnings.filterwarnings('ignore')
    r = rec['replay']; spec = r['algebra']
    alg = algs.make_impl(spec)
    def parse(it):
        return [(int(k), Fraction(v) if '/' in v or v.lstrip('-').isdigit() else float(v)) for k, v in it]
    operands = [parse(it) for it in r['operands']]
    alt = parse(r['restored'])
    ops2 = list(operands); ops2[r['restored_index']] = alt
    base = apply(alg, r['op'], [oc.make_mv(alg, [k for k, _ in it], [v for _, v in it]) for it in operands])
    got = apply(alg, r['op'], [oc.make_mv(alg, [k for k, _ in it], [v for _, v in it]) for it in ops2])
    tol = 1e-9 if r['op'] in ('sqrt', 'exp') or r['op'].startswith('outer') else None
    return base[0] == got[0] and (base[0] != 'ok' or same(base[1], got[1], tol))
