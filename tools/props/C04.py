"""C04 — sum, difference, negation, involutions and grade selection act blade-wise.
Correspondence of add/sub/neg/reverse/involute/conjugate/grade against Model/Codegen.v; oracle on the
implementation: blade-wise formulas, involutivity, (anti)automorphism w.r.t. the geometric product."""
import warnings
import kv, algs, opcorr as oc

RULE = ('add/sub on disjoint, overlapping, empty and permuted key tuples; neg and the three involutions on random patterns; '
        'grade selections (all subsets of grades for d<=3, random above, plus invalid ones); algebras d<=8 over random '
        'signature orderings and bases; (anti)automorphism checked on random pairs.  Non-trivial = non-empty operand; '
        'distinct = distinct (algebra, operator, key tuples).')
TRUSTED = ['hand-written model coq/Model/Codegen.v of codegen_add/sub/neg/involutions (involution test and grade tuples bridged to '
           'Gen/Codegen.v) and of MultiVector.grade', 'printers / compile not modelled: validated per generated function']
ASSUMPTIONS = ['integer evaluation points stand for all coefficient values', 'duplicate-free key tuples']


def g(k):
    return bin(k).count('1')


SIGN = {'reverse': lambda k: -1 if (g(k) * (g(k) - 1) // 2) % 2 else 1,
        'involute': lambda k: -1 if g(k) % 2 else 1,
        'conjugate': lambda k: -1 if (g(k) * (g(k) + 1) // 2) % 2 else 1}


def rand_spec(rng, dmax=8):
    d = rng.choice([1, 2, 3, 3, 4, 4, 5, 6, 7, 8][:dmax + 2])
    if rng.random() < 0.15 and 1 <= d <= 5:
        return {'sig': [rng.choice((1, -1, 0)) for _ in range(d)], 'basis': algs.random_basis(rng, d)}
    return {'sig': [rng.choice((1, -1, 0)) for _ in range(d)], 'start': rng.choice((None, 0, 1))}


def viol(R, spec, clause, detail, **rep):
    R.violation({'clause': clause, 'basis': algs.kind(spec)}, dict(algebra=spec, **rep),
                f'{clause} fails in Algebra({algs.describe(spec)}): {detail}')


def run(R, tier):
    warnings.filterwarnings('ignore')
    rng = R.rng
    pool = algs.AlgPool()
    cache, cases = {}, []
    n = 250 if tier == 'quick' else 6000
    for i in range(n):
        spec = rand_spec(rng)
        key = repr(spec)
        if key not in cache:
            cache[key] = algs.make_impl(spec)
        alg = cache[key]
        R.count(f'd={alg.d}')
        ka, sa = oc.random_keys(rng, alg)
        mode = rng.choice(['disjoint', 'overlap', 'same', 'random', 'empty'])
        if mode == 'disjoint':
            rest = [k for k in alg.canon2bin.values() if k not in ka]
            kb = tuple(rng.sample(rest, min(len(rest), rng.randint(0, 5))))
        elif mode == 'overlap':
            pool_k = list(ka) + [k for k in alg.canon2bin.values() if k not in ka][:3]
            kb = tuple(rng.sample(pool_k, rng.randint(0, len(pool_k))))
        elif mode == 'same':
            kb = list(ka); rng.shuffle(kb); kb = tuple(kb)
        elif mode == 'empty':
            kb = ()
        else:
            kb, _ = oc.random_keys(rng, alg)
        R.count('pair=' + mode)
        x = list(zip(ka, oc.random_values(rng, len(ka))))
        y = list(zip(kb, oc.random_values(rng, len(kb))))
        for op in ('add', 'sub'):
            for a, b in ((x, y), (y, x)):
                c = oc.case_for(pool, spec, alg, op, [a, b])
                cases.append(c)
                out = c['meta']['impl']
                R.case((algs.describe(spec), op, tuple(k for k, _ in a), tuple(k for k, _ in b)), bool(a or b),
                       sample={'algebra': algs.describe(spec), 'op': op, 'a': a, 'b': b, 'result': out})
                if not isinstance(out, list):
                    viol(R, spec, op + '-raises', str(out), x=a, y=b); continue
                want = oc.lin((1, a), (1 if op == 'add' else -1, b))
                if not oc.same_element(out, want) or set(k for k, _ in out) != set(k for k, _ in a) | set(k for k, _ in b):
                    viol(R, spec, op, f'{a} {op} {b} = {out}', x=a, y=b, impl=out)
        # a plain number on either side of + and - is the scalar multivector with that coefficient (0 included)
        if i % 4 == 0:
            mxn = oc.make_mv(alg, [k for k, _ in x], [v for _, v in x])
            import numpy as _np
            for cnum in (0, rng.choice((1, -2, 3)), _np.float64(2.0), _np.int64(-3)):        # python and numpy numbers
                for form, f, sgn_x, sgn_c in (('c + x', lambda: cnum + mxn, 1, 1), ('x + c', lambda: mxn + cnum, 1, 1), ('c - x', lambda: cnum - mxn, -1, 1), ('x - c', lambda: mxn - cnum, 1, -1)):
                    R.count('number-operand'); R.case((algs.describe(spec), 'num', form, cnum, ka), bool(x))
                    try:
                        out = oc.observe(f())
                    except Exception as e:  # noqa
                        viol(R, spec, 'number-raises', f'{form} with c = {cnum!r} raised {type(e).__name__}', x=x, number=int(cnum), form=form); continue
                    want = oc.lin((sgn_x, x), (sgn_c, [(0, int(cnum))]))
                    if not oc.same_element(out, want):
                        viol(R, spec, 'number', f'{form} with c = {cnum!r}, x = {x} gives {out}, expected {want}', x=x, number=int(cnum), numpy=type(cnum).__module__ == 'numpy', form=form)
        for op in ('neg', 'reverse', 'involute', 'conjugate'):
            c = oc.case_for(pool, spec, alg, op, [x])
            cases.append(c)
            out = c['meta']['impl']
            R.case((algs.describe(spec), op, ka), bool(x))
            if not isinstance(out, list):
                viol(R, spec, op + '-raises', str(out), x=x); continue
            sg = (lambda k: -1) if op == 'neg' else SIGN[op]
            want = [(k, sg(k) * v) for k, v in x]
            if not oc.same_element(out, want) or set(k for k, _ in out) != set(ka):
                viol(R, spec, op, f'{op} {x} = {out}', x=x, impl=out)
            # involutive
            mx = oc.make_mv(alg, [k for k, _ in out], [v for _, v in out])
            back = oc.observe(getattr(alg, op)(mx))
            if not oc.same_element(back, x):
                viol(R, spec, op + '-involutive', f'{op}({op} {x}) = {back}', x=x)
        # (anti)automorphisms
        if alg.d <= 6 and i % 3 == 0:
            mx = oc.make_mv(alg, [k for k, _ in x], [v for _, v in x]); my = oc.make_mv(alg, [k for k, _ in y], [v for _, v in y])
            ab = mx * my
            checks = [('reverse-antiaut', oc.observe(~ab), oc.observe((~my) * (~mx))),
                      ('conjugate-antiaut', oc.observe(ab.conjugate()), oc.observe(my.conjugate() * mx.conjugate())),
                      ('involute-aut', oc.observe(ab.involute()), oc.observe(mx.involute() * my.involute()))]
            for nm, l, r in checks:
                R.case((algs.describe(spec), nm, ka, kb))
                if not oc.same_element(l, r):
                    viol(R, spec, nm, f'a={x}, b={y}: {l} vs {r}', x=x, y=y)
        # grade selection
        if alg.d <= 3:
            import itertools
            gsets = [c for r in range(alg.d + 2) for c in itertools.combinations(range(alg.d + 1), r)][:40]
            gsets = rng.sample(gsets, min(len(gsets), 4))
        else:
            gsets = [tuple(sorted(rng.sample(range(alg.d + 1), rng.randint(0, alg.d + 1)))) for _ in range(2)]
        if rng.random() < 0.2:
            gsets.append(rng.choice([(alg.d + 1,), (1, 0), (2, 2), (0, alg.d + 3)]))
        mx = oc.make_mv(alg, [k for k, _ in x], [v for _, v in x])
        ref, dfn = pool.ref(spec)
        for gs in gsets:
            try:
                r = mx.grade(*gs) if rng.random() < 0.5 else mx.grade(tuple(gs))
                out = oc.observe(r); exp = f'(Ok {oc.mv_term(out)})'
                want = [(k, v) for k, v in x if g(k) in gs]
                if sorted(out) != sorted(want):
                    viol(R, spec, 'grade', f'{x}.grade{gs} = {out}', x=x, grades=list(gs))
            except Exception as e:  # noqa
                out = f'{type(e).__name__}'; exp = f'({oc.err_term(e)})'
                if all(0 <= q <= alg.d for q in gs) and list(gs) == sorted(set(gs)):
                    viol(R, spec, 'grade-raises', f'{x}.grade{gs} raised {out}', x=x, grades=list(gs))
            chk = f'resmv_same A (grade_sel Zops A {kv.natlist(gs)} {oc.mv_term(x)}) {exp}'
            cases.append({'check': algs.with_alg(ref, chk), 'defs': [dfn],
                          'show': algs.with_alg(ref, f'(grade_sel Zops A {kv.natlist(gs)} {oc.mv_term(x)})', '(Err EOther)'),
                          'meta': {'spec': spec, 'op': 'grade', 'operands': [x, list(gs)], 'impl': out}})
            R.case((algs.describe(spec), 'grade', ka, gs), bool(x))
    bad, shown = kv.run_cases('C04', cases)
    for i in bad:
        m = cases[i]['meta']
        R.violation({'clause': m['op'] + '-model', 'basis': algs.kind(m['spec'])},
                    {'algebra': m['spec'], 'op': m['op'], 'operands': m['operands'], 'impl': m['impl'], 'model': shown.get(i)},
                    f'{m["op"]} on {m["operands"]} in Algebra({algs.describe(m["spec"])}): implementation {m["impl"]} differs from the model')


def replay(R, rec):
    warnings.filterwarnings('ignore')
    r = rec['replay']; spec = r['algebra']
    alg = algs.make_impl(spec)
    x = [tuple(t) for t in r.get('x', [])]; y = [tuple(t) for t in r.get('y', [])]
    mx = oc.make_mv(alg, [k for k, _ in x], [v for _, v in x]); my = oc.make_mv(alg, [k for k, _ in y], [v for _, v in y])
    cl = rec['class']['clause'].split('-')[0]
    try:
        if cl in ('add', 'sub'):
            out = oc.observe(getattr(alg, cl)(mx, my))
            return oc.same_element(out, oc.lin((1, x), (1 if cl == 'add' else -1, y)))
        if cl == 'number':
            cnum, form = r['number'], r['form']
            if r.get('numpy'):
                import numpy as _np
                cnum = _np.float64(cnum)
            out = oc.observe({'c + x': lambda: cnum + mx, 'x + c': lambda: mx + cnum, 'c - x': lambda: cnum - mx, 'x - c': lambda: mx - cnum}[form]())
            return oc.same_element(out, oc.lin((-1 if form == 'c - x' else 1, x), (-1 if form == 'x - c' else 1, [(0, cnum)])))
        if cl in ('neg', 'reverse', 'involute', 'conjugate'):
            out = oc.observe(getattr(alg, cl)(mx))
            sg = (lambda k: -1) if cl == 'neg' else SIGN[cl]
            return oc.same_element(out, [(k, sg(k) * v) for k, v in x])
        if cl == 'grade':
            gs = tuple(r['grades'])
            return sorted(oc.observe(mx.grade(*gs))) == sorted((k, v) for k, v in x if g(k) in gs)
    except Exception:
        return False
    return True
