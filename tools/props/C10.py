"""C10 — code is generated at most once per operator and key pattern.
Correspondence: for every operator (incl. composite ones that call other operators during generation)
and random key patterns, the first call may generate code; every later call with the same key patterns
- int, float, Fraction, numpy array, sympy-symbolic coefficients - must produce no code-generation
event and no compile() call (observed from outside, instr.py).  The event sequence of each history is
compared inside Coq with Model/Cache.v (`gens`)."""
import warnings
from fractions import Fraction
import kv, algs, opcorr as oc
import instr
from props.C09 import compare_with_model, ALLNAMES

RULE = ('for each of the 29 operators x 2-3 random key patterns per algebra (d = 2, 3; random signatures): one generating call, then '
        'calls with int, float, Fraction, numpy-array and sympy coefficients and a repeat in permuted history order; one case = one '
        'call with its event count.  Non-trivial = a call AFTER the first one for its pattern; distinct = distinct (operator, keys, coefficient type).')
TRUSTED = ['instr.py wraps __getitem__/do_codegen/do_compile/builtins.compile from outside', 'Model/Cache.v tied by the generation-event sequence']
ASSUMPTIONS = ['sequential histories only (the property says so); thread races may generate twice (Theory/Cache.v example par_same_key)']

OPS2 = ['gp', 'sw', 'cp', 'acp', 'ip', 'sp', 'lc', 'rc', 'op', 'rp', 'proj', 'add', 'sub', 'div']
OPS1 = ['inv', 'neg', 'reverse', 'involute', 'conjugate', 'sqrt', 'polarity', 'unpolarity', 'hodge', 'unhodge', 'normsq',
        'outerexp', 'outersin', 'outercos', 'outertan']


def coeffs(kind, rng, n):
    import numpy as np, sympy
    if kind == 'int': return [rng.randint(1, 9) for _ in range(n)]
    if kind == 'float': return [rng.randint(1, 9) / 2.0 for _ in range(n)]
    if kind == 'Fraction': return [Fraction(rng.randint(1, 9), rng.randint(1, 5)) for _ in range(n)]
    if kind == 'ndarray': return [np.array([rng.randint(1, 9) / 2.0, rng.randint(1, 9) / 4.0]) for _ in range(n)]
    if kind == 'sympy': return [sympy.Symbol(f's{rng.randint(0, 99)}_{i}', positive=True) for i in range(n)]


def run(R, tier):
    warnings.filterwarnings('ignore')
    rng = R.rng
    R.broken = getattr(R, 'broken', [])
    n_alg = 4 if tier == 'quick' else 40
    many_patterns(R, rng, tier)
    for ai in range(n_alg):
        d = rng.choice((2, 3))
        spec = {'sig': [rng.choice((1, 1, -1)) for _ in range(d)]}
        if ai % 4 >= 2:              # a null generator: dividing by it fails WHILE the code is generated (harmless-event step below)
            spec = {'sig': [0] + [rng.choice((1, 1, -1)) for _ in range(d)]}
        probe = instr.Probe()
        use_wrapper = ai % 2 == 1
        with probe.active():
            if use_wrapper:
                def wrap(f):
                    def g(*a): return f(*a)
                    g.__name__ = f.__name__
                    return g
                alg = algs.make_impl(spec, wrapper=wrap)     # a JIT-style decorator returning a new callable
            else:
                alg = algs.make_impl(spec)
            R.count('wrapper=' + ('set' if use_wrapper else 'None'))
            canon = list(alg.canon2bin.values())
            top = []
            ops = [(o, 2) for o in OPS2] + [(o, 1) for o in OPS1]
            rng.shuffle(ops)
            if tier == 'quick':
                ops = ops[:14]
            plan = []
            for op, ar in ops:
                for _ in range(2):
                    if op == 'sqrt':
                        pats = [(0, rng.choice(canon[1:]))]
                    else:
                        pats = [tuple(rng.sample(canon, rng.randint(1, 2))) for _ in range(ar)]
                    plan.append((op, pats))
            # patterns whose result is identically zero / empty, and two storage orders of one blade set
            # used alternately (A, B, A, B): each must be generated once
            k1 = rng.choice(canon[1:])
            plan.append(('op', [(k1,), (k1,)]))
            plan.append(('gp', [(), (k1,)]))
            two = tuple(rng.sample(canon, 2))
            plan.append(('gp', [two, (k1,)]))
            plan.append(('gp', [two[::-1], (k1,)]))
            plan.append(('reverse', [two]))
            plan.append(('reverse', [two[::-1]]))
            # patterns whose code generation emits a warning (square root of something that is not a Study number, outer exponential
            # of mixed grades): generated once all the same
            plan.append(('sqrt', [(k1,)]))
            plan.append(('sqrt', [(0,) + two if 0 not in two else two]))
            plan.append(('outerexp', [tuple(dict.fromkeys((k1,) + two))]))
            order = []
            for op, pats in plan:
                order.append((op, pats, 'int' if op not in ('sqrt',) else 'float', True))
            for op, pats in plan:
                for kind in ('float', 'Fraction', 'ndarray', 'sympy', 'int'):
                    if op == 'sqrt' and kind in ('Fraction', 'int'):
                        continue
                    order.append((op, pats, kind, False))
            later = order[len(plan):]
            rng.shuffle(later)
            order = order[:len(plan)] + later
            for rep in range(3):           # A, B, A, B alternation of the two storage orders
                order += [('gp', [two, (k1,)], 'float', False), ('gp', [two[::-1], (k1,)], 'float', False),
                          ('reverse', [two], 'int', False), ('reverse', [two[::-1]], 'int', False)]
            # events that must not make anything be generated again: source-line cache cleared, an option that is not part of the
            # generated code re-assigned, another operator failing while ITS code is generated, tables of the algebra read
            cut = len(plan) + len(later) // 2
            nulls = [1 << i for i, s_ in enumerate(alg.signature) if s_ == 0]
            order = order[:cut] + [('@linecache', [], 'int', False), ('@simp_func', [], 'int', False),
                                   ('div', [(canon[-1],), (nulls[0] if nulls else canon[1],)], 'int', False),   # fails during generation when the divisor is null
                                   ('@read-tables', [], 'int', False), ('@register-namesakes', [], 'int', False)] + order[cut:]
            seen = set()
            for op, pats, kind, first in order:
                if op.startswith('@'):
                    R.count('event=' + op)
                    try:
                        if op == '@linecache':
                            import linecache
                            linecache.clearcache()
                        elif op == '@simp_func':
                            old_simp = alg.simp_func
                            alg.simp_func = (lambda v, _f=old_simp: _f(v))
                        elif op == '@register-namesakes':
                            # user functions that happen to be called like built-in operators (registered, not called)
                            for nm_, f_ in (('add', lambda a, b: a + b), ('sub', lambda a, b: a - b), ('gp', lambda a, b: a * b),
                                            ('inv', lambda a: a.inv()), ('reverse', lambda a: ~a), ('div', lambda a, b: a / b),
                                            ('normsq', lambda a: a.normsq()), ('sw', lambda a, b: a >> b)):
                                f_.__name__ = nm_
                                alg.register(f_)
                                alg.register(symbolic=True)(f_) if nm_ in ('add', 'gp') else None
                        else:
                            alg.cayley if alg.d <= 4 else None
                            alg.matrix_basis if 1 <= alg.d <= 3 else None
                    except Exception:
                        pass
                    continue
                mvs = [oc.make_mv(alg, list(p), coeffs(kind, rng, len(p))) for p in pats]
                n_ev, n_cp, n_lk = len(probe.events), probe.compiles, len(probe.lookups)
                try:
                    getattr(alg, op)(*mvs)
                    err = None
                except Exception as e:  # noqa
                    err = type(e).__name__
                new_ev = probe.events[n_ev:]
                new_cp = probe.compiles - n_cp
                firstlk = [l for l in probe.lookups[n_lk:] if l[0] == 0]
                failed_gen = err is not None and firstlk and not firstlk[0][3] and ('gen', firstlk[0][1], firstlk[0][2]) not in probe.events
                top.append(((op, pats), firstlk, failed_gen))
                key = (op, tuple(pats))
                repeat = key in seen
                R.count('coeff=' + kind); R.count('op=' + op)
                R.case((algs.describe(spec), op, pats, kind, repeat), repeat,
                       sample={'algebra': algs.describe(spec), 'op': op, 'keys': [list(p) for p in pats], 'coefficients': kind,
                               'repeat': repeat, 'codegen_events': len(new_ev), 'compile_calls': new_cp, 'error': err})
                if repeat and (new_ev or new_cp) and not failed_gen:
                    R.violation({'clause': 'regenerated', 'coeff': kind},
                                {'algebra': spec, 'op': op, 'keys': [list(p) for p in pats], 'coefficients': kind,
                                 'events': [(e[1], e[2]) for e in new_ev], 'compile_calls': new_cp},
                                f'{op} on keys {pats} with {kind} coefficients in Algebra({algs.describe(spec)}) generated/compiled again: '
                                f'{len(new_ev)} codegen events, {new_cp} compile() calls on a repeated key pattern')
                if not failed_gen:
                    seen.add(key)
                # at most once per (operator, keys) overall
            evs = [(e[1], e[2]) for e in probe.events]
            dup = {e for e in evs if evs.count(e) > 1}
            failed_keys = {(t[1][0][1], t[1][0][2]) for t in top if t[2]}
            if dup - failed_keys:
                R.violation({'clause': 'generated-twice'}, {'algebra': spec, 'duplicates': sorted(map(str, dup))},
                            f'code generated more than once for {sorted(map(str, dup))[:3]} in Algebra({algs.describe(spec)})')
            if not any(t[2] for t in top):
                compare_with_model(R, f'C10_{ai}', alg, {}, use_wrapper, top, probe, algs.describe(spec))
            else:
                R.count('history-with-failed-generation (not model-compared)')
            # registered functions, one nested in two others: the python body of each is traced once per key pattern, whether it is
            # reached directly or from inside another registered function, in any order
            traced = {'inner': 0, 'outer1': 0, 'outer2': 0}
            def inner(a, b):
                traced['inner'] += 1
                return a * b + a
            inner_r = alg.register(inner)
            def outer1(a, b):
                traced['outer1'] += 1
                return inner_r(a, b) | b
            def outer2(a, b):
                traced['outer2'] += 1
                return inner_r(a, b) ^ a
            o1, o2 = alg.register(outer1), alg.register(outer2)
            ku, kv_ = tuple(rng.sample(canon, 2)), tuple(rng.sample(canon, 2))
            mk2 = lambda: (oc.make_mv(alg, list(ku), coeffs('float', rng, 2)), oc.make_mv(alg, list(kv_), coeffs('float', rng, 2)))
            seq = [o1, inner_r, o2, o1, inner_r, o2]
            if ai % 2:
                seq = [inner_r, o2, o1, o2, inner_r, o1]
            for f_ in seq:
                try:
                    f_(*mk2())
                except Exception:  # noqa
                    pass
            # a registered function with a plain-number argument, called with several different values: one trace
            traced['blend'] = 0
            def blend(a, b, t):
                traced['blend'] += 1
                return a * t + b * (1 - t)
            blend_r = alg.register(blend)
            for tval in (0.5, 0.25, 2, 3.0, 0.125):
                try:
                    blend_r(*mk2(), tval)
                except Exception:  # noqa
                    pass
            R.count('registered=nested'); R.case(('nested-registered', ai), True)
            if any(v > 1 for v in traced.values()):
                R.violation({'clause': 'regenerated', 'coeff': 'registered'},
                            {'algebra': spec, 'op': 'registered', 'keys': [list(ku), list(kv_)], 'coefficients': 'float', 'traced': dict(traced)},
                            f'registered functions were traced {traced} times for ONE key pattern {ku}, {kv_} in Algebra({algs.describe(spec)}) '
                            f'(inner is called directly and from inside outer1 and outer2)')
            # a call that fails while the generated function is EVALUATED (division by an element that is numerically zero), then the same
            # key pattern again with proper values: nothing is generated again
            kz = tuple(rng.sample(canon[1:], 1))
            for uop in ('inv', 'normalized'):
                def zcall(vals_):
                    try:
                        getattr(alg, uop)(oc.make_mv(alg, list(kz), vals_)) if uop == 'inv' else oc.make_mv(alg, list(kz), vals_).normalized()
                    except Exception:  # noqa
                        pass
                zcall([2.0])
                e0, c0 = len(probe.events), probe.compiles
                zcall([0.0]); zcall([3.0]); zcall([0]); zcall([5.0])
                R.count('evaluation-failure=then-repeat'); R.case(('eval-fail', ai, uop), True)
                if len(probe.events) != e0 or probe.compiles != c0:
                    R.violation({'clause': 'regenerated', 'coeff': 'evaluation-failure'},
                                {'algebra': spec, 'op': uop, 'keys': [list(kz)], 'coefficients': 'float', 'events': [(e[1], str(e[2])) for e in probe.events[e0:]][:4], 'compile_calls': probe.compiles - c0},
                                f'{uop} on keys {kz} in Algebra({algs.describe(spec)}): after a call that failed at evaluation time (zero operand) the same pattern generated '
                                f'{len(probe.events) - e0} functions and called compile() {probe.compiles - c0} times')
            # integer powers (x ** n, n up to +-6), repeated with the same key pattern and fresh values: whatever machinery a power uses,
            # nothing is generated or compiled on the repetitions
            kp = tuple([0] + rng.sample(canon[1:], 1))
            for n_ in (2, 3, 4, 5, -1, -4, 6):
                def powcall():
                    xv = oc.make_mv(alg, list(kp), [float(rng.randint(2, 5)), 1.0])
                    try:
                        return xv ** n_
                    except Exception:  # noqa
                        return None
                powcall()
                e0, c0 = len(probe.events), probe.compiles
                powcall(); powcall()
                R.count('power=repeated'); R.case(('power-repeated', ai, n_), True)
                if len(probe.events) != e0 or probe.compiles != c0:
                    R.violation({'clause': 'regenerated', 'coeff': 'power'},
                                {'algebra': spec, 'op': 'pow', 'keys': [list(kp)], 'coefficients': 'float', 'n': n_,
                                 'events': [(e[1], str(e[2])) for e in probe.events[e0:]][:4], 'compile_calls': probe.compiles - c0},
                                f'x ** {n_} on keys {kp} in Algebra({algs.describe(spec)}): two repetitions after the first call generated {len(probe.events) - e0} functions '
                                f'and called compile() {probe.compiles - c0} times')
            # key containers that are not tuples (a range): one generation per pattern all the same (after the model
            # comparison: a range is a different dictionary key than the tuple with the same entries)
            from kingdon import MultiVector
            rk = range(1, 3)
            for uop in ('neg', 'reverse', 'normsq', 'involute'):
                n_before = len(probe.events)
                for kind in ('int', 'float', 'Fraction', 'int'):
                    try:
                        getattr(alg, uop)(MultiVector.fromkeysvalues(alg, rk, coeffs(kind, rng, 2)))
                    except Exception:  # noqa
                        pass
                gens = [e for e in probe.events[n_before:] if e[1] == uop]
                R.count('keys=range'); R.case(('range-keys', ai, uop), True)
                if len(gens) > 1:
                    R.violation({'clause': 'regenerated', 'coeff': 'range-keys'},
                                {'algebra': spec, 'op': uop, 'keys': [[1, 2]], 'coefficients': 'range keys', 'events': [(e[1], str(e[2])) for e in gens]},
                                f'{uop} on a multivector whose keys are range(1, 3) in Algebra({algs.describe(spec)}) was generated {len(gens)} times in 4 calls')


def many_patterns(R, rng, tier):
    """Hundreds of key patterns of one operator on one algebra: the function generated for an early pattern is still THE function
    of that pattern afterwards (nothing is evicted and generated again)."""
    alg = algs.make_impl({'sig': [1, 1, 1, 1]})
    canon = list(alg.canon2bin.values())
    n = 300 if tier == 'quick' else 1500
    pats = set()
    while len(pats) < n:
        pats.add(tuple(rng.sample(canon, rng.randint(1, 5))))
    pats = list(pats)
    for opname, ar in (('neg', 1), ('add', 2)):
        od = getattr(alg, opname)
        first = {}
        for i, p in enumerate(pats):
            key = p if ar == 1 else (p, pats[(i * 7 + 1) % n])
            mvs = [oc.make_mv(alg, list(k), [1] * len(k)) for k in ((key,) if ar == 1 else key)]
            getattr(alg, opname)(*mvs)
            if i < 25:
                first[key] = od[key][1]
        R.count('many-patterns=' + opname); R.case(('many-patterns', opname, n), True)
        again = [key for key, f in first.items() if od[key][1] is not f]
        if again or len(od) < n:
            R.violation({'clause': 'regenerated', 'coeff': 'many-patterns'},
                        {'algebra': {'sig': [1, 1, 1, 1]}, 'op': opname, 'keys': [list(k) if ar == 1 else [list(x) for x in k] for k in again[:3]], 'coefficients': 'int',
                         'patterns': n, 'cached': len(od)},
                        f'{opname}: after {n} distinct key patterns on Algebra(4) the cache holds {len(od)} of them and {len(again)} of the first 25 patterns '
                        f'got a newly generated function')


def replay(R, rec):
    warnings.filterwarnings('ignore')
    r = rec['replay']
    if 'op' not in r:
        return False
    import random
    rng = random.Random(1)
    probe = instr.Probe()
    with probe.active():
        alg = algs.make_impl(r['algebra'])
        pats = [tuple(p) for p in r['keys']]
        getattr(alg, r['op'])(*[oc.make_mv(alg, list(p), coeffs('int' if r['op'] != 'sqrt' else 'float', rng, len(p))) for p in pats])
        n_ev, n_cp = len(probe.events), probe.compiles
        try:
            getattr(alg, r['op'])(*[oc.make_mv(alg, list(p), coeffs(r['coefficients'], rng, len(p))) for p in pats])
        except Exception:
            pass
        return len(probe.events) == n_ev and probe.compiles == n_cp
