"""C02 — geometric product of sparse multivectors = bilinear extension over the blade table.
Correspondence: a*b / alg.gp(a, b) / alg.gp[keys_a, keys_b] of the real kingdon (every key-pattern pair
generates and compiles its own function) against Model/Codegen.v `gp`, on integer coefficients, at the
observation level of the property (coefficient of every blade + set of stored blades).  Oracle: the
bilinear extension computed in Python from the implementation's own sign table."""
import warnings
import kv, algs, opcorr as oc

RULE = ('pairs of key tuples: every ordered pair of ordered subsets for d<=1, all subset pairs in random storage orders '
        'for d=2, random sparse/grade/full/binary/empty/permuted patterns for d<=6 over random signature orderings, '
        'default and custom bases; integer coefficients (some zero).  Non-trivial = at least one contributing pair; '
        'distinct = distinct (algebra, keys_a, keys_b).')
TRUSTED = ['hand-written model coq/Model/Codegen.v of codegen_product/codegen_gp/do_codegen re-sort (kernels bridged to Gen/Codegen.v)',
           'mathstr, func_builder/lambdify/KingdonPrinter, compile, OperatorDict dispatch are NOT modelled: validated per generated function by this correspondence']
ASSUMPTIONS = ['generated functions are polynomial in their inputs: evaluating them on random integer points (exact) stands for the probe ring',
               'multivectors have duplicate-free key tuples (the constructor cannot produce others except through fromkeysvalues)']


def spec_product(alg, x, y, accept=lambda kx, ky, ko: True, sign=None, keyout=lambda a, b: a ^ b):
    """the property's right-hand side: {K: sum of sign*vx*vy} and the set of blades that must be present"""
    S = alg.signs
    coeffs, present = {}, set()
    for kx, vx in x:
        for ky, vy in y:
            s = sign(kx, ky) if sign else S[kx, ky]
            if s == 0:
                continue
            ko = keyout(kx, ky)
            if not accept(kx, ky, ko):
                continue
            present.add(ko)
            coeffs[ko] = coeffs.get(ko, 0) + s * vx * vy
    return coeffs, present


def check_spec(R, spec, alg, opname, x, y, out, **kw):
    coeffs, present = spec_product(alg, x, y, **kw)
    got = oc.coeff_map(out)
    ok = set(got) == present and all(got[k] == coeffs[k] for k in present) and len(out) == len(got)
    if not ok:
        R.violation({'clause': opname, 'basis': algs.kind(spec)},
                    {'algebra': spec, 'op': opname, 'x': x, 'y': y, 'impl': out, 'spec': sorted(coeffs.items())},
                    f'{opname} of {x} and {y} in Algebra({algs.describe(spec)}) returned {out}, bilinear extension is {sorted(coeffs.items())}')
    return ok


def pattern_cases(R, tier):
    """yield (spec, keys_a, keys_b, tag)"""
    rng = R.rng
    for d in (0, 1):
        for sig in algs.all_sigs(d):
            spec = {'sig': sig}
            ks = list(range(2 ** d))
            for ka in oc.ordered_subsets(ks):
                for kb in oc.ordered_subsets(ks):
                    yield spec, ka, kb, 'exhaustive-d<=1'
    sigs2 = algs.all_sigs(2) if tier != 'quick' else [[1, 1], [1, -1], [0, 1], [-1, 0]]
    for sig in sigs2:
        spec = {'sig': sig}
        ks = [0, 1, 2, 3]
        if tier == 'quick':
            subs = list(oc.subsets(ks))
            for ka in subs:
                for kb in subs:
                    a, b = list(ka), list(kb)
                    rng.shuffle(a); rng.shuffle(b)
                    yield spec, tuple(a), tuple(b), 'subsets-d=2'
        else:
            osubs = list(oc.ordered_subsets(ks))
            for ka in osubs:
                for kb in osubs:
                    yield spec, ka, kb, 'exhaustive-d=2'
    n = 400 if tier == 'quick' else 12000
    for i in range(n):
        d = rng.choice((2, 3, 3, 4, 4, 5, 6) if tier == 'quick' else (3, 4, 4, 5, 5, 6, 7))
        if i % 25 == 0:
            d = rng.choice((7, 8, 9, 10))      # the lazily filled sign table, generators beyond the 8th bit
        if i % 100 == 50:
            # a custom basis beyond d = 6 (lazily computed signs), degenerate metric, generators listed out of index order
            d = 7
            spec = {'sig': [0] + [rng.choice((1, -1)) for _ in range(d - 1)], 'basis': algs.random_basis(rng, d, start=0, spell=False, order=False)}
        elif rng.random() < 0.2 and d <= 5:
            spec = {'sig': [rng.choice((1, -1, 0)) for _ in range(d)], 'basis': algs.random_basis(rng, d)}
        elif rng.random() < 0.1:
            spec = {'fromname': rng.choice(list(algs.NAMED))}
        else:
            spec = {'sig': [rng.choice((1, -1, 0)) for _ in range(d)], 'start': rng.choice((None, 0, 1))}
        yield spec, None, None, 'random'
    # one algebra object with a wrapper (JIT-style decorator returning a new callable), the same blade
    # sets met in several storage orders: each product must still be the bilinear extension
    for j in range(3 if tier == 'quick' else 40):
        d = rng.choice((2, 3))
        spec = {'sig': [rng.choice((1, -1, 0)) for _ in range(d)], 'wrapper': True}
        base = [rng.sample(range(2 ** d), rng.randint(2, 3)) for _ in range(2)]
        for _ in range(10):
            ka, kb = list(rng.choice(base)), list(rng.choice(base))
            rng.shuffle(ka); rng.shuffle(kb)
            yield spec, tuple(ka), tuple(kb), 'wrapper-history'


def noncommutative(R, tier):
    """coefficients that do not commute (sympy symbols with commutative=False): every term is coefficient-of-a x coefficient-of-b in
    that order, also when both operands are the same object"""
    import sympy
    from kingdon import MultiVector
    rng = R.rng
    for it in range(6 if tier == 'quick' else 60):
        d = rng.choice((2, 3))
        spec = {'sig': [rng.choice((1, -1, 0)) for _ in range(d)]}
        alg = algs.make_impl(spec)
        canon = [int(k) for k in alg.canon2bin.values()]
        ka = rng.sample(canon, rng.randint(2, min(4, len(canon))))
        A_ = [sympy.Symbol('A%d' % i, commutative=False) for i in range(len(ka))]
        x = MultiVector.fromkeysvalues(alg, tuple(ka), list(A_))
        xc = MultiVector.fromkeysvalues(alg, tuple(ka), list(A_))          # an equal copy (another object)
        for label, a_, b_ in (('x * x (one object)', x, x), ('x * copy of x', x, xc)):
            R.count('noncommutative'); R.case(('nc', algs.describe(spec), tuple(ka), label), True)
            want = {}
            for ka_, va in zip(a_.keys(), a_.values()):
                for kb_, vb in zip(b_.keys(), b_.values()):
                    sgn = alg.signs[ka_, kb_]
                    if sgn:
                        want[ka_ ^ kb_] = want.get(ka_ ^ kb_, 0) + sgn * va * vb
            try:
                r = a_ * b_
                got = {int(k): sympy.expand(v) for k, v in zip(r.keys(), r.values())}
            except Exception as e:  # noqa
                got = f'{type(e).__name__}: {e}'[:100]
            wantx = {int(k): sympy.expand(v) for k, v in want.items() if sympy.expand(v) != 0}
            if isinstance(got, str) or {k: v for k, v in got.items() if v != 0} != wantx:
                R.violation({'clause': 'gp', 'basis': algs.kind(spec), 'coefficients': 'noncommutative'},
                            {'algebra': spec, 'keys': ka, 'form': label, 'noncommutative': True},
                            f'{label} with non-commuting coefficients {A_} on blades {ka} in Algebra({algs.describe(spec)}) = {got}, the bilinear extension (coefficient of the left '
                            f'operand first) is {wantx}')


def run(R, tier):
    warnings.filterwarnings('ignore')
    rng = R.rng
    noncommutative(R, tier)
    pool = algs.AlgPool()
    cache = {}
    cases = []
    for spec, ka, kb, tag in pattern_cases(R, tier):
        key = repr(spec)
        if key not in cache:
            if spec.get('wrapper'):
                def wrap(f):
                    def g(*a): return f(*a)
                    return g
                cache[key] = algs.make_impl({k: v for k, v in spec.items() if k != 'wrapper'}, wrapper=wrap)
            else:
                cache[key] = algs.make_impl(spec)
        alg = cache[key]
        if ka is None:
            big = alg.d >= 7               # keep the lazily-tabled algebras to sparse patterns (cost)
            ka, sa = oc.random_keys(rng, alg, rng.choice(['sparse', 'single', 'sparse', 'empty']) if big else None)
            kb, sb = oc.random_keys(rng, alg, rng.choice(['sparse', 'single', 'sparse']) if big else None)
            R.count(f'style={sa}'); R.count(f'style={sb}')
        x = list(zip(ka, oc.random_values(rng, len(ka))))
        y = list(zip(kb, oc.random_values(rng, len(kb))))
        c = oc.case_for(pool, spec, alg, 'gp', [x, y])
        cases.append(c)
        R.count(tag); R.count(f'd={alg.d}')
        out = c['meta']['impl']
        nontrivial = isinstance(out, list) and len(out) > 0
        R.case((algs.describe(spec), ka, kb), nontrivial,
               sample={'algebra': algs.describe(spec), 'a': x, 'b': y, 'a*b': out})
        if isinstance(out, list):
            check_spec(R, spec, alg, 'gp', x, y, out)
            # the infix form and the cache entry itself
            if rng.random() < 0.25:
                r2 = oc.make_mv(alg, ka, [v for _, v in x]) * oc.make_mv(alg, kb, [v for _, v in y])
                keys_out, _ = alg.gp[tuple(ka), tuple(kb)]
                if oc.observe(r2) != out or tuple(keys_out) != tuple(k for k, _ in out):
                    R.violation({'clause': 'gp-infix', 'basis': algs.kind(spec)}, {'algebra': spec, 'x': x, 'y': y},
                                f'a*b / alg.gp[keys] disagree with alg.gp(a, b) for {x}, {y}')
        else:
            R.violation({'clause': 'gp-raises', 'basis': algs.kind(spec)}, {'algebra': spec, 'x': x, 'y': y, 'error': out},
                        f'a*b raised {out} for {x}, {y} in Algebra({algs.describe(spec)})')
    bad, shown = kv.run_cases('C02', cases)
    for i in bad:
        m = cases[i]['meta']
        R.violation({'clause': 'gp-model', 'basis': algs.kind(m['spec'])},
                    {'algebra': m['spec'], 'op': 'gp', 'x': m['operands'][0], 'y': m['operands'][1], 'impl': m['impl'], 'model': shown.get(i)},
                    f'gp of {m["operands"][0]} and {m["operands"][1]} in Algebra({algs.describe(m["spec"])}): implementation {m["impl"]} differs from the model')


def replay(R, rec):
    if (rec.get('replay') or {}).get('noncommutative'):
        R2 = kv.Run(rec['property'], rec.get('tier', 'quick'), int(rec.get('seed', 1))); R2.findings = []
        noncommutative(R2, R2.tier)
        return not getattr(R2, 'all_failures', [])
    warnings.filterwarnings('ignore')
    r = rec['replay']
    alg = algs.make_impl(r['algebra'])
    x, y = [tuple(t) for t in r['x']], [tuple(t) for t in r['y']]
    kind, out = oc.call_impl(alg, r.get('op', 'gp'), oc.make_mv(alg, [k for k, _ in x], [v for _, v in x]),
                             oc.make_mv(alg, [k for k, _ in y], [v for _, v in y]))
    R2 = kv.Run('C02', 'quick', 0)
    return kind == 'ok' and check_spec(R2, r['algebra'], alg, 'gp', x, y, out)
