"""C07 — inverse and division.
(a) DIRECT ORACLE on the implementation (exploration for d >= 5 and custom spellings, confirmation of the d <= 4 theorems):
    whenever x.inv() returns, x*x.inv() and x.inv()*x are the scalar 1 — exactly over fractions.Fraction
    for d <= 5, to 1e-9 relative for d >= 6 (the iterative scheme divides by floats); a/b = a*b.inv(),
    c/x = c*x.inv(), x**-n = (x.inv())**n; when x.inv() raises ZeroDivisionError the operand must be
    singular: the left-multiplication matrix of x, built from alg.signs, has rank < 2^d over Fraction
    (exact elimination).  Any other exception, a ZeroDivisionError for an invertible operand or a returned
    value that is not the inverse is a violation.
(b) MODEL TIE: Model/Inverse.v evaluated in Coq against the real generators called on numbers:
    hitzer (numerator, denominator) over Z vs codegen_hitzer_inv(x, symbolic=True) on integer operands
    (d <= 5); inv_model over Q vs x.inv() on Fraction operands incl. the ZeroDivisionError outcome (d <= 5);
    shirokov (adjugate, denominator) over Q vs codegen_shirokov_inv(x, symbolic=True) on Fraction operands
    (d = 6, very sparse; both sides run WITHOUT the symbolic zero-filter, so they agree even where the
    unfiltered loop does not reach its break); AdditionChains(limit).minimal_chains entry by entry in
    dictionary order."""
import warnings, time, math
from fractions import Fraction as Fr
import kv, algs, opcorr as oc

RULE = ('d<=3: every signature over {1,-1,0} (quick: all d<=2, half of d=3) x operand kinds dense / sparse / permuted / zero-padded / '
        'deliberately singular (null blades, idempotent-like 1+e_i, zero); d=4 dense and sparse, d=5 with <= 6 keys (quick) sampled signatures; '
        'd=6,7 with 1-4 keys (Shirokov); random custom bases d<=4; Fraction coefficients.  Non-trivial = the operand is non-zero; '
        'distinct = distinct (algebra, key tuple, values).')
TRUSTED = ['Model/Inverse.v (hand-written after codegen.py / multivector.py) tied by this correspondence',
           'exact Gaussian elimination over fractions.Fraction in this file (singularity oracle)',
           'd = 5: no theorem covers x*num = den; d >= 6: the theorem assumes that the Shirokov loop stops by its break; custom bases with non-ascending spellings: '
           'not composed with the relabelling theorem — for these the direct oracle (a) is exploration only',
           'd >= 6: kingdon divides by python floats inside the generated polynomials; compared to 1e-9 relative, errors up to 1e-5 are counted as rounding notes']
ASSUMPTIONS = ['Fraction evaluation points stand for exact coefficient types', 'duplicate-free key tuples',
               'numeric calls of codegen_hitzer_inv / codegen_shirokov_inv (no symbolic filter) stand for the generated code in the model tie']

TOL = 1e-9


# ----------------------------------------------------------------------------- helpers
def mk(alg, items):
    from kingdon import MultiVector
    return MultiVector.fromkeysvalues(alg, tuple(k for k, _ in items), [v for _, v in items])


def obs(mv):
    return list(zip((int(k) for k in mv.keys()), mv.values()))


def coeffs(mv):
    d = {}
    for k, v in zip(mv.keys(), mv.values()):
        d.setdefault(int(k), v)
    return d


def is_exact(v):
    return isinstance(v, (int, Fr))


ROUNDING = {'n': 0, 'worst': 0.0}          # float results off by more than TOL but less than GROSS (d >= 6 only)
GROSS = 1e-5


def close(a, b, exact):
    if exact and is_exact(a) and is_exact(b):
        return a == b
    a, b = float(a), float(b)
    err = abs(a - b) / max(1.0, abs(a), abs(b))
    if err <= TOL:
        return True
    if not exact and err <= GROSS:
        # the iterative scheme runs 2^ceil(d/2) rounds in floats and is ill-conditioned for larger d: an error
        # between 1e-9 and 1e-5 is recorded as a rounding note, not as a wrong inverse
        ROUNDING['n'] += 1
        ROUNDING['worst'] = max(ROUNDING['worst'], err)
        return True
    return False


def same(m1, m2, exact):
    c1, c2 = (m1 if isinstance(m1, dict) else coeffs(m1)), (m2 if isinstance(m2, dict) else coeffs(m2))
    return all(close(c1.get(k, 0), c2.get(k, 0), exact) for k in set(c1) | set(c2))


def is_one(mv, exact):
    return same(coeffs(mv), {0: 1}, exact)


def left_matrix(alg, items):
    """matrix of y |-> x*y in the blade basis, from alg.signs"""
    n = 2 ** alg.d
    M = [[Fr(0)] * n for _ in range(n)]
    x = {}
    for k, v in items:
        x.setdefault(k, Fr(v))
    for a, va in x.items():
        if va == 0:
            continue
        for b in range(n):
            s = alg.signs[a, b]
            if s:
                M[a ^ b][b] += s * va
    return M


def rank(M):
    M = [row[:] for row in M]
    n, r = len(M), 0
    for c in range(n):
        piv = next((i for i in range(r, n) if M[i][c] != 0), None)
        if piv is None:
            continue
        M[r], M[piv] = M[piv], M[r]
        pr = M[r]
        inv = 1 / pr[c]
        for i in range(r + 1, n):
            f = M[i][c]
            if f != 0:
                f *= inv
                ri = M[i]
                for j in range(c, n):
                    if pr[j] != 0:
                        ri[j] -= f * pr[j]
        r += 1
    return r


def singular(alg, items):
    return rank(left_matrix(alg, items)) < 2 ** alg.d


def qterm(v):
    v = Fr(v)
    return f'(Qmake {kv.Z(v.numerator)} {v.denominator}%positive)'


def qmv_term(items):
    return kv.blist(kv.pair(kv.Z(k), qterm(v)) for k, v in items)


def rand_frac(rng, zero_p=0.0):
    if rng.random() < zero_p:
        return Fr(0)
    n = 0
    while n == 0:
        n = rng.randint(-6, 6)
    return Fr(n, rng.choice((1, 1, 1, 2, 3, 4)))


# ----------------------------------------------------------------------------- the oracle on one operand
def oracle(R, alg, spec, items, exact, extra=True, report=True):
    """-> (outcome, inverse or None); outcome in 'ok' / 'zde' / 'violation'.  Reports violations through R."""
    desc = algs.describe(spec)
    x = mk(alg, items)
    cls = {'basis': algs.kind(spec), 'd': alg.d}
    rep = {'algebra': spec, 'x': [(k, str(v)) for k, v in items]}

    def viol(clause, what):
        if report:
            R.violation(dict(cls, clause=clause), dict(rep, clause=clause), f'{clause}: {what} [x={rep["x"]} in Algebra({desc})]')
        return 'violation', None
    try:
        xi = x.inv()
    except ZeroDivisionError:
        if not singular(alg, items):
            return viol('zde-for-invertible', 'x.inv() raised ZeroDivisionError but the left-multiplication matrix of x is regular')
        # division by a singular operand must raise as well
        for name, f in (('div', lambda: x / x), ('rdiv', lambda: 1 / x), ('pow', lambda: x ** -1)):
            try:
                f()
                return viol(f'{name}-singular-no-error', f'{name} by a singular operand returned a value')
            except ZeroDivisionError:
                pass
            except Exception as e:  # noqa
                return viol(f'{name}-raises-other', f'{type(e).__name__}: {e}')
        return 'zde', None
    except Exception as e:  # noqa
        return viol('inv-raises-other', f'x.inv() raised {type(e).__name__}: {e}')
    ex = exact and all(is_exact(v) for v in xi.values())
    if exact and not ex:
        return viol('inv-not-exact', f'x.inv() has inexact coefficients {[type(v).__name__ for v in xi.values()][:3]} for Fraction input in d={alg.d}')
    if not is_one(x * xi, ex):
        return viol('right-inverse', f'x*x.inv() = {obs(x * xi)}')
    if not is_one(xi * x, ex):
        return viol('left-inverse', f'x.inv()*x = {obs(xi * x)}')
    if extra:
        try:
            c = Fr(3, 2)
            if not same(c / x, c * xi, ex):
                return viol('rdiv', f'c/x = {obs(c / x)} but c*x.inv() = {obs(c * xi)}')
            if not same(x / x, x * xi, ex):
                return viol('div', f'x/x = {obs(x / x)} but x*x.inv() = {obs(x * xi)}')
            # division by plain python numbers (often the first use of that pattern on the algebra): x / 3 = x * (1/3)
            q3, q5 = x / 3, x / 5.0
            if not same(q3 * 3, x, ex and all(is_exact(v) for v in q3.values())) or not same(q5 * 5.0, x, False):
                return viol('div-number', f'x/3 = {obs(q3)}, x/5.0 = {obs(q5)} for x = {obs(x)}')
            if not same(x ** -1, xi, ex) or not same(x ** -2, xi * xi, ex):
                return viol('pow-negative', f'x**-2 = {obs(x ** -2)} but x.inv()*x.inv() = {obs(xi * xi)}')
            if not same((x ** -2) * x * x, {0: 1}, ex):
                return viol('pow-negative', f'x**-2 * x * x = {obs((x ** -2) * x * x)}')
        except Exception as e:  # noqa
            return viol('div-raises-other', f'{type(e).__name__}: {e}')
    return 'ok', xi


def div_oracle(R, alg, spec, a_items, b_items, exact):
    a, b = mk(alg, a_items), mk(alg, b_items)
    cls = {'basis': algs.kind(spec), 'd': alg.d}
    rep = {'algebra': spec, 'a': [(k, str(v)) for k, v in a_items], 'x': [(k, str(v)) for k, v in b_items]}
    try:
        bi = b.inv()
    except ZeroDivisionError:
        try:
            a / b
        except ZeroDivisionError:
            return
        except Exception as e:  # noqa
            R.violation(dict(cls, clause='div-raises-other'), dict(rep, clause='div'), f'a/b raised {type(e).__name__} for singular b: a={rep["a"]} b={rep["x"]}')
            return
        R.violation(dict(cls, clause='div-singular-no-error'), dict(rep, clause='div'), f'a/b returned for a singular b: a={rep["a"]} b={rep["x"]}')
        return
    except Exception:  # reported by the unary oracle
        return
    try:
        q = a / b
    except Exception as e:  # noqa
        R.violation(dict(cls, clause='div-raises-other'), dict(rep, clause='div'), f'a/b raised {type(e).__name__}: a={rep["a"]} b={rep["x"]}')
        return
    ex = exact and all(is_exact(v) for v in list(q.values()) + list(bi.values()))
    if not same(q, a * bi, ex):
        R.violation(dict(cls, clause='div'), dict(rep, clause='div'),
                    f'a/b = {obs(q)} but a*b.inv() = {obs(a * bi)} for a={rep["a"]} b={rep["x"]} in Algebra({algs.describe(spec)})')


# ----------------------------------------------------------------------------- operand generators
def operands(rng, alg, n_each=1, max_keys=None):
    canon = [int(k) for k in alg.canon2bin.values()]
    n = len(canon)
    mk_ = max_keys or n
    out = []
    for _ in range(n_each):
        if n <= mk_:
            out.append(('dense', [(k, rand_frac(rng)) for k in canon]))
            perm = canon[:]
            rng.shuffle(perm)
            out.append(('permuted', [(k, rand_frac(rng)) for k in perm]))
            out.append(('zero-padded', [(k, rand_frac(rng, zero_p=0.5)) for k in perm]))
        m = rng.randint(1, min(mk_, n, 5))
        ks = rng.sample(canon, m)
        out.append(('sparse', [(k, rand_frac(rng)) for k in ks]))
    # two blades of one grade without a common generator (never a simple blade): exists from d = 4 on
    for _ in range(2 if alg.d >= 4 else 0):
        k0 = rng.choice([c for c in canon if 2 <= bin(c).count('1') <= alg.d - 2] or [canon[-1]])
        comp = [c for c in canon if bin(c).count('1') == bin(k0).count('1') and c & k0 == 0]
        if comp:
            out.append(('pure-grade-nonsimple', [(k0, rand_frac(rng)), (rng.choice(comp), rand_frac(rng))]))
    # deliberately singular or special
    k = rng.choice(canon)
    out.append(('blade', [(k, rand_frac(rng))]))
    if n > 1:
        k = rng.choice([c for c in canon if c])
        out.append(('one-plus-blade', [(0, Fr(1)), (k, Fr(rng.choice((1, -1))))]))
        out.append(('scalar-plus-blade', [(k, rand_frac(rng)), (0, rand_frac(rng))]))
    out.append(('zero', [(0, Fr(0))]))
    out.append(('scalar', [(0, rand_frac(rng))]))
    return out


def run(R, tier):
    warnings.filterwarnings('ignore')
    from kingdon.codegen import codegen_hitzer_inv, codegen_shirokov_inv
    rng = R.rng
    quick = tier == 'quick'
    pool = algs.AlgPool()
    cases = []
    t_start = time.time()
    budget = 85 if quick else 2400           # seconds of python for the oracle part
    p_extra = 0.15 if quick else 0.5         # share of operands that also go through / , number/x and ** (codegen_div is slow)

    specs = []
    for d in range(0, 4):
        for sig in algs.all_sigs(d):
            if quick and d == 3 and rng.random() < 0.5:
                continue
            specs.append(({'sig': sig, 'start': rng.choice((None, None, 0, 1, 2))}, None))
    for _ in range(8 if quick else 60):
        specs.append(({'sig': [rng.choice((1, -1, 0, 1, -1)) for _ in range(4)]}, None))
    for _ in range(6 if quick else 50):
        specs.append(({'sig': [rng.choice((1, -1, 0, 1, -1)) for _ in range(5)]}, 6 if quick else 8))
    for _ in range(6 if quick else 40):
        d = rng.choice((2, 3, 3, 4))
        sig = [rng.choice((1, -1, 0, 1)) for _ in range(d)]
        specs.append(({'sig': sig, 'basis': algs.random_basis(rng, d)}, None))
    specs += [({'pqr': (2, 0, 1)}, None), ({'pqr': (3, 0, 1)}, None), ({'pqr': (1, 3, 0)}, None)]
    specs.append(({'sig': [rng.choice((1, -1)) for _ in range(7)]}, 4))          # non-degenerate 7-D: the many-step operand
    for d in ((6, 6, 6, 7, 7) if quick else [rng.choice((6, 6, 7, 7, 8)) for _ in range(60)]):
        specs.append(({'sig': [rng.choice((1, -1, 0, 1, -1)) for _ in range(d)]}, 4))

    # every class of algebra gets its turn inside the time budget: the long-running classes first, then the rest shuffled
    head = [sp for sp in specs if len(algs.norm(sp[0])['sig']) >= 6][:3] + [sp for sp in specs if len(algs.norm(sp[0])['sig']) == 4][:3]
    rest = [sp for sp in specs if not any(sp is h for h in head)]
    rng.shuffle(rest)
    specs = head + rest
    many_step_done = False
    tie_budget = {'hitzer': 120 if quick else 3000, 'inv': 120 if quick else 3000, 'shirokov': 2 if quick else 12}
    p_tie = 0.3 if quick else 1.0
    for spec, max_keys in specs:
        if time.time() - t_start > budget:
            R.notes.append(f'oracle budget of {budget} s reached after {R.evaluations} cases')
            break
        alg = algs.make_impl(spec)
        d = alg.d
        exact = d <= 5
        ref, dfn = pool.ref(spec)
        desc = algs.describe(spec)
        ops_ = operands(rng, alg, n_each=1 if (quick or d >= 5) else 2, max_keys=max_keys)
        if d >= 6:
            canon = [int(k) for k in alg.canon2bin.values()]
            ops_ = [('sparse', [(k, rand_frac(rng)) for k in rng.sample(canon, rng.randint(1, 4))]) for _ in range(2)]
            ops_.append(('one-plus-blade', [(0, Fr(1)), (rng.choice(canon[1:]), Fr(1))]))
            if d == 7 and not many_step_done and all(s_ != 0 for s_ in alg.signature):
                # an operand whose iteration needs many rounds: three commuting bivectors and a pseudoscalar part
                many_step_done = True
                ops_.insert(0, ('many-step', [(3, Fr(2)), (12, Fr(1)), (48, Fr(4)), (127, Fr(8))]))
            elif d == 6:
                ops_.insert(0, ('many-step', [(3, Fr(2)), (12, Fr(1)), (48, Fr(4))]))
        prev = None
        for kind_, items in ops_:
            R.count(f'd={d}'); R.count('kind=' + kind_); R.count('basis=' + algs.kind(spec))
            t0 = time.time()
            if rng.random() < 0.25:
                # a harmless event first: another operator fails (or succeeds) on an operand of the same type - the polarity dual
                # raises ZeroDivisionError in every algebra with a null pseudoscalar; the inverse must not care
                try:
                    R.count('pre-event=polarity')
                    mk(alg, items).dual(kind='polarity')
                except Exception:  # noqa
                    pass
            outcome, xi = oracle(R, alg, spec, items, exact, extra=(rng.random() < p_extra))
            R.count('outcome=' + outcome)
            nontrivial = any(v != 0 for _, v in items)
            R.case((desc, tuple(items)), nontrivial,
                   sample={'algebra': desc, 'x': [(k, str(v)) for k, v in items], 'outcome': outcome,
                           'inverse': None if xi is None else [(k, str(v)) for k, v in obs(xi)][:6]})
            if prev is not None and d <= 5 and rng.random() < p_extra / 2:
                div_oracle(R, alg, spec, prev, items, exact)
                R.count('binary-div')
                if rng.random() < 0.5:          # a numerator that stores no blade (e.g. the square of a null vector): 0 / b = 0 * b.inv()
                    div_oracle(R, alg, spec, [], items, exact)
                    R.count('binary-div-empty-numerator')
            prev = items
            # ---- model tie -------------------------------------------------------------------------
            if outcome == 'violation':
                continue
            if d <= 5 and tie_budget['inv'] > 0 and len(items) <= 16 and rng.random() < p_tie:
                tie_budget['inv'] -= 1
                R.count('tie=inv_model')
                exp = 'false'
                if outcome == 'ok':
                    exp = f'match r with Ok v => qmv_equiv A v {qmv_term(obs(xi))} | Err _ => false end'
                elif outcome == 'zde':
                    exp = 'match r with Err EZeroDiv => true | _ => false end'
                chk = f'let r := inv_model Qops Qdv Qisz idF A {qmv_term(items)} in {exp}'
                cases.append({'check': algs.with_alg(ref, chk), 'defs': [dfn],
                              'show': algs.with_alg(ref, f'inv_model Qops Qdv Qisz idF A {qmv_term(items)}', '(Err EOther)'),
                              'meta': {'kind': 'inv', 'spec': spec, 'x': [(k, str(v)) for k, v in items],
                                       'impl': outcome if xi is None else [(k, str(v)) for k, v in obs(xi)]}})
            if d <= 5 and tie_budget['hitzer'] > 0 and len(items) <= 16 and rng.random() < p_tie:
                tie_budget['hitzer'] -= 1
                R.count('tie=hitzer')
                iit = [(k, int(v * 12)) for k, v in items]            # integer operand
                try:
                    num, den = codegen_hitzer_inv(mk(alg, iit), symbolic=True)
                    nobs = [(int(k), int(v)) for k, v in zip(num.keys(), num.values())]
                    chk = (f'match hitzer Zops idF A {oc.mv_term(iit)} with Ok (num, den) => '
                           f'mv_equiv A num {oc.mv_term(nobs)} && Z.eqb den {kv.Z(int(den))} | Err _ => false end')
                    cases.append({'check': algs.with_alg(ref, chk), 'defs': [dfn],
                                  'show': algs.with_alg(ref, f'hitzer Zops idF A {oc.mv_term(iit)}', '(Err EOther)'),
                                  'meta': {'kind': 'hitzer', 'spec': spec, 'x': iit, 'impl': [nobs, int(den)]}})
                except Exception as e:  # noqa
                    R.violation({'clause': 'hitzer-numeric-raises', 'd': d}, {'algebra': spec, 'x': iit},
                                f'codegen_hitzer_inv raised {type(e).__name__}: {e} on {iit} in Algebra({desc})')
            if d == 6 and tie_budget['shirokov'] > 0 and len(items) <= 2:
                tie_budget['shirokov'] -= 1
                R.count('tie=shirokov')
                try:
                    adj, den = codegen_shirokov_inv(mk(alg, items), symbolic=True)
                    aobs = [(int(k), Fr(v)) for k, v in zip(adj.keys(), adj.values())]
                    chk = (f'match shirokov Qops Qdv Qisz idF A {qmv_term(items)} with Ok (adj, den) => '
                           f'qmv_equiv A adj {qmv_term(aobs)} && Qeq_bool den {qterm(den)} | Err _ => false end')
                    cases.append({'check': algs.with_alg(ref, chk), 'defs': [dfn],
                                  'show': algs.with_alg(ref, f'shirokov Qops Qdv Qisz idF A {qmv_term(items)}', '(Err EOther)'),
                                  'meta': {'kind': 'shirokov', 'spec': spec, 'x': [(k, str(v)) for k, v in items],
                                           'impl': [[(k, str(v)) for k, v in aobs], str(den)]}})
                except Exception as e:  # noqa
                    R.notes.append(f'codegen_shirokov_inv on numbers raised {type(e).__name__}: {e} (not part of the public path)')
    # AdditionChains(limit).minimal_chains, dictionary order included (drives power_supply)
    from kingdon.codegen import AdditionChains
    for limit in (1, 2, 3, 8, 16, 32) if quick else (1, 2, 3, 4, 5, 7, 8, 12, 16, 24, 32, 64):
        ch = AdditionChains(limit).minimal_chains
        term = kv.blist(kv.pair(kv.Z(k), kv.zlist(v)) for k, v in ch.items())
        cases.append({'check': f'match minimal_chains {kv.Z(limit)} with Ok c => list_eqb (pair_eqb Z.eqb (list_eqb Z.eqb)) c {term} | Err _ => false end',
                      'show': f'minimal_chains {kv.Z(limit)}', 'defs': [],
                      'meta': {'kind': 'chains', 'spec': {'sig': []}, 'x': limit, 'impl': {k: list(v) for k, v in ch.items()}}})
        R.count('tie=chains')
    R.count('model-tie-cases', len(cases))
    if ROUNDING['n']:
        R.fidelity_notes += ROUNDING['n']
        R.notes.append(f"d >= 6 (float path): {ROUNDING['n']} coefficient comparisons were off by more than 1e-9 relative (worst {ROUNDING['worst']:.2e}, "
                       f"below the gross-error bound {GROSS}); counted as rounding, not as violations")
        ROUNDING['n'], ROUNDING['worst'] = 0, 0.0
    mutation_stream(R, rng, tier)
    bad, shown = kv.run_cases('C07', cases, imports='Model.All Model.Inverse', prelude='From Coq Require Import QArith.\nOpen Scope Z_scope.',
                              shard=60)
    for i in bad:
        m = cases[i]['meta']
        R.violation({'clause': 'model-' + m['kind'], 'basis': algs.kind(m['spec'])},
                    {'algebra': m['spec'], 'x': m['x'], 'impl': m['impl'], 'model': shown.get(i), 'clause': 'model-' + m['kind']},
                    f'{m["kind"]}: implementation {m["impl"]} differs from Model/Inverse.v on x={m["x"]} in Algebra({algs.describe(m["spec"])}); model: {shown.get(i)}')


def mutation_stream(R, rng, tier):
    """x.inv() after x was updated in place (x[i] = ..., or writing into x.values()): still the inverse of the CURRENT x."""
    import numpy as np
    from kingdon import MultiVector
    for it in range(6 if tier == 'quick' else 60):
        d = rng.choice((2, 3, 3))
        spec = {'sig': [rng.choice((1, -1, 1)) for _ in range(d)]}
        alg = algs.make_impl(spec)
        canon = [int(k) for k in alg.canon2bin.values()]
        ks = tuple([0] + rng.sample(canon[1:], rng.randint(1, 2)))
        n = 3
        vals = np.array([[float(rng.randint(2, 6))] * n] + [[float(rng.randint(-2, 2)) for _ in range(n)] for _ in ks[1:]])
        x = MultiVector.fromkeysvalues(alg, ks, vals.copy())
        R.count('kind=in-place-update'); R.case(('mutation', algs.describe(spec), ks, it), True)
        try:
            x.inv(); x ** -1
            if it % 2:
                x[1] = MultiVector.fromkeysvalues(alg, ks, [float(rng.randint(7, 9))] + [float(rng.randint(1, 3)) for _ in ks[1:]])
            else:
                x.values()[0][2] = 11.0
            xi = x.inv()
            one = x * xi
            # an array element of x may be singular: numpy then yields inf / nan for THAT element (no exception); such
            # elements are outside the property ("whenever inv returns a value") and are masked out
            arrs = {int(k): np.asarray(v, dtype=float) for k, v in zip(one.keys(), one.values())}
            finite = np.ones(n, dtype=bool)
            for v in arrs.values():
                finite &= np.isfinite(np.broadcast_to(v, (n,)))
            ok = all(np.allclose(np.broadcast_to(v, (n,))[finite], 1.0 if k == 0 else 0.0, atol=1e-9) for k, v in arrs.items())
        except ZeroDivisionError:
            continue
        except Exception as e:  # noqa
            ok = False
        if not ok:
            R.violation({'clause': 'right-inverse', 'basis': 'default', 'd': d, 'history': 'in-place-update'},
                        {'algebra': spec, 'keys': list(ks), 'steps': 'x.inv(); update x in place; x.inv()', 'clause': 'in-place-update'},
                        f'after an in-place update of an array-valued x (keys {ks}) in Algebra({algs.describe(spec)}) x*x.inv() is not 1: '
                        f'x.inv() is not the inverse of the current x')


def replay(R, rec):
    warnings.filterwarnings('ignore')
    r = rec['replay']
    alg = algs.make_impl(r['algebra'])
    items = [(int(k), Fr(v)) for k, v in r['x']]
    clause = r.get('clause', '')
    if clause.startswith('model-'):
        # model/implementation disagreement: decided by the direct oracle on the implementation
        pass
    if clause == 'div' and 'a' in r:
        a_items = [(int(k), Fr(v)) for k, v in r['a']]
        R2 = kv.Run('C07', 'quick', 0)
        R2.findings = []
        div_oracle(R2, alg, r['algebra'], a_items, items, alg.d <= 5)
        return not R2.violations
    outcome, _ = oracle(R, alg, r['algebra'], items, alg.d <= 5, extra=True, report=False)
    return outcome != 'violation'
