"""C17 — the built-in polynomial arithmetic is exact rational-function arithmetic.
Correspondence: random operation sequences over the public operators of kingdon.polynomial (growing
pool of reachable objects, a structured stream and a zero/one/negative/reflected stream) compared
STRUCTURALLY with Model/Poly.v inside Coq, plus the invariant (invb / rwf) evaluated on every reachable
object.  Oracle on the implementation: every result, converted with tosympy(), equals the same
operation on the sympy images of the operands; bool() and == 0 agree with sympy's zero test."""
import warnings
import kv

RULE = ('random operation sequences over Polynomial and RationalPolynomial (add, sub, mul, neg, div, inv, pow via the real '
        'addition-chain schedule, int operands on either side, ==, == int, bool, compare) on a growing pool of reachable objects '
        'seeded with variables a..d and the constants 0, 1, -1, 2, [] ; each operation is one case.  Non-trivial = at least one '
        'operand with a variable; distinct = distinct (operation, operands).')
TRUSTED = ['Model/Poly.v (hand-written after polynomial.py, statement by statement) tied by this structural correspondence',
           'variable names are abstracted to their rank in Python string order', 'sympy (expand / ==) as the oracle for tosympy']
ASSUMPTIONS = ['integer coefficients only: float coefficients (created by dividing by a number) are outside the model and not generated',
               'AdditionChains search is an oracle: the multiplication schedule the real code uses is passed to the model as data']

NAMES = ['a', 'b', 'c', 'd']
RANK = {n: i for i, n in enumerate(NAMES)}


def cm(m):
    return '(%s, [%s])' % (kv.Z(m[0]), '; '.join('%d%%nat' % RANK[v] for v in m[1:]))


def cp(p):
    args = p.args if hasattr(p, 'args') else p
    return '[%s]' % '; '.join(cm(m) for m in args)


def cr(r):
    return '(mkR %s %s)' % (cp(r.numer), cp(r.denom))


def cs(s):
    return '[%s]' % '; '.join('(%d%%nat, %d%%nat)' % ij for ij in s)


def run(R, tier):
    warnings.filterwarnings('ignore')
    import sympy
    from kingdon.polynomial import Polynomial as P, RationalPolynomial as RP, compare
    from kingdon.codegen import AdditionChains
    rng = R.rng
    syms = {n: sympy.Symbol(n) for n in NAMES}

    def ok_p(p):
        return isinstance(p, P) and all(isinstance(m[0], int) and not isinstance(m[0], bool) for m in p.args)

    def ok_r(r):
        return isinstance(r, RP) and ok_p(r.numer) and ok_p(r.denom)

    def sched(n):
        ac = AdditionChains(n); chain = ac[n]; out = []; known = {1}
        for s in chain:
            if s not in known:
                c = ac[s]; out.append((c[-2], s - c[-2])); known.add(s)
        return out

    def sp(o):
        return o.tosympy() if hasattr(o, 'tosympy') else sympy.Integer(o)

    def is_zero(e):
        return sympy.simplify(sympy.together(e)) == 0

    cases = []

    def chk(term, meta):
        cases.append({'check': term, 'meta': meta})

    def viol(clause, detail, **rep):
        R.violation({'clause': clause}, rep, f'{clause}: {detail}')

    def oracle(opname, r, expected, operands):
        """r (a Polynomial/RationalPolynomial) must denote `expected` (a sympy expression)"""
        try:
            if any(len(getattr(o, 'args', [])) == 0 and isinstance(o, P) and False for o in operands):
                return
            den_ok = not isinstance(r, RP) or bool(r.denom.args) and not is_zero(r.denom.tosympy())
            if not den_ok:
                return
            if not is_zero(sp(r) - expected):
                viol('denotation-' + opname, f'{opname}{tuple(str(o) for o in operands)} = {r} denotes {sp(r)}, expected {expected}',
                     op=opname, operands=[str(o) for o in operands])
            z = is_zero(sp(r))
            if bool(r) == z or (r == 0) != z:
                viol('zero-test', f'{r}: bool={bool(r)}, ==0 is {r == 0}, but it denotes {"0" if z else "a non-zero function"}',
                     op=opname, operands=[str(o) for o in operands])
        except ZeroDivisionError:
            pass

    pool = [P.fromname(n) for n in NAMES] + [P(0), P(1), P(-1), P(2), P([])]
    rpool = [RP.fromname(n) for n in NAMES] + [RP([[0]]), RP([[1]]), RP([[2]]), RP([])]
    ints = [0, 1, -1, 2, 3, -2]
    N = 700 if tier == 'quick' else 12000
    for it in range(N):
        structured = rng.random() < 0.7
        x, y = rng.choice(pool), rng.choice(pool)
        if structured:
            x = rng.choice(pool[9:] or pool); y = rng.choice(pool[9:] or pool)
        c = rng.choice(ints)
        op = rng.choice(['add', 'sub', 'mul', 'mul', 'neg', 'addz', 'mulz', 'eq', 'eqz', 'bool', 'pow', 'cmp'])
        r = None
        R.count('P.' + op)
        meta = {'cls': 'Polynomial', 'op': op, 'x': x.args, 'y': y.args, 'c': c}
        if op == 'add': r = x + y; chk('poly_eqb (padd %s %s) %s' % (cp(x), cp(y), cp(r)), meta); oracle(op, r, sp(x) + sp(y), (x, y))
        elif op == 'sub': r = x - y; chk('poly_eqb (psub %s %s) %s' % (cp(x), cp(y), cp(r)), meta); oracle(op, r, sp(x) - sp(y), (x, y))
        elif op == 'mul': r = x * y; chk('poly_eqb (pmul %s %s) %s' % (cp(x), cp(y), cp(r)), meta); oracle(op, r, sp(x) * sp(y), (x, y))
        elif op == 'neg': r = -x; chk('poly_eqb (pneg %s) %s' % (cp(x), cp(r)), meta); oracle(op, r, -sp(x), (x,))
        elif op == 'addz': r = rng.choice([x + c, c + x]); chk('poly_eqb (padd_Z %s %s) %s' % (cp(x), kv.Z(c), cp(r)), meta); oracle(op, r, sp(x) + c, (x, c))
        elif op == 'mulz': r = rng.choice([x * c, c * x]); chk('poly_eqb (pmul_Z %s %s) %s' % (cp(x), kv.Z(c), cp(r)), meta); oracle(op, r, sp(x) * c, (x, c))
        elif op == 'eq':
            e = (x == y); chk('Bool.eqb (peq %s %s) %s' % (cp(x), cp(y), kv.boolt(e)), meta)
            if e and not is_zero(sp(x) - sp(y)): viol('eq-unsound', f'{x} == {y} but they denote different functions', x=str(x), y=str(y))
        elif op == 'eqz': chk('Bool.eqb (peq_Z %s %s) %s' % (cp(x), kv.Z(c), kv.boolt(x == c)), meta)
        elif op == 'bool': chk('Bool.eqb (pbool %s) %s' % (cp(x), kv.boolt(bool(x))), meta)
        elif op == 'pow':
            n = rng.choice([1, 2, 3, 4, 5, 6, 7])
            if len(x.args) > 3: n = min(n, 3)
            if x.args:
                r = x ** n; chk('opt_eqb poly_eqb (ppow_chain %s %s) (Some %s)' % (cp(x), cs(sched(n)), cp(r)), dict(meta, n=n)); oracle(op, r, sp(x) ** n, (x, n))
        elif op == 'cmp':
            if x.args and y.args:
                ma, mb = rng.choice(x.args), rng.choice(y.args)
                chk('Z.eqb (pcompare (Some %s) (Some %s)) (%s)' % (cm(ma), cm(mb), kv.Z(compare(ma, mb))), meta)
        if r is not None:
            chk('invb %s' % cp(r), dict(meta, obs='invariant of the result'))
        R.case(('P', op, str(x.args), str(y.args), c), any(len(m) > 1 for m in x.args),
               sample={'class': 'Polynomial', 'op': op, 'x': str(x), 'y': str(y), 'c': c, 'result': str(r) if r is not None else None})
        if r is not None and ok_p(r) and len(r.args) <= 12: pool.append(r)
        if len(pool) > 60: pool.pop(rng.randrange(9, len(pool)))
    for it in range(N):
        x, y = rng.choice(rpool), rng.choice(rpool)
        if rng.random() < 0.7:
            x = rng.choice(rpool[8:] or rpool); y = rng.choice(rpool[8:] or rpool)
        c = rng.choice(ints)
        op = rng.choice(['add', 'add', 'sub', 'mul', 'mul', 'div', 'neg', 'inv', 'addz', 'mulz', 'subz', 'rsubz', 'rdivz', 'eq', 'eqz', 'bool', 'pow'])
        r = None
        R.count('RP.' + op)
        meta = {'cls': 'RationalPolynomial', 'op': op, 'x': [x.numer.args, x.denom.args], 'y': [y.numer.args, y.denom.args], 'c': c}
        nz = lambda o: not is_zero(o.numer.tosympy())
        if op == 'add': r = x + y; chk('rpoly_eqb (radd %s %s) %s' % (cr(x), cr(y), cr(r)), meta); oracle(op, r, sp(x) + sp(y), (x, y))
        elif op == 'sub': r = x - y; chk('rpoly_eqb (rsub %s %s) %s' % (cr(x), cr(y), cr(r)), meta); oracle(op, r, sp(x) - sp(y), (x, y))
        elif op == 'mul': r = x * y; chk('rpoly_eqb (rmul %s %s) %s' % (cr(x), cr(y), cr(r)), meta); oracle(op, r, sp(x) * sp(y), (x, y))
        elif op == 'div':
            r = x / y; chk('rpoly_eqb (rdiv %s %s) %s' % (cr(x), cr(y), cr(r)), meta)
            if nz(y): oracle(op, r, sp(x) / sp(y), (x, y))
        elif op == 'neg': r = -x; chk('rpoly_eqb (rneg %s) %s' % (cr(x), cr(r)), meta); oracle(op, r, -sp(x), (x,))
        elif op == 'inv':
            r = x.inv()
            if isinstance(r, int):
                chk('opt_eqb rpoly_eqb (rinv %s) None' % cr(x), meta); r = None
            else:
                chk('opt_eqb rpoly_eqb (rinv %s) (Some %s)' % (cr(x), cr(r)), meta)
                if nz(x): oracle(op, r, 1 / sp(x), (x,))
        elif op == 'addz': r = rng.choice([x + c, c + x]); chk('rpoly_eqb (radd_Z %s %s) %s' % (cr(x), kv.Z(c), cr(r)), meta); oracle(op, r, sp(x) + c, (x, c))
        elif op == 'mulz': r = rng.choice([x * c, c * x]); chk('rpoly_eqb (rmul_Z %s %s) %s' % (cr(x), kv.Z(c), cr(r)), meta); oracle(op, r, sp(x) * c, (x, c))
        elif op == 'subz': r = x - c; chk('rpoly_eqb (rsub_Z %s %s) %s' % (cr(x), kv.Z(c), cr(r)), meta); oracle(op, r, sp(x) - c, (x, c))
        elif op == 'rsubz': r = c - x; chk('rpoly_eqb (rrsub_Z %s %s) %s' % (kv.Z(c), cr(x), cr(r)), meta); oracle(op, r, c - sp(x), (c, x))
        elif op == 'rdivz':
            r = c / x; chk('rpoly_eqb (rrdiv_Z %s %s) %s' % (kv.Z(c), cr(x), cr(r)), meta)
            if nz(x): oracle(op, r, c / sp(x), (c, x))
        elif op == 'eq':
            e = (x == y); chk('Bool.eqb (req %s %s) %s' % (cr(x), cr(y), kv.boolt(e)), meta)
            if e and x.denom.args and y.denom.args and not is_zero(sp(x) - sp(y)):
                viol('eq-unsound', f'{x} == {y} but they denote different functions', x=str(x), y=str(y))
        elif op == 'eqz': chk('Bool.eqb (req_Z %s %s) %s' % (cr(x), kv.Z(c), kv.boolt(x == c)), meta)
        elif op == 'bool': chk('Bool.eqb (rbool %s) %s' % (cr(x), kv.boolt(bool(x))), meta)
        elif op == 'pow':
            n = rng.choice([1, 2, 3, 4, 5, 6])
            if len(x.numer.args) + len(x.denom.args) > 4: n = min(n, 2)
            r = x ** n; chk('opt_eqb rpoly_eqb (rpow_chain %s %s) (Some %s)' % (cr(x), cs(sched(n)), cr(r)), dict(meta, n=n)); oracle(op, r, sp(x) ** n, (x, n))
        R.case(('RP', op, str(meta['x']), str(meta['y']), c), any(len(m) > 1 for m in x.numer.args),
               sample={'class': 'RationalPolynomial', 'op': op, 'x': str(x), 'y': str(y), 'c': c, 'result': str(r) if r is not None else None})
        if r is not None and ok_r(r) and len(r.numer.args) <= 8 and len(r.denom.args) <= 8 and r.denom.args and nz(RP(r.denom)):
            chk('invb %s && invb %s' % (cp(r.numer), cp(r.denom)), dict(meta, obs='invariant of the result'))
            rpool.append(r)
        if len(rpool) > 60: rpool.pop(rng.randrange(8, len(rpool)))
    bad, shown = kv.run_cases('C17', cases, imports='Model.Util Model.Poly Theory.Poly')
    for i in bad:
        m = cases[i]['meta']
        R.violation({'clause': 'model-' + m['op'], 'cls': m['cls']}, {'case': m, 'coq_check': cases[i]['check']},
                    f'{m["cls"]} {m["op"]} on {m["x"]}, {m["y"]}, {m["c"]}: the implementation differs from Model/Poly.v '
                    f'({m.get("obs", "structural result")})')


def replay(R, rec):
    warnings.filterwarnings('ignore')
    term = rec['replay'].get('coq_check')
    if not term:
        return False
    bad, _ = kv.run_cases('C17replay', [{'check': term}], imports='Model.Util Model.Poly Theory.Poly')
    return not bad
