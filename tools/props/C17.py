"""C17 — the built-in polynomial arithmetic is exact rational-function arithmetic.
Correspondence: random operation sequences over the public operators of kingdon.polynomial (growing
pool of reachable objects, a structured stream and a zero/one/negative/reflected stream) compared
STRUCTURALLY with Model/Poly.v inside Coq, plus the invariant (invb / rwf) evaluated on every reachable
object.  Oracle on the implementation: every result, converted with tosympy(), equals the same
operation on the sympy images of the operands; bool() and == 0 agree with sympy's zero test."""
import warnings
import kv

RULE = ('random operation sequences over Polynomial and RationalPolynomial (add, sub, mul, neg, div, inv, pow via the real '
        'addition-chain schedule, int operands on either side, ==, == int, bool, compare) on a growing pool of reachable objects '
        'seeded with variables a..d and the constants 0, 1, -1, 2, [] ; each operation is one case.  Non-trivial = at least one '
        'operand with a variable; distinct = distinct (operation, operands).  Every operation also re-checks that its operands are '
        'unchanged.  Plus: quotients of single monomials with repeated variables (x^2 y / (x y^2)); accumulation idioms (acc = 0; acc += t, '
        's = 1 * a; s += b, sum(...)) with every term re-checked; float coefficients that are exact binary fractions (incl. like terms that '
        'nearly cancel, 2^50 + 1 against 2^50): exact rational value, zero tests and the coefficients of tosympy() (direct oracle).')
TRUSTED = ['Model/Poly.v (hand-written after polynomial.py, statement by statement) tied by this structural correspondence',
           'variable names are abstracted to their rank in Python string order', 'sympy (expand / ==) as the oracle for tosympy']
ASSUMPTIONS = ['the model and the theorems cover integer coefficients; float coefficients are exercised only where double-precision arithmetic is exact (direct oracle)',
               'AdditionChains search is an oracle: the multiplication schedule the real code uses is passed to the model as data']

NAMES = ['a', 'b', 'c', 'd']
RANK = {n: i for i, n in enumerate(NAMES)}


def cm(m):
    return '(%s, [%s])' % (kv.Z(m[0]), '; '.join('%d%%nat' % RANK[v] for v in m[1:]))


def cp(p):
    args = p.args if hasattr(p, 'args') else p
    return '[%s]' % '; '.join(cm(m) for m in args)


def cr(r):
    return '(mkR %s %s)' % (cp(r.numer), cp(r.denom))


def cs(s):
    return '[%s]' % '; '.join('(%d%%nat, %d%%nat)' % ij for ij in s)


def run(R, tier):
    warnings.filterwarnings('ignore')
    import sympy, copy
    from kingdon.polynomial import Polynomial as P, RationalPolynomial as RP, compare
    from kingdon.codegen import AdditionChains
    rng = R.rng
    syms = {n: sympy.Symbol(n) for n in NAMES}

    def ok_p(p):
        return isinstance(p, P) and all(isinstance(m[0], int) and not isinstance(m[0], bool) for m in p.args)

    def ok_r(r):
        return isinstance(r, RP) and ok_p(r.numer) and ok_p(r.denom)

    def sched(n):
        ac = AdditionChains(n); chain = ac[n]; out = []; known = {1}
        for s in chain:
            if s not in known:
                c = ac[s]; out.append((c[-2], s - c[-2])); known.add(s)
        return out

    def sp(o):
        return o.tosympy() if hasattr(o, 'tosympy') else sympy.Integer(o)

    def is_zero(e):
        return sympy.simplify(sympy.together(e)) == 0

    cases = []

    def chk(term, meta):
        cases.append({'check': term, 'meta': meta})

    def viol(clause, detail, **rep):
        R.violation({'clause': clause}, rep, f'{clause}: {detail}')

    def oracle(opname, r, expected, operands):
        """r (a Polynomial/RationalPolynomial) must denote `expected` (a sympy expression)"""
        try:
            if any(len(getattr(o, 'args', [])) == 0 and isinstance(o, P) and False for o in operands):
                return
            den_ok = not isinstance(r, RP) or bool(r.denom.args) and not is_zero(r.denom.tosympy())
            if not den_ok:
                return
            if not is_zero(sp(r) - expected):
                viol('denotation-' + opname, f'{opname}{tuple(str(o) for o in operands)} = {r} denotes {sp(r)}, expected {expected}',
                     op=opname, operands=[str(o) for o in operands])
            z = is_zero(sp(r))
            if bool(r) == z or (r == 0) != z:
                viol('zero-test', f'{r}: bool={bool(r)}, ==0 is {r == 0}, but it denotes {"0" if z else "a non-zero function"}',
                     op=opname, operands=[str(o) for o in operands])
        except ZeroDivisionError:
            pass

    pool = [P.fromname(n) for n in NAMES] + [P(0), P(1), P(-1), P(2), P([])]
    rpool = [RP.fromname(n) for n in NAMES] + [RP([[0]]), RP([[1]]), RP([[2]]), RP([])]
    ints = [0, 1, -1, 2, 3, -2]
    N = 700 if tier == 'quick' else 12000
    for it in range(N):
        structured = rng.random() < 0.7
        x, y = rng.choice(pool), rng.choice(pool)
        if structured:
            x = rng.choice(pool[9:] or pool); y = rng.choice(pool[9:] or pool)
        c = rng.choice(ints)
        op = rng.choice(['add', 'sub', 'mul', 'mul', 'neg', 'addz', 'mulz', 'eq', 'eqz', 'bool', 'pow', 'cmp', 'pdiv'])
        if it < 12:
            # powers of single monomials with several distinct variables (deterministic part): (3xy)^2, (x y y z)^3, ...
            x = P([[rng.choice((2, 3, -1))] + sorted(rng.choice(NAMES) for _ in range(2 + it % 3))]) + P(0)
            op = 'pow'
        r = None
        snap = (copy.deepcopy(x.args), copy.deepcopy(y.args), x, y)
        R.count('P.' + op)
        meta = {'cls': 'Polynomial', 'op': op, 'x': x.args, 'y': y.args, 'c': c}
        if op == 'add': r = x + y; chk('poly_eqb (padd %s %s) %s' % (cp(x), cp(y), cp(r)), meta); oracle(op, r, sp(x) + sp(y), (x, y))
        elif op == 'sub': r = x - y; chk('poly_eqb (psub %s %s) %s' % (cp(x), cp(y), cp(r)), meta); oracle(op, r, sp(x) - sp(y), (x, y))
        elif op == 'mul': r = x * y; chk('poly_eqb (pmul %s %s) %s' % (cp(x), cp(y), cp(r)), meta); oracle(op, r, sp(x) * sp(y), (x, y))
        elif op == 'neg': r = -x; chk('poly_eqb (pneg %s) %s' % (cp(x), cp(r)), meta); oracle(op, r, -sp(x), (x,))
        elif op == 'pdiv':
            # Polynomial / Polynomial is the quotient (a RationalPolynomial); Polynomial / +-1, +-2 a Polynomial (direct oracle, no model case)
            if y.args and len(x.args) <= 3 and len(y.args) <= 3 and not is_zero(sp(y)):     # (small operands: sympy's simplification of quotients is slow)
                q_ = x / y
                oracle(op, q_, sp(x) / sp(y), (x, y))
            cdiv = rng.choice((1, -1, 2, -2))
            if len(x.args) <= 4:
                q2 = x / cdiv
                oracle(op, q2, sp(x) / cdiv, (x, cdiv))
        elif op == 'addz': r = rng.choice([x + c, c + x]); chk('poly_eqb (padd_Z %s %s) %s' % (cp(x), kv.Z(c), cp(r)), meta); oracle(op, r, sp(x) + c, (x, c))
        elif op == 'mulz': r = rng.choice([x * c, c * x]); chk('poly_eqb (pmul_Z %s %s) %s' % (cp(x), kv.Z(c), cp(r)), meta); oracle(op, r, sp(x) * c, (x, c))
        elif op == 'eq':
            e = (x == y); chk('Bool.eqb (peq %s %s) %s' % (cp(x), cp(y), kv.boolt(e)), meta)
            if e and not is_zero(sp(x) - sp(y)): viol('eq-unsound', f'{x} == {y} but they denote different functions', x=str(x), y=str(y))
        elif op == 'eqz': chk('Bool.eqb (peq_Z %s %s) %s' % (cp(x), kv.Z(c), kv.boolt(x == c)), meta)
        elif op == 'bool': chk('Bool.eqb (pbool %s) %s' % (cp(x), kv.boolt(bool(x))), meta)
        elif op == 'pow':
            n = rng.choice([1, 2, 3, 4, 5, 6, 7])
            if len(x.args) > 3: n = min(n, 3)
            if len(x.args) > 6: n = min(n, 2)
            if x.args:
                r = x ** n; chk('opt_eqb poly_eqb (ppow_chain %s %s) (Some %s)' % (cp(x), cs(sched(n)), cp(r)), dict(meta, n=n)); oracle(op, r, sp(x) ** n, (x, n))
        elif op == 'cmp':
            if x.args and y.args:
                ma, mb = rng.choice(x.args), rng.choice(y.args)
                chk('Z.eqb (pcompare (Some %s) (Some %s)) (%s)' % (cm(ma), cm(mb), kv.Z(compare(ma, mb))), meta)
        if snap[2].args != snap[0] or snap[3].args != snap[1]:
            viol('operand-mutated', f'Polynomial {op} changed an operand: {snap[0]} -> {snap[2].args}, {snap[1]} -> {snap[3].args}', op=op, operands=[str(snap[0]), str(snap[1])])
            snap[2].args[:] = copy.deepcopy(snap[0]); snap[3].args[:] = copy.deepcopy(snap[1])
        if r is not None:
            chk('invb %s' % cp(r), dict(meta, obs='invariant of the result'))
        R.case(('P', op, str(x.args), str(y.args), c), any(len(m) > 1 for m in x.args),
               sample={'class': 'Polynomial', 'op': op, 'x': str(x), 'y': str(y), 'c': c, 'result': str(r) if r is not None else None})
        if r is not None and ok_p(r) and len(r.args) <= 12: pool.append(r)
        if len(pool) > 60: pool.pop(rng.randrange(9, len(pool)))
    for it in range(N):
        x, y = rng.choice(rpool), rng.choice(rpool)
        if rng.random() < 0.7:
            x = rng.choice(rpool[8:] or rpool); y = rng.choice(rpool[8:] or rpool)
        c = rng.choice(ints)
        op = rng.choice(['add', 'add', 'sub', 'mul', 'mul', 'div', 'neg', 'inv', 'addz', 'mulz', 'subz', 'rsubz', 'rdivz', 'eq', 'eqz', 'bool', 'pow'])
        r = None
        if rng.random() < 0.2:                          # quotients of single monomials with repeated variables: x^2 y / (x y^2), ...
            def mono():
                m = RP([[rng.choice([1, 2, 3, -1])]])
                for _ in range(rng.randint(1, 4)):
                    m = m * RP.fromname(rng.choice(NAMES[:3]))
                return m
            x, y = mono() / mono(), mono() / mono() if rng.random() < 0.5 else mono()
            R.count('RP.monomial-quotients')
        rsnap = (copy.deepcopy((x.numer.args, x.denom.args)), copy.deepcopy((y.numer.args, y.denom.args)), x, y)
        R.count('RP.' + op)
        meta = {'cls': 'RationalPolynomial', 'op': op, 'x': [x.numer.args, x.denom.args], 'y': [y.numer.args, y.denom.args], 'c': c}
        nz = lambda o: not is_zero(o.numer.tosympy())
        if op == 'add': r = x + y; chk('rpoly_eqb (radd %s %s) %s' % (cr(x), cr(y), cr(r)), meta); oracle(op, r, sp(x) + sp(y), (x, y))
        elif op == 'sub': r = x - y; chk('rpoly_eqb (rsub %s %s) %s' % (cr(x), cr(y), cr(r)), meta); oracle(op, r, sp(x) - sp(y), (x, y))
        elif op == 'mul': r = x * y; chk('rpoly_eqb (rmul %s %s) %s' % (cr(x), cr(y), cr(r)), meta); oracle(op, r, sp(x) * sp(y), (x, y))
        elif op == 'div':
            r = x / y; chk('rpoly_eqb (rdiv %s %s) %s' % (cr(x), cr(y), cr(r)), meta)
            if nz(y): oracle(op, r, sp(x) / sp(y), (x, y))
        elif op == 'neg': r = -x; chk('rpoly_eqb (rneg %s) %s' % (cr(x), cr(r)), meta); oracle(op, r, -sp(x), (x,))
        elif op == 'inv':
            r = x.inv()
            if isinstance(r, int):
                chk('opt_eqb rpoly_eqb (rinv %s) None' % cr(x), meta); r = None
            else:
                chk('opt_eqb rpoly_eqb (rinv %s) (Some %s)' % (cr(x), cr(r)), meta)
                if nz(x): oracle(op, r, 1 / sp(x), (x,))
        elif op == 'addz': r = rng.choice([x + c, c + x]); chk('rpoly_eqb (radd_Z %s %s) %s' % (cr(x), kv.Z(c), cr(r)), meta); oracle(op, r, sp(x) + c, (x, c))
        elif op == 'mulz': r = rng.choice([x * c, c * x]); chk('rpoly_eqb (rmul_Z %s %s) %s' % (cr(x), kv.Z(c), cr(r)), meta); oracle(op, r, sp(x) * c, (x, c))
        elif op == 'subz': r = x - c; chk('rpoly_eqb (rsub_Z %s %s) %s' % (cr(x), kv.Z(c), cr(r)), meta); oracle(op, r, sp(x) - c, (x, c))
        elif op == 'rsubz': r = c - x; chk('rpoly_eqb (rrsub_Z %s %s) %s' % (kv.Z(c), cr(x), cr(r)), meta); oracle(op, r, c - sp(x), (c, x))
        elif op == 'rdivz':
            r = c / x; chk('rpoly_eqb (rrdiv_Z %s %s) %s' % (kv.Z(c), cr(x), cr(r)), meta)
            if nz(x): oracle(op, r, c / sp(x), (c, x))
        elif op == 'eq':
            e = (x == y); chk('Bool.eqb (req %s %s) %s' % (cr(x), cr(y), kv.boolt(e)), meta)
            if e and x.denom.args and y.denom.args and not is_zero(sp(x) - sp(y)):
                viol('eq-unsound', f'{x} == {y} but they denote different functions', x=str(x), y=str(y))
        elif op == 'eqz': chk('Bool.eqb (req_Z %s %s) %s' % (cr(x), kv.Z(c), kv.boolt(x == c)), meta)
        elif op == 'bool': chk('Bool.eqb (rbool %s) %s' % (cr(x), kv.boolt(bool(x))), meta)
        elif op == 'pow':
            n = rng.choice([1, 2, 3, 4, 5, 6])
            if len(x.numer.args) + len(x.denom.args) > 4: n = min(n, 2)
            r = x ** n; chk('opt_eqb rpoly_eqb (rpow_chain %s %s) (Some %s)' % (cr(x), cs(sched(n)), cr(r)), dict(meta, n=n)); oracle(op, r, sp(x) ** n, (x, n))
        if (rsnap[2].numer.args, rsnap[2].denom.args) != rsnap[0] or (rsnap[3].numer.args, rsnap[3].denom.args) != rsnap[1]:
            viol('operand-mutated', f'RationalPolynomial {op} changed an operand: {rsnap[0]} -> {(rsnap[2].numer.args, rsnap[2].denom.args)}, '
                                    f'{rsnap[1]} -> {(rsnap[3].numer.args, rsnap[3].denom.args)}', op=op, operands=[str(rsnap[0]), str(rsnap[1])])
        R.case(('RP', op, str(meta['x']), str(meta['y']), c), any(len(m) > 1 for m in x.numer.args),
               sample={'class': 'RationalPolynomial', 'op': op, 'x': str(x), 'y': str(y), 'c': c, 'result': str(r) if r is not None else None})
        if r is not None and ok_r(r) and len(r.numer.args) <= 8 and len(r.denom.args) <= 8 and r.denom.args and nz(RP(r.denom)):
            chk('invb %s && invb %s' % (cp(r.numer), cp(r.denom)), dict(meta, obs='invariant of the result'))
            rpool.append(r)
        if len(rpool) > 60: rpool.pop(rng.randrange(8, len(rpool)))
    # accumulation idioms (`acc = 0; acc += t`, `s = 1 * a; s += b`, sum(...)): no term of the sum may change
    from fractions import Fraction
    for it in range(60 if tier == 'quick' else 1000):
        cls = rng.choice(['P', 'RP'])
        mk = (lambda: rng.choice(pool[9:] or pool)) if cls == 'P' else (lambda: rng.choice(rpool[8:] or rpool))
        terms = [mk() for _ in range(rng.randint(2, 4))]
        state = lambda o: copy.deepcopy(o.args if cls == 'P' else (o.numer.args, o.denom.args))
        before = [state(t) for t in terms]
        style = rng.choice(['acc=0', 'acc=1*t', 'sum', 'acc=+t'])
        R.count('accumulate=' + style); R.case(('accumulate', cls, style, it), True)
        try:
            if style == 'sum':
                acc = sum(terms)
            else:
                acc = 0 if style == 'acc=0' else (1 * terms[0] if style == 'acc=1*t' else +terms[0])
                for t in (terms if style == 'acc=0' else terms[1:]):
                    acc += t
            total = sum((sp(t) for t in terms), sympy.Integer(0))
            den_ok = cls == 'P' or all(t.denom.args and not is_zero(t.denom.tosympy()) for t in terms)
            if den_ok and not is_zero(sp(acc) - total):
                viol('denotation-accumulate', f'{style}: the accumulated sum of {[str(t) for t in terms]} denotes {sp(acc)}, expected {total}', op='iadd', operands=[str(t) for t in terms])
        except ZeroDivisionError:
            pass
        after = [state(t) for t in terms]
        if after != before:
            viol('operand-mutated', f'{style} over {cls} terms changed a term of the sum: {before} -> {after}', op='iadd', operands=[str(b) for b in before])
            for t, b in zip(terms, before):
                if cls == 'P': t.args = b
                else: t.numer.args, t.denom.args = b
    # float coefficients that are exact binary fractions (every sum and product below is exact in double precision, so the exact
    # rational value is the oracle): nothing that is not exactly zero may vanish, tosympy keeps every coefficient exactly
    dy = [0.5, 0.25, 1.5, 2.0 ** -20, 3.0, -0.5, 2.0 ** -19]
    big = [2.0 ** 50 + 1, 2.0 ** 50, -(2.0 ** 50), 2.0 ** 50 - 1]        # sums and differences only: like terms that nearly cancel
    for it in range(60 if tier == 'quick' else 1000):
        nv = rng.sample(NAMES[:4], 2)
        opn = rng.choice(['add', 'sub', 'mul'])
        cset = dy if opn == 'mul' or rng.random() < 0.5 else big
        def fpoly():
            return P([[rng.choice(cset)] + sorted(rng.sample(nv, rng.randint(0, 2))) for _ in range(rng.randint(1, 2))]) + P(0)
        x, y = fpoly(), fpoly()
        if cset is big and rng.random() < 0.6 and x.args:
            y = P([[rng.choice(big)] + list(x.args[0][1:])]) + P(0)        # a like term
        R.count('float-dyadic=' + opn); R.case(('float-dyadic', it, opn, str(x.args), str(y.args)), True)
        r = x + y if opn == 'add' else x - y if opn == 'sub' else x * y
        def exact(p_):
            d = {}
            for m in p_.args:
                d[tuple(m[1:])] = d.get(tuple(m[1:]), 0) + Fraction(m[0])
            return {k: v for k, v in d.items() if v != 0}
        ex, ey = exact(x), exact(y)
        if opn == 'mul':
            want = {}
            for ka_, va in ex.items():
                for kb_, vb in ey.items():
                    k = tuple(sorted(ka_ + kb_)); want[k] = want.get(k, 0) + va * vb
        else:
            want = dict(ex)
            for k, v in ey.items():
                want[k] = want.get(k, 0) + (v if opn == 'add' else -v)
        want = {k: v for k, v in want.items() if v != 0}
        if exact(r) != want:
            viol('denotation-float', f'{opn} of {x} and {y} (binary-fraction coefficients, exact in double precision) = {r}, exact value {want}', op=opn, operands=[str(x), str(y)])
        if bool(r) != bool(want) or (r == 0) != (not want):
            viol('zero-test', f'{r}: bool={bool(r)}, ==0 is {r == 0}, exact value {want}', op=opn, operands=[str(x), str(y)])
        ts = sympy.expand(r.tosympy())
        back = {}
        for term, coef in ts.as_coefficients_dict().items():
            cv = Fraction(float(coef)) if not coef.is_Rational else Fraction(int(coef.p), int(coef.q))
            if cv != 0:
                back[str(term)] = cv
        wants = {}
        for k, v in want.items():
            key = str(sympy.Mul(*[sympy.Symbol(n_) for n_ in k])) if k else '1'
            wants[key] = v
        if back != wants:
            viol('tosympy-float', f'tosympy() of {r} has the coefficients {back}, the stored ones are {wants}', op='tosympy', operands=[str(r)])
    bad, shown = kv.run_cases('C17', cases, imports='Model.Util Model.Poly Theory.Poly', shard=120, timeout=1200)
    for i in bad:
        m = cases[i]['meta']
        R.violation({'clause': 'model-' + m['op'], 'cls': m['cls']}, {'case': m, 'coq_check': cases[i]['check']},
                    f'{m["cls"]} {m["op"]} on {m["x"]}, {m["y"]}, {m["c"]}: the implementation differs from Model/Poly.v '
                    f'({m.get("obs", "structural result")})')


def replay(R, rec):
    warnings.filterwarnings('ignore')
    term = rec['replay'].get('coq_check')
    if not term:
        return False
    bad, _ = kv.run_cases('C17replay', [{'check': term}], imports='Model.Util Model.Poly Theory.Poly')
    return not bad
