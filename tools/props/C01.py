"""C01 — basis-blade products follow the Clifford relations.
Correspondence: canon2bin, the sign table (eager and lazy), cayley, blade products and permuted
spellings of the real kingdon against Model/Alg.v; plus the Clifford relations checked directly on
the implementation (the oracle used to exhibit a failing input)."""
import itertools, warnings
import kv, algs

RULE = ('algebras: all signature orderings (and all (p,q,r)) up to a dimension bound, start indices 0-2, named '
        'algebras, exhaustive/random admissible custom bases; per algebra the whole sign table (d<=6) or random '
        'entries of the lazy table (d=7,8), cayley, blade products, permuted spellings.  A case is non-trivial '
        'when it compares at least one table entry or product; distinct = distinct (algebra, observation) pairs.')
TRUSTED = ['hand-written model coq/Model/Alg.v + Swap.v of Algebra.__post_init__/_prepare_signs/_swap_blades/'
           'cayley/_blade2canon (tied by this correspondence only)']
ASSUMPTIONS = ['hex digits of blade names are abstracted to their values; names with multi-character digits (index >= 16) are outside the model',
               'well-formedness of each explored basis (wf_basis) is evaluated in Coq for that algebra, not proved for the generator']


def specs_for(R, tier):
    rng = R.rng
    out = []
    dmax_all = 3 if tier == 'quick' else 5
    for d in range(dmax_all + 1):
        for sig in algs.all_sigs(d):
            for start in ((None, 0, 2) if tier == 'quick' and d == 3 else (None, 0, 1, 2)):
                out.append({'sig': sig, 'start': start})
    out += algs.pqr_specs(4 if tier == 'quick' else 6)
    extra_d = [(4, 12), (5, 4), (6, 2), (7, 4), (8, 2)] if tier == 'quick' else [(6, 40), (7, 30), (8, 12)]
    for d, n in extra_d:
        for _ in range(n):
            out.append({'sig': [rng.choice((1, -1, 0)) for _ in range(d)], 'start': rng.choice((None, 0, 1, 2))})
    # lazily filled tables (d > 6) through the (p, q, r) form too: r = 0, 1 and > 1
    out += [{'pqr': (5, 0, 2)}, {'pqr': (4, 2, 1)}, {'pqr': (7, 0, 0)}, {'pqr': (3, 3, 2)}]
    for nm in algs.NAMED:
        out.append({'fromname': nm})
    # custom bases: exhaustive d<=2, random above
    for d in (1, 2):
        for start in (0, 1, 2):
            for basis in algs.all_bases(d, start):
                for sig in (algs.all_sigs(d) if tier != 'quick' or d == 1 else [[1, -1], [0, 1], [-1, 0], [1, 1]]):
                    out.append({'sig': sig, 'basis': basis})
    n_custom = 30 if tier == 'quick' else 500
    for _ in range(n_custom):
        d = rng.choice((3, 3, 4, 4, 5))
        out.append({'sig': [rng.choice((1, -1, 0)) for _ in range(d)], 'basis': algs.random_basis(rng, d)})
    return out


def spellings(rng, alg, n):
    """random permuted spellings of random blades"""
    names = [b for b in alg.canon2bin if len(b) > 2]
    out = []
    for _ in range(n):
        if not names:
            break
        b = rng.choice(names)
        digs = list(b[1:])
        rng.shuffle(digs)
        out.append('e' + ''.join(digs))
    return out


def oracle(R, spec, alg, rng, n_triples):
    """Clifford relations checked on the implementation itself (independent of the model)."""
    ok = True
    sig = [int(s) for s in alg.signature]
    c2b = alg.canon2bin
    gens = [b for b in c2b if len(b) == 2]
    S = alg.signs
    cls = {'clause': None, 'basis': algs.kind(spec)}

    def bad(clause, detail):
        nonlocal ok
        ok = False
        R.violation(dict(cls, clause=clause), {'algebra': spec, 'detail': detail},
                    f'{clause} fails in Algebra({algs.describe(spec)}): {detail}')
    for g in gens:
        G = c2b[g]
        want = sig[int(g[1:], 16) - alg.start_index]
        if S[G, G] != want:
            bad('square', f'{g}*{g} has sign {S[G, G]}, signature entry {want}')
    for g, h in itertools.combinations(gens, 2):
        G, H = c2b[g], c2b[h]
        if S[G, H] != -S[H, G] or S[G, H] == 0:
            bad('anticommute', f'{g}{h}: {S[G, H]} vs {h}{g}: {S[H, G]}')
    keys = list(c2b.values())
    for _ in range(n_triples):
        I, J, K = (rng.choice(keys) for _ in range(3))
        if S[I, J] * S[I ^ J, K] != S[J, K] * S[I, J ^ K]:
            bad('assoc', f'({I}*{J})*{K} != {I}*({J}*{K})')
    # a blade named e_ij..k equals the ordered product e_i e_j .. e_k
    for b, B in c2b.items():
        if len(b) <= 2:
            continue
        acc_key, acc_sign = 0, 1
        for ch in b[1:]:
            G = c2b['e' + ch]
            acc_sign *= S[acc_key, G]
            acc_key ^= G
        if acc_key != B or acc_sign != 1:
            bad('named_blade', f'{b} is {acc_sign} x blade {acc_key} as an ordered product, expected +1 x {B}')
    return ok


def run(R, tier):
    warnings.filterwarnings('ignore')
    from kingdon import Algebra  # noqa: F401
    rng = R.rng
    pool = algs.AlgPool()
    cases = []
    specs = specs_for(R, tier)
    for spec in specs:
        try:
            alg = algs.make_impl(spec)
        except Exception as e:   # the implementation rejects the algebra: nothing to compare
            R.notes.append(f'implementation rejected {algs.describe(spec)}: {type(e).__name__}')
            continue
        ref, dfn = pool.ref(spec)
        d = alg.d
        R.count(f'd={d}')
        R.count('basis=' + algs.kind(spec))
        desc = algs.describe(spec)
        # 1. canon2bin, signature, start index
        exp_c2b = kv.blist(kv.pair(kv.name(n), kv.Z(b)) for n, b in alg.canon2bin.items())
        chk = (f'list_eqb (pair_eqb name_eqb Z.eqb) (a_c2b A) {exp_c2b} && list_eqb Z.eqb (a_sig A) {kv.zlist(alg.signature)}'
               f' && Z.eqb (a_start A) {kv.Z(alg.start_index)} && wf_alg A')
        cases.append({'check': algs.with_alg(ref, chk), 'show': algs.with_alg(ref, '(a_c2b A, a_sig A, a_start A, wf_alg A)', '([], [], 0, false)'),
                      'defs': [dfn], 'meta': {'spec': spec, 'obs': 'canon2bin'}})
        R.case((desc, 'c2b'), sample={'algebra': desc, 'observation': 'canon2bin/signature/start_index/wf'})
        # 1b. a copy of the algebra object (copy.copy, dataclasses.replace without changes) describes the same algebra: signature in
        #     the same order, same blades, same squares of the generators
        if d >= 1 and d <= 6:
            import copy as _copy, dataclasses as _dc
            for how, mk_copy in (('copy.copy', _copy.copy), ('dataclasses.replace', lambda a_: _dc.replace(a_))):
                R.case((desc, 'copy', how), True)
                try:
                    b_ = mk_copy(alg)
                    same_sig = [int(x_) for x_ in b_.signature] == [int(x_) for x_ in alg.signature] and dict(b_.canon2bin) == dict(alg.canon2bin)
                    gens = [n_ for n_ in alg.canon2bin if len(n_) == 2]
                    sq = lambda A_: [[(int(k_), v_) for k_, v_ in zip((A_.blades[n_] * A_.blades[n_]).keys(), (A_.blades[n_] * A_.blades[n_]).values())] for n_ in gens]
                    ok_ = same_sig and sq(b_) == sq(alg) and int(b_.start_index) == int(alg.start_index)
                    what_ = f'signature {list(b_.signature)}, squares of the generators {sq(b_)} (original: {list(alg.signature)}, {sq(alg)})'
                except Exception as e:  # noqa
                    ok_, what_ = False, f'raised {type(e).__name__}: {e}'[:200]
                if not ok_:
                    R.violation({'clause': 'copy', 'basis': algs.kind(spec)}, {'algebra': spec, 'how': how},
                                f'{how} of Algebra({desc}) is a different algebra: {what_}')
        # 2. sign table
        if d <= 6:
            items = list(alg.signs.items())
            chunk = 1024
            for ci in range(0, len(items), chunk):
                part = items[ci:ci + chunk]
                pairs = kv.blist(kv.pair(kv.Z(I), kv.Z(J)) for (I, J), _ in part)
                exp = kv.zlist(s for _, s in part)
                chk = f'list_eqb Z.eqb (map (fun p => match compute_sign A (fst p) (snd p) with Ok s => s | Err _ => 99 end) {pairs}) {exp}'
                cases.append({'check': algs.with_alg(ref, chk), 'defs': [dfn],
                              'show': algs.with_alg(ref, f'map (fun p => (p, compute_sign A (fst p) (snd p))) {pairs}', '[]'),
                              'meta': {'spec': spec, 'obs': 'signs', 'pairs': [list(k) for k, _ in part], 'impl': [int(s) for _, s in part]}})
                R.case((desc, 'signs', ci), sample={'algebra': desc, 'observation': f'{len(part)} sign-table entries'})
                R.count('table_entries', len(part))
        else:
            n = 250 if tier == 'quick' else 4000
            part = []
            for _ in range(n):
                I, J = rng.randrange(2 ** d), rng.randrange(2 ** d)
                part.append(((I, J), alg.signs[I, J]))
            pairs = kv.blist(kv.pair(kv.Z(I), kv.Z(J)) for (I, J), _ in part)
            exp = kv.zlist(s for _, s in part)
            chk = f'list_eqb Z.eqb (map (fun p => match compute_sign A (fst p) (snd p) with Ok s => s | Err _ => 99 end) {pairs}) {exp}'
            cases.append({'check': algs.with_alg(ref, chk), 'defs': [dfn],
                          'meta': {'spec': spec, 'obs': 'lazy signs', 'pairs': [list(k) for k, _ in part], 'impl': [int(s) for _, s in part]}})
            R.case((desc, 'lazy'), sample={'algebra': desc, 'observation': f'{n} lazy sign-table entries'})
            R.count('lazy_entries', n)
            # the algebra does not depend on the array the caller passed as signature: that array is changed afterwards (a reused buffer)
            if 'sig' in spec and not spec.get('basis'):
                import numpy as _np
                buf = _np.array(list(spec['sig']))
                kw_ = {} if spec.get('start') is None else {'start_index': spec['start']}
                from kingdon import Algebra as _Alg
                alg_b = _Alg(signature=buf, **kw_)
                buf[:] = buf[::-1] * -1 + (buf[::-1] == 0)          # reversed, signs flipped, zeros become ones
                diff = [(I, J) for (I, J), s_ in part[:120] if alg_b.signs[I, J] != s_]
                R.case((desc, 'signature-buffer'), True)
                if diff or [int(x_) for x_ in alg_b.signature] != [int(x_) for x_ in spec['sig']]:
                    R.violation({'clause': 'signature-buffer', 'basis': algs.kind(spec)}, {'algebra': spec, 'pairs': [list(p_) for p_ in diff[:5]]},
                                f'Algebra(signature=buf) with buf = {list(spec["sig"])}, buf changed in place afterwards: the algebra now reports the signature '
                                f'{[int(x_) for x_ in alg_b.signature]} and {len(diff)} of 120 sampled blade products differ from those of Algebra({desc}), e.g. {diff[:3]}')
        # 3. cayley (strings) for small algebras
        if d <= 3:
            ents = []
            for (eI, eJ), s in alg.cayley.items():
                if s == '0':
                    e = '(0, None)'
                else:
                    e = f'({"(-1)" if s[0] == "-" else "1"}, Some {kv.name(s.lstrip("-"))})'
                ents.append((alg.canon2bin[eI], alg.canon2bin[eJ], e))
            chk = ('forallb (fun t => match cayley_entry A (fst (fst t)) (snd (fst t)) with Ok v => '
                   'pair_eqb Z.eqb (opt_eqb name_eqb) v (snd t) | Err _ => false end) '
                   + kv.blist(f'({kv.Z(I)}, {kv.Z(J)}, {e})' for I, J, e in ents))
            cases.append({'check': algs.with_alg(ref, chk), 'defs': [dfn], 'meta': {'spec': spec, 'obs': 'cayley'}})
            R.case((desc, 'cayley'))
        # 3b. the Cayley table of a large algebra (lazily filled sign table, some entries already looked up): complete, and a sample of
        #     its entries against the model
        if d == 7:
            cay = alg.cayley
            names = list(alg.canon2bin)
            R.case((desc, 'cayley-large'), True)
            if len(cay) != len(names) ** 2:
                R.violation({'clause': 'cayley', 'basis': algs.kind(spec)}, {'algebra': spec, 'entries': len(cay)},
                            f'the Cayley table of Algebra({desc}) has {len(cay)} entries instead of {len(names) ** 2} (after {len(alg.signs)} sign look-ups)')
            else:
                ents = []
                for _ in range(200):
                    eI, eJ = rng.choice(names), rng.choice(names)
                    s_ = cay.get((eI, eJ))
                    if s_ is None:
                        R.violation({'clause': 'cayley', 'basis': algs.kind(spec)}, {'algebra': spec, 'pair': [eI, eJ]},
                                    f'the Cayley table of Algebra({desc}) has no entry for ({eI}, {eJ})')
                        break
                    e = '(0, None)' if s_ == '0' else f'({"(-1)" if s_[0] == "-" else "1"}, Some {kv.name(s_.lstrip("-"))})'
                    ents.append((alg.canon2bin[eI], alg.canon2bin[eJ], e))
                chk = ('forallb (fun t => match cayley_entry A (fst (fst t)) (snd (fst t)) with Ok v => '
                       'pair_eqb Z.eqb (opt_eqb name_eqb) v (snd t) | Err _ => false end) '
                       + kv.blist(f'({kv.Z(I)}, {kv.Z(J)}, {e})' for I, J, e in ents))
                cases.append({'check': algs.with_alg(ref, chk), 'defs': [dfn], 'meta': {'spec': spec, 'obs': 'cayley (200 entries of a 7-dimensional algebra)'}})
        # 4. products of basis blades through the generated code, permuted spellings
        if d <= 4 and d >= 1:
            keys = list(alg.canon2bin.values())
            prods = []
            for _ in range(6):
                I, J = rng.choice(keys), rng.choice(keys)
                a, b = alg.blades[alg.bin2canon[I]], alg.blades[alg.bin2canon[J]]
                r = a * b
                prods.append((I, J, list(zip(r.keys(), r.values()))))
            chk = 'forallb (fun t => mv_eqb (gp Zops A [(fst (fst t), 1)] [(snd (fst t), 1)]) (snd t)) ' + \
                  kv.blist(f'({kv.Z(I)}, {kv.Z(J)}, {kv.blist(kv.pair(kv.Z(k), kv.Z(v)) for k, v in r)})' for I, J, r in prods)
            cases.append({'check': algs.with_alg(ref, chk), 'defs': [dfn], 'meta': {'spec': spec, 'obs': 'blade products', 'impl': prods}})
            R.case((desc, 'prods'))
            sp = spellings(rng, alg, 6)
            if sp:
                obs = []
                for s in sp:
                    m = alg.blades[s]
                    obs.append((s, m.keys()[0], m.values()[0]))
                chk = ('forallb (fun t => match blade2canon A (fst (fst t)) with (Some c, sw) => '
                       'opt_eqb Z.eqb (canon2bin A c) (Some (snd (fst t))) && Z.eqb (if Z.odd sw then -1 else 1) (snd t) | _ => false end) '
                       + kv.blist(f'({kv.name(s)}, {kv.Z(k)}, {kv.Z(v)})' for s, k, v in obs))
                cases.append({'check': algs.with_alg(ref, chk), 'defs': [dfn], 'meta': {'spec': spec, 'obs': 'spellings', 'impl': obs}})
                R.case((desc, 'spell'))
        # 5. the relations themselves, on the implementation
        if d <= 6:
            oracle(R, spec, alg, rng, 40 if tier == 'quick' else 400)
            R.case((desc, 'oracle'))
    bad, shown = kv.run_cases('C01', cases, imports='Model.All Theory.WF')
    for i in bad:
        m = cases[i]['meta']
        R.violation({'clause': 'table', 'obs': m['obs'], 'basis': algs.kind(m['spec'])},
                    {'algebra': m['spec'], 'observation': m['obs'], 'impl': m.get('impl'), 'pairs': m.get('pairs'),
                     'model': shown.get(i)},
                    f'{m["obs"]} of Algebra({algs.describe(m["spec"])}) differs from the proved model')


def replay(R, rec):
    warnings.filterwarnings('ignore')
    spec = rec['replay']['algebra']
    alg = algs.make_impl(spec)
    R2 = kv.Run('C01', 'quick', 0)
    ok = oracle(R2, spec, alg, R.rng, 2000)
    return ok and not R2.violations
