"""C09 — results depend only on the operands, never on earlier operations.
Correspondence: random call histories on ONE algebra object (operators x key patterns and their
permutations x direct / through a wrapper / through registered functions / raising calls); every call
is compared with the same call on a freshly created algebra and the operands are compared before /
after.  The observable cache state of the real code after each history (sequence of code-generation
events, generated function names with their '_' suffixes) is compared inside Coq with
Model/Cache.v run on the same history (`deps` and type numbers observed from outside).  Threads:
barrier-forced "both past the membership test" interleavings with a slow wrapper (other threads run while a
function is being wrapped) plus free-running stress."""
import warnings, threading, copy
import kv, algs, opcorr as oc
import instr

RULE = ('histories of 6-14 calls over {gp, op, ip, add, sub, neg, reverse, hodge, sw, proj, normsq, inv, div, polarity} and '
        '4 registered functions (one nested), key patterns drawn from a small pool and their permutations, immediate repetitions of a call, '
        'divisions by null blades (failing during code generation), algebras with '
        'wrapper None / set, raising calls interleaved; 2-4 threads for the schedule part.  One case = one call compared with a '
        'fresh algebra.  Non-trivial = the call follows at least one call with a permuted or colliding key pattern; '
        'distinct = distinct (history prefix, call).')
TRUSTED = ['Model/Cache.v (hand-written after operator_dict.py) tied by comparing generation-event sequences and generated names',
           'instr.py wraps __getitem__/do_codegen/do_compile from outside (no hook in /repo)',
           'atomicity of single dict operations under the GIL (assumption of the interleaving theorem)']
ASSUMPTIONS = ['the thread scheduler is only sampled (barrier-forced and free-running); the theorem quantifies over all interleavings of the modelled atomic steps',
               'a fresh Algebra of the same specification is the reference for "the value a freshly created algebra returns"']

OPS2 = ['gp', 'op', 'ip', 'add', 'sub', 'sw', 'proj', 'div', 'cp', 'rp']
OPS1 = ['neg', 'reverse', 'hodge', 'normsq', 'inv', 'polarity', 'involute']
ALLOPS = OPS2 + OPS1
REG = {}


def reg_funcs():
    def f_mul(a, b): return a * b
    def f_mix(a, b): return (a ^ b) + a
    def f_rev(a): return ~a * a
    return {'f_mul': (f_mul, 2), 'f_mix': (f_mix, 2), 'f_rev': (f_rev, 1)}


ALLNAMES = ['gp', 'sw', 'cp', 'acp', 'ip', 'sp', 'lc', 'rc', 'op', 'rp', 'proj', 'add', 'sub', 'div', 'inv', 'neg', 'reverse',
            'involute', 'conjugate', 'sqrt', 'polarity', 'unpolarity', 'hodge', 'unhodge', 'normsq', 'outerexp', 'outersin',
            'outercos', 'outertan']


def opid(name):
    if name in ALLNAMES:
        return ALLNAMES.index(name)
    return 100 + sorted(['f_mul', 'f_mix', 'f_rev', 'f_nest']).index(name)


def okey_term(name, keys):
    return f'({kv.nat(opid(name))}, {kv.blist(kv.zlist(k) for k in keys)})'


def values_of(mv):
    return [(int(k), v) for k, v in zip(mv.keys(), mv.values())]


def same(a, b):
    da, db = oc.coeff_map(a), oc.coeff_map(b)
    for k in set(da) | set(db):
        u, v = da.get(k, 0), db.get(k, 0)
        if abs(complex(u) - complex(v)) > 1e-9 * max(1.0, abs(complex(u)), abs(complex(v))):
            return False
    return True


class Session:
    """one algebra object with its registered functions"""
    def __init__(self, spec, wrapper, slow=False):
        opts = {}
        if wrapper:
            def wrap(f):
                if slow:                 # a wrapper that takes time (a JIT): other threads run meanwhile
                    import time
                    time.sleep(0.02)
                def g(*a): return f(*a)
                g.__name__ = f.__name__
                return g
            opts['wrapper'] = wrap
        self.alg = algs.make_impl(spec, **opts)
        self.regs = {}
        for nm, (f, ar) in reg_funcs().items():
            self.regs[nm] = (self.alg.register(f), ar)
        inner = self.regs['f_mul'][0]
        def f_nest(a, b): return inner(a, b) | b
        self.regs['f_nest'] = (self.alg.register(f_nest), 2)

    def do(self, call):
        name, operands = call
        mvs = [oc.make_mv(self.alg, [k for k, _ in it], [v for _, v in it]) for it in operands]
        before = [list(m.values()) for m in mvs]
        try:
            if name in self.regs:
                r = self.regs[name][0](*mvs)
            else:
                r = getattr(self.alg, name)(*mvs)
            out = ('ok', values_of(r))
        except Exception as e:  # noqa
            out = ('err', type(e).__name__)
        unchanged = all(list(m.values()) == b for m, b in zip(mvs, before))
        return out, unchanged


def gen_history(rng, alg, n):
    canon = list(alg.canon2bin.values())
    pool = []
    for _ in range(3):
        ks = rng.sample(canon, min(len(canon), rng.randint(1, 3)))
        pool.append(tuple(ks))
    # blades built from null generators only: dividing by them fails at code-generation time
    nullbits = [i for i, s in enumerate(alg.signature) if s == 0]
    nullkeys = [k for k in canon if k and all((k >> i) & 1 == 0 or i in nullbits for i in range(alg.d))]
    h = []
    for _ in range(n):
        if h and rng.random() < 0.25:
            # the same call again (same operator and key patterns, fresh values)
            name, prev = h[-1]
            h.append((name, [[(k, float(rng.randint(1, 7))) for k, _ in it] for it in prev]))
            continue
        name = rng.choice(ALLOPS + ['f_mul', 'f_mix', 'f_rev', 'f_nest'] * 2)
        ar = 2 if name in OPS2 or name in ('f_mul', 'f_mix', 'f_nest') else 1
        operands = []
        for _ in range(ar):
            ks = list(rng.choice(pool))
            if rng.random() < 0.6:
                rng.shuffle(ks)
            vals = [float(rng.randint(1, 7)) for _ in ks]
            if name in ('inv', 'div') and rng.random() < 0.15:
                vals = [0.0 for _ in ks]           # a raising call (ZeroDivisionError at call time)
            operands.append(list(zip(ks, vals)))
        if name in ('inv', 'div') and nullkeys and rng.random() < 0.5:
            nk = rng.choice(nullkeys)              # a call that raises while its code is generated
            operands[-1] = [(nk, float(rng.randint(1, 7)))]
        h.append((name, operands))
    if nullkeys and rng.random() < 0.7:
        # a call whose code generation fails, after a successful call of the same operator, and then repeated
        x = [(k, float(rng.randint(1, 7))) for k in rng.choice(pool)]
        okd = [(rng.choice([k for k in canon if k not in nullkeys] or canon), 2.0)]
        bad = [(rng.choice(nullkeys), 2.0)]
        at = rng.randint(0, len(h))
        h[at:at] = [('div', [x, okd]), ('div', [x, bad]), ('div', [x, bad])]
    return h


def parse_name(nm, prefixes):
    bumps = len(nm) - len(nm.rstrip('_'))
    core = nm.rstrip('_')
    for pre, op in prefixes:
        if core.startswith(pre + '_'):
            rest = core[len(pre) + 1:]
            try:
                tns = [int(t) for t in rest.split('_x_')]
            except ValueError:
                continue
            return op, tns, bumps
    return None


def compare_with_model(R, tag, alg, regs, wrapper, top, probe2, desc):
    """run the same top-level lookups through Model/Cache.v and compare the observable cache state:
    sequence of code-generation events and generated names (with their '_' suffixes)"""
    canon = list(alg.canon2bin.values())
    hist_terms = []
    for call, first, _ in top:
        for (_, nm, keys, cached) in first:
            hist_terms.append(f'({"Wrapped" if wrapper else "Direct"}, {okey_term(nm, keys)})')
    deps = kv.blist(f'({okey_term(*k)}, {kv.blist(okey_term(*c) for c in ch)})' for k, ch in probe2.children.items())
    gens = kv.blist(okey_term(e[1], e[2]) for e in probe2.events)
    prefixes = []
    for nm in ALLNAMES:
        od = getattr(alg, nm)
        prefixes.append((od.codegen.__name__, nm))
    prefixes += [('div', 'div'), ('sqrt', 'sqrt')] + [(nm, nm) for nm in regs]
    prefixes.sort(key=lambda p: -len(p[0]))
    names = []
    unparsed = []
    for nm in alg.numspace:
        if nm.startswith('__'):      # exec() puts __builtins__ into the namespace dict
            continue
        p = parse_name(nm, prefixes)
        if p is None:
            unparsed.append(nm)
        else:
            names.append(f'({kv.nat(opid(p[0]))}, [{"; ".join(str(t) + "%N" for t in p[1])}], {kv.nat(p[2])})')
    if unparsed:
        R.broken.append(('correspondence', f'generated function names no longer parse: {unparsed[:3]}'))
        return
    prelude = (f'Definition kv_canon : list Z := {kv.zlist(canon)}.\n'
               'Definition kv_tn (ks : list Z) : N := fst (fold_left (fun aw k => (if zin k ks then (fst aw + snd aw)%N else fst aw, (2 * snd aw)%N)) kv_canon (0%N, 1%N)).\n'
               f'Definition kv_deps (k : okey) : list okey := match alookup okey_eqb k {deps} with Some l => l | None => [] end.\n'
               'Definition kv_byname (o : nat) : bool := Nat.leb 100 o.\n')
    chk = (f'match run_history kv_tn kv_deps kv_byname 50 init {kv.blist(hist_terms)} with\n'
           f'  | Some (st, ok) => ok && list_eqb okey_eqb (gens st) {gens} && list_eqb fname_eqb (map fst (numspace st)) {kv.blist(names)}\n'
           '  | None => false end')
    show = f'match run_history kv_tn kv_deps kv_byname 50 init {kv.blist(hist_terms)} with Some (st, ok) => Some (ok, gens st, map fst (numspace st)) | None => None end'
    bad, shown = kv.run_cases(tag, [{'check': chk, 'show': show}], prelude=prelude, imports='Model.Util Model.Cache')
    R.count('model-compared histories')
    if bad:
        R.broken.append(('correspondence', f'cache state after history {tag} in Algebra({desc}, wrapper={wrapper}) differs from Model/Cache.v: '
                         f'impl events {[(e[1], e[2]) for e in probe2.events]}, names {[n for n in alg.numspace if not n.startswith("__")]}; model {shown.get(0, "")[:600]}'))


def run(R, tier):
    warnings.filterwarnings('ignore')
    rng = R.rng
    cases = []
    R.broken = getattr(R, 'broken', [])
    n_hist = 36 if tier == 'quick' else 400
    for hi in range(n_hist):
        d = rng.choice((2, 2, 3))
        sig = [rng.choice((1, 1, -1, 0)) for _ in range(d)]
        spec = {'sig': sig}
        wrapper = rng.random() < 0.6
        probe = instr.Probe()
        with probe.active():
            S = Session(spec, wrapper)
            h = gen_history(rng, S.alg, rng.randint(6, 14))
            raised = False
            model_ok = True
            for ci, call in enumerate(h):
                n_before = len(probe.events)
                out, unchanged = S.do(call)
                fresh = Session(spec, wrapper)
                ref, _ = fresh.do(call)
                R.count('via=' + ('wrapper' if wrapper else 'direct')); R.count('call=' + call[0])
                perm_seen = any(c[0] == call[0] and [sorted(k for k, _ in it) for it in c[1]] == [sorted(k for k, _ in it) for it in call[1]]
                                and c[1] != call[1] for c in h[:ci])
                R.case((hi, ci), perm_seen or ci > 0,
                       sample={'algebra': algs.describe(spec), 'wrapper': wrapper, 'history_prefix': [c[0] for c in h[:ci]], 'call': [call[0], call[1]], 'result': str(out)[:200]})
                ok = (out[0] == ref[0]) and (same(out[1], ref[1]) if out[0] == 'ok' else out[1] == ref[1])
                if not ok or not unchanged:
                    R.violation({'clause': 'history' if ok else 'operands-changed', 'via': 'wrapper' if wrapper else 'direct'},
                                {'algebra': spec, 'wrapper': wrapper, 'history': [[c[0], c[1]] for c in h[:ci + 1]], 'got': str(out), 'fresh': str(ref)},
                                f'call {ci} {call[0]}{[[k for k, _ in it] for it in call[1]]} after {[c[0] for c in h[:ci]]} in Algebra({algs.describe(spec)}, '
                                f'wrapper={"set" if wrapper else "None"}) returned {out}, a fresh algebra returns {ref}')
                if out[0] == 'err' and len(probe.events) == n_before and any(not l[3] for l in probe.lookups[-3:]):
                    pass
                if out[0] == 'err':
                    raised = True
        # ---- the same history through Model/Cache.v ----
        # events the fresh sessions produced are in the same probe: keep only those of S by replaying on a clean probe
        probe2 = instr.Probe()
        with probe2.active():
            S2 = Session(spec, wrapper)
            top = []
            for call in h:
                n0 = len(probe2.lookups)
                out, _ = S2.do(call)
                first = [l for l in probe2.lookups[n0:] if l[0] == 0]
                gen_failed = out[0] == 'err' and first and not first[0][3] and \
                    ('gen', first[0][1], first[0][2]) not in probe2.events
                top.append((call, first, gen_failed))
            if any(gf for _, _, gf in top):
                R.count('history-with-failed-generation (not model-compared)')
                continue
            compare_with_model(R, f'C09_{hi}', S2.alg, S2.regs, wrapper, top, probe2, algs.describe(spec))
    reused_objects(R, rng, tier)
    no_mutation(R, rng, tier)
    same_name_registered(R, rng, tier)
    two_algebras(R, rng, tier)
    re_registration(R, rng, tier)
    symbolic_calls(R, rng, tier)
    symbolic_histories(R, rng, tier)
    large_algebra_histories(R, rng, tier)
    # ---- one thread held inside code generation while another makes the same call ----
    for ti in range(6 if tier == 'quick' else 60):
        held_codegen(R, rng, ti, tier)
    # ---- threads ----
    n_thr = 8 if tier == 'quick' else 80
    for ti in range(n_thr):
        d = 2
        spec = {'sig': [rng.choice((1, -1, 0)) for _ in range(d)]}
        nthreads = rng.choice((2, 3))
        forced = ti % 2 == 0
        probe = instr.Probe(barrier=threading.Barrier(nthreads) if forced else None)
        with probe.active():
            S = Session(spec, True, slow=forced)
            canon = list(S.alg.canon2bin.values())
            base = rng.sample(canon, 2)
            hs = []
            for t in range(nthreads):
                ks = base[:]
                if t % 2:
                    ks.reverse()
                h = []
                for name in rng.sample(['gp', 'op', 'add', 'f_mul', 'f_nest', 'sub'], 3):
                    h.append((name, [list(zip(ks, [float(rng.randint(1, 7)) for _ in ks])), list(zip(base, [float(rng.randint(1, 7)) for _ in base]))]))
                hs.append(h)
            results = [None] * nthreads

            def worker(i):
                results[i] = [S.do(c) for c in hs[i]]
            ths = [threading.Thread(target=worker, args=(i,)) for i in range(nthreads)]
            for t in ths: t.start()
            for t in ths: t.join()
        probe.barrier = None
        for i in range(nthreads):
            for (call, (out, unchanged)) in zip(hs[i], results[i]):
                ref, _ = Session(spec, True).do(call)
                R.count('threads=' + ('forced' if forced else 'free'))
                R.case(('thr', ti, i, call[0]), True)
                ok = (out[0] == ref[0]) and (same(out[1], ref[1]) if out[0] == 'ok' else out[1] == ref[1])
                if not ok or not unchanged:
                    R.violation({'clause': 'threads', 'via': 'wrapper'},
                                {'algebra': spec, 'threads': [[[c[0], c[1]] for c in h] for h in hs], 'thread': i, 'call': [call[0], call[1]], 'got': str(out), 'fresh': str(ref)},
                                f'thread {i} call {call[0]} with {nthreads} threads ({"barrier-forced" if forced else "free"}) returned {out}, a fresh algebra returns {ref}')


def held_codegen(R, rng, ti, tier):
    """One thread is kept inside the code generation of a key pattern (by the probe, from outside) while
    this thread makes the same call; both must return what a fresh algebra returns."""
    spec = {'sig': [rng.choice((1, -1, 0)) for _ in range(2)] + [1]}
    probe = instr.Probe()
    name = rng.choice(['gp', 'op', 'add', 'sub', 'f_mul', 'f_mix', 'cp'])
    with probe.active():
        S = Session(spec, rng.random() < 0.5)
        canon = list(S.alg.canon2bin.values())
        base = rng.sample(canon, 2)
        other = rng.sample(canon, 2)
        def operands(ks):
            return [list(zip(ks, [float(rng.randint(1, 7)) for _ in ks])), list(zip(other, [float(rng.randint(1, 7)) for _ in other]))]
        warm = (name, operands(base))
        call = (name, operands(base[::-1]))
        S.do(warm)
        probe.hold = {'armed': True, 'entered': threading.Event(), 'release': threading.Event()}
        res = {}
        th = threading.Thread(target=lambda: res.setdefault('thread', S.do(call)))
        th.start()
        entered = probe.hold['entered'].wait(timeout=10)
        res['main'] = S.do(call)
        probe.hold['release'].set()
        th.join()
        probe.hold = None
        res['later'] = S.do(call)
    ref, _ = Session(spec, False).do(call)
    for who in ('main', 'thread', 'later'):
        out, unchanged = res[who]
        R.count('threads=held-in-codegen'); R.case(('held', ti, who), True)
        ok = (out[0] == ref[0]) and (same(out[1], ref[1]) if out[0] == 'ok' else out[1] == ref[1])
        if not ok or not unchanged:
            R.violation({'clause': 'threads', 'via': 'held-in-codegen'},
                        {'algebra': spec, 'held': True, 'warm': [warm[0], warm[1]], 'call': [call[0], call[1]], 'who': who, 'got': str(out), 'fresh': str(ref)},
                        f'{name} with keys {[[k for k, _ in it] for it in call[1]]} called while another thread was generating code for that pattern '
                        f'(after a call with keys {[[k for k, _ in it] for it in warm[1]]}): {who} got {out}, a fresh algebra returns {ref}')


def reused_objects(R, rng, tier):
    """The SAME multivector objects are used again after being updated in place (x[i] = ..., writing into x.values()):
    every call must return what a fresh algebra returns for fresh operands holding the current values - nothing may be
    remembered on the operand objects."""
    import numpy as np
    from kingdon import MultiVector
    unary = ['normsq', 'inv', 'reverse', 'conjugate', 'neg', 'norm', 'normalized', 'hodge', 'outerexp', 'sqrt', 'pow-1', 'pow-2', 'pow2', 'pow-1']
    special = {'pow-1': lambda v: v ** -1, 'pow-2': lambda v: v ** -2, 'pow2': lambda v: v ** 2}
    binary = ['gp', 'op', 'sw', 'proj', 'add', 'sub', 'ip']
    for it in range(14 if tier == 'quick' else 154):
        d = rng.choice((2, 3, 3))
        spec = {'sig': [rng.choice((1, 1, -1)) for _ in range(d)]}
        alg = algs.make_impl(spec)
        canon = [int(k) for k in alg.canon2bin.values()]
        ks = tuple([0] + rng.sample(canon[1:], rng.randint(1, 2)))
        n = 3
        def fresh_vals():
            return [[float(rng.randint(5, 9))] * n] + [[float(rng.randint(-2, 2)) for _ in range(n)] for _ in ks[1:]]
        arr = rng.random() < 0.5
        vals = fresh_vals()
        x = MultiVector.fromkeysvalues(alg, ks, np.array(vals) if arr else [np.array(v) for v in vals])
        y = MultiVector.fromkeysvalues(alg, ks, np.array(fresh_vals()))
        # every unary operator is met with both kinds of in-place update (item assignment / writing into the values) within 14 iterations
        ops = list(dict.fromkeys([unary[it % 14], unary[(it + 7) % 14]] + rng.sample(unary, 2))) + rng.sample(binary, 2)
        def run_ops(a, xx, yy):
            out = {}
            for op in ops:
                try:
                    r = special[op](xx) if op in special else getattr(xx, op)() if op in unary else getattr(a, op)(xx, yy)
                    out[op] = ('ok', [(int(k), np.asarray(v, dtype=float).tolist()) for k, v in zip(r.keys(), r.values())])
                except Exception as e:  # noqa
                    out[op] = ('err', type(e).__name__)
            return out
        run_ops(alg, x, y)                               # first use of the objects
        if it % 2:
            x[1] = MultiVector.fromkeysvalues(alg, ks, [float(rng.randint(5, 9))] + [float(rng.randint(1, 3)) for _ in ks[1:]])
        else:
            x.values()[0][2] = 11.0
        got = run_ops(alg, x, y)                         # the same objects after the in-place update
        cur = [np.asarray(v, dtype=float).copy() for v in x.values()]
        alg2 = algs.make_impl(spec)
        x2 = MultiVector.fromkeysvalues(alg2, ks, np.array(cur)); y2 = MultiVector.fromkeysvalues(alg2, ks, np.array([np.asarray(v, dtype=float) for v in y.values()]))
        want = run_ops(alg2, x2, y2)
        for op in ops:
            R.count('history=reused-object'); R.count('call=' + op); R.case(('reused', it, op), True)
            g, w = got[op], want[op]
            ok = g[0] == w[0] and (g[0] == 'err' or (len(g[1]) == len(w[1]) and all(k1 == k2 and np.allclose(v1, v2, rtol=1e-9, atol=1e-9, equal_nan=True) for (k1, v1), (k2, v2) in zip(g[1], w[1]))))
            if not ok:
                R.violation({'clause': 'history', 'via': 'reused-object'},
                            {'algebra': spec, 'reused': True, 'op': op, 'keys': list(ks), 'got': str(g)[:300], 'fresh': str(w)[:300]},
                            f'{op} on a multivector object that was used before and then updated in place (keys {ks}, {"ndarray" if arr else "list"}-backed) in Algebra({algs.describe(spec)}) '
                            f'returned {str(g)[:200]}, fresh operands with the same current values give {str(w)[:200]}')


def no_mutation(R, rng, tier):
    """No operation changes the coefficients of its operands or of any previously returned multivector: chains of operations
    (pass-through ones first - reverse, grade selection, unary plus, adding 0 - whose results may share coefficient objects
    with their operand), then augmented assignments (`r += b`, `r -= b`, `r *= b`, ...) and further operators on the results;
    after every step every operand and every earlier result must still hold the coefficients it had when it was created."""
    import numpy as np, operator
    from kingdon import MultiVector
    passthrough = [('~x', lambda a, x: ~x), ('x.grade(g)', lambda a, x: x.grade(*x.grades[:1])), ('+x', lambda a, x: +x if hasattr(x, '__pos__') else x.grade(*x.grades)),
                   ('x + 0', lambda a, x: x + 0), ('x * 1', lambda a, x: x * 1), ('x.involute()', lambda a, x: x.involute()),
                   ('x.filter(...)', lambda a, x: x.filter(lambda v: True)), ('x.map(id)', lambda a, x: x.map(lambda v: v)), ('x - 0', lambda a, x: x - 0)]
    aug = [('+=', operator.iadd), ('-=', operator.isub), ('*=', operator.imul), ('^=', operator.ixor), ('|=', operator.ior), ('/= 2', None), ('*= 3', None)]
    for it in range(40 if tier == 'quick' else 600):
        d = rng.choice((2, 3, 3, 4))
        spec = {'sig': [rng.choice((1, 1, -1, 0)) for _ in range(d)]}
        alg = algs.make_impl(spec)
        canon = [int(k) for k in alg.canon2bin.values()]
        kind = rng.choice(['ndarray-float', 'ndarray-float', 'list-of-arrays', 'ndarray-int', 'floats', 'ints'])
        n = rng.choice((1, 3))
        def operand(keys):
            vals = [[rng.randint(-4, 4) or 1 for _ in range(n)] for _ in keys]
            if kind == 'ndarray-float': v = np.array(vals, dtype=float)
            elif kind == 'ndarray-int': v = np.array(vals, dtype=np.int64)
            elif kind == 'list-of-arrays': v = [np.array(c, dtype=float) for c in vals]
            elif kind == 'floats': v = [float(c[0]) for c in vals]
            else: v = [int(c[0]) for c in vals]
            return MultiVector.fromkeysvalues(alg, tuple(keys), v)
        same_keys = rng.random() < 0.7
        ka = rng.sample(canon, rng.randint(1, min(4, len(canon))))
        kb = list(ka) if same_keys else rng.sample(canon, rng.randint(1, min(4, len(canon))))
        objs = []            # (description, object, snapshot)
        def snap(m):
            return (tuple(m.keys()), [np.array(v, dtype=float).copy() for v in m.values()])
        def keep(desc, m):
            objs.append((desc, m, snap(m)))
            return m
        def check(step):
            for desc, m, (k0, v0) in objs:
                k1, v1 = snap(m)
                if k1 != k0 or len(v1) != len(v0) or not all(a_.shape == b_.shape and np.array_equal(a_, b_, equal_nan=True) for a_, b_ in zip(v0, v1)):
                    R.violation({'clause': 'operand-mutated', 'via': 'chain'},
                                {'algebra': spec, 'storage': kind, 'step': step, 'victim': desc, 'before': str([v.tolist() for v in v0])[:200], 'after': str([v.tolist() for v in v1])[:200]},
                                f'{step} changed the coefficients of {desc} ({kind}, keys {list(k0)}) in Algebra({algs.describe(spec)}): {[v.tolist() for v in v0]} -> {[v.tolist() for v in v1]}'[:600])
                    return False
            return True
        a = keep('operand a', operand(ka)); b = keep('operand b', operand(kb))
        ok = True
        for step_no in range(3):
            pname, pf = rng.choice(passthrough)
            src_desc, src, _ = rng.choice(objs)
            R.count('history=no-mutation'); R.count('storage=' + kind); R.case(('nomut', it, step_no, pname), True)
            try:
                r = pf(alg, src)
            except Exception:  # noqa   (e.g. grade() of an empty multivector)
                continue
            if not check(f'{pname} with x = {src_desc}'):
                ok = False; break
            r_desc = f'the result of {pname} on {src_desc}'
            keep(r_desc, r)
            aname, af = rng.choice(aug)
            other = rng.choice([a, b])
            r0 = r
            kept_r = objs.pop()                 # r itself: an in-place method may legitimately update the object it is called on
            try:
                if af is None:
                    r = r / 2 if aname.startswith('/') else r * 3
                    r0 = None
                else:
                    r = af(r, other)            # python falls back to r = r <op> other when there is no in-place method
            except Exception:  # noqa
                objs.append(kept_r)
                continue
            R.count('aug=' + aname)
            if r is not r0:
                objs.append(kept_r)             # the name was rebound: the old object is a previously returned multivector
            # everything else - the operands and every earlier result, which may share coefficient objects with r - must be unchanged
            if not check(f'`r {aname} {"a" if other is a else "b"}` with r = {r_desc}'):
                ok = False; break
            keep(f'the result of `r {aname} ..` on {r_desc}', r)
        if not ok:
            continue


def re_registration(R, rng, tier):
    """One function object registered twice on one algebra (numerically, then with symbolic=True, or the other way round; a failing
    numeric attempt in between): each registered version returns what that kind of registration returns on a fresh algebra."""
    def f_plain(a, b):
        return a * b + (a | b)
    def f_grades(a, b):
        return (a * b).grade(*(a * b).grades[:1]) + b        # .grades of an intermediate result exists only on real multivectors
    for it in range(6 if tier == 'quick' else 60):
        d = rng.choice((2, 3))
        spec = {'sig': [rng.choice((1, 1, -1)) for _ in range(d)]}
        alg = algs.make_impl(spec)
        canon = list(alg.canon2bin.values())
        ka, kb = rng.sample(canon, 2), rng.sample(canon, 2)
        va, vb = [float(rng.randint(1, 5)) for _ in ka], [float(rng.randint(1, 5)) for _ in kb]
        f = (f_plain, f_grades)[it % 2]
        order = [(False, True), (True, False)][(it // 2) % 2]
        def outcome(A, symbolic):
            try:
                r = A.register(f, symbolic=symbolic)(oc.make_mv(A, ka, va), oc.make_mv(A, kb, vb))
                return ('ok', values_of(r))
            except Exception as e:  # noqa
                return ('err', type(e).__name__)
        R.count('history=re-registration'); R.case(('re-registration', it, f.__name__, order), True)
        for symbolic in order:
            got = outcome(alg, symbolic)
            ref = outcome(algs.make_impl(spec), symbolic)
            ok = got[0] == ref[0] and (same(got[1], ref[1]) if got[0] == 'ok' else got[1] == ref[1])
            if not ok:
                R.violation({'clause': 'history', 'via': 're-registration'},
                            {'algebra': spec, 'function': f.__name__, 'order': list(order), 'keys': [ka, kb], 'values': [va, vb], 'got': str(got), 'fresh': str(ref)},
                            f'{f.__name__} registered with symbolic={symbolic} after it had been registered with symbolic={not symbolic} on the same algebra '
                            f'Algebra({algs.describe(spec)}) returns {got}, on a fresh algebra {ref} (a = {list(zip(ka, va))}, b = {list(zip(kb, vb))})'[:800])
                break


def two_algebras(R, rng, tier):
    """Two equal algebra objects alive in one process (with and without a wrapper), calls interleaved between them - the same blade
    sets in several storage orders on both: every call returns what a fresh algebra returns."""
    for hi in range(8 if tier == 'quick' else 120):
        d = rng.choice((2, 3))
        spec = {'sig': [rng.choice((1, 1, -1, 0)) for _ in range(d)]}
        wrapper = hi % 4 != 3
        A, B = Session(spec, wrapper), Session(spec, wrapper)
        canon = list(A.alg.canon2bin.values())
        base = [rng.sample(canon, 2) for _ in range(2)]
        hist = []
        main = rng.choice(['gp', 'gp', 'op', 'add'])
        for ci in range(24):
            name = main if rng.random() < 0.75 else rng.choice(['gp', 'op', 'ip', 'add', 'f_mul'])
            operands = []
            for _ in range(2):
                ks = list(rng.choice(base))
                if rng.random() < 0.6:
                    rng.shuffle(ks)
                operands.append([(k, float(rng.randint(1, 7))) for k in ks])
            which = rng.choice('AB')
            call = (name, operands)
            hist.append((which, name, [[k for k, _ in it] for it in operands]))
            out, unchanged = (A if which == 'A' else B).do(call)
            ref, _ = Session(spec, False).do(call)
            R.count('history=two-algebras'); R.count('via=' + ('wrapper' if wrapper else 'direct')); R.case(('two-alg', hi, ci), ci > 0)
            ok = (out[0] == ref[0]) and (same(out[1], ref[1]) if out[0] == 'ok' else out[1] == ref[1])
            if not ok or not unchanged:
                R.violation({'clause': 'history', 'via': 'two-algebras'},
                            {'algebra': spec, 'wrapper': wrapper, 'history': hist, 'got': str(out), 'fresh': str(ref)},
                            f'call {ci} ({name} on algebra object {which}) of the interleaved history {hist} over two equal algebras Algebra({algs.describe(spec)}, '
                            f'wrapper={"set" if wrapper else "None"}) returned {out}, a fresh algebra returns {ref}'[:900])
                break


def same_name_registered(R, rng, tier):
    """registered helpers sharing one __name__, nested in other registered functions, called in a random order with repetitions and
    with permuted key orders in between: every call = the plain function (scenario shared with the C11 check)"""
    from props import C11
    for it in range(4 if tier == 'quick' else 60):
        d = rng.choice((2, 3))
        spec = {'sig': [rng.choice((1, 1, -1)) for _ in range(d)]}
        alg = algs.make_impl(spec)
        canon = [int(k) for k in alg.canon2bin.values()]
        ks = rng.sample(canon, rng.randint(2, 3))
        vals = [float(rng.randint(1, 5)) for _ in ks]
        order = [(rng.choice(['g2', 'g3', 'h2', 'h3']), rng.random() < 0.4) for _ in range(10)]
        order = [('h3', False), ('h2', True), ('h3', False), ('g3', True), ('g2', False), ('g3', False)] + order
        R.count('history=same-name-registered'); R.case(('same-name-registered', it, repr(spec), tuple(ks)), True)
        for step, label, got, exp in C11.helper_scenario(spec, ks, vals, order)[:1]:
            R.violation({'clause': 'history', 'via': 'same-name-registered'},
                        {'algebra': spec, 'keys': ks, 'values': vals, 'order': order},
                        f'call {step} of the history {[l + ("(permuted keys)" if p_ else "") for l, p_ in order]} in Algebra({algs.describe(spec)}): registered function {label} returns {got}, '
                        f'a fresh evaluation of the plain function gives {exp} for x = {list(zip(ks, vals))}'[:700])


def large_algebra_histories(R, rng, tier):
    """d >= 6 (iterative inverse, lazily filled tables): short histories of inv / div / products on vectors and sparse elements,
    every call compared with a fresh algebra."""
    from kingdon import MultiVector
    for it in range(4 if tier == 'quick' else 60):
        d = rng.choice((6, 6, 7))
        spec = {'sig': [rng.choice((1, -1, 1)) for _ in range(d)]}
        alg = algs.make_impl(spec)
        gens = [1 << i for i in range(d)]
        def vec():
            ks = rng.sample(gens, rng.randint(1, 3))
            return [(k, float(rng.randint(1, 5))) for k in ks]
        v, u = vec(), vec()
        biv = [(gens[0] | gens[1], 2.0), (gens[2] | gens[3], 1.0)]
        calls = [('inv', [v]), ('div', [u, v]), ('op', [biv, v]), ('gp', [v, biv]), ('gp', [biv, v]), ('cp', [biv, v]), ('inv', [u]), ('div', [v, u])]
        rng.shuffle(calls)
        done = []
        for name, operands in calls[:6]:
            def run(a):
                mvs = [MultiVector.fromkeysvalues(a, tuple(k for k, _ in it_), [x for _, x in it_]) for it_ in operands]
                try:
                    r = getattr(a, name)(*mvs)
                    return ('ok', [(int(k), float(x)) for k, x in zip(r.keys(), r.values())])
                except Exception as e:  # noqa
                    return ('err', type(e).__name__)
            got, want = run(alg), run(algs.make_impl(spec))
            R.count('history=large-algebra'); R.count('call=' + name); R.case(('large', it, name, tuple(done)), bool(done))
            ok = got[0] == want[0] and (same(got[1], want[1]) if got[0] == 'ok' else got[1] == want[1])
            if not ok:
                R.violation({'clause': 'history', 'via': 'large-algebra'},
                            {'algebra': spec, 'history': done + [name], 'operands': operands, 'got': str(got)[:300], 'fresh': str(want)[:300]},
                            f'{name} on {operands} after {done} in Algebra({algs.describe(spec)}) returned {str(got)[:200]}, a fresh algebra returns {str(want)[:200]}')
            done.append(name)


def symbolic_histories(R, rng, tier):
    """Symbolic operands on an algebra with a history (successful calls, calls whose code generation fails, numeric calls): every
    symbolic result is IDENTICAL - same stored blades, same expressions - to what a fresh algebra running the same code returns."""
    import sympy
    for it in range(6 if tier == 'quick' else 60):
        d = rng.choice((2, 3))
        sig = [0] + [rng.choice((1, -1)) for _ in range(d - 1)] if it % 2 == 0 else [rng.choice((1, -1)) for _ in range(d)]
        spec = {'sig': sig}
        def build(A):
            t_, a_, b_ = sympy.symbols('t a b')
            R_ = A.multivector(keys=(0, 3), values=[sympy.cos(t_), sympy.sin(t_)])
            v_ = A.multivector(keys=(1, 2), values=[a_, b_])
            w_ = A.multivector(keys=(2, 1), values=[a_ + b_, a_ - b_])
            return R_, v_, w_
        def queries(A):
            R_, v_, w_ = build(A)
            out = []
            for label, f in (('R * ~R', lambda: R_ * ~R_), ('R.normsq()', lambda: R_.normsq()), ('(v + w) - (w + v)', lambda: (v_ + w_) - (w_ + v_)),
                             ('(v*w) - (v|w) - (v^w)', lambda: (v_ * w_) - (v_ | w_) - (v_ ^ w_)), ('R >> v', lambda: R_ >> v_), ('v ^ v', lambda: v_ ^ v_),
                             # numeric operands holding whole grades (their key tuples are the shared tuples of the algebra)
                             ('~bivector(1..)', lambda: ~A.bivector([float(i_ + 1) for i_ in range(len(A.indices_for_grades[(2,)]))])),
                             ('-vector(1..)', lambda: -A.vector([float(i_ + 1) for i_ in range(A.d)])),
                             ('bivector(1..).conjugate()', lambda: A.bivector([float(i_ + 2) for i_ in range(len(A.indices_for_grades[(2,)]))]).conjugate()),
                             ('vector(1..).involute()', lambda: A.vector([float(i_ + 2) for i_ in range(A.d)]).involute())):
                try:
                    r_ = f()
                    out.append((label, ('ok', tuple(int(k_) for k_ in r_.keys()), tuple(sympy.srepr(sympy.sympify(x_)) for x_ in r_.values()))))
                except Exception as e:  # noqa
                    out.append((label, ('err', type(e).__name__)))
            return out
        used = algs.make_impl(spec)
        canon = list(used.canon2bin.values())
        events = []
        for _ in range(rng.randint(2, 4)):
            ev = rng.choice(['failing-polarity', 'failing-division', 'numeric-product', 'failing-registered', 'numeric-inverse', 'symbolic-unary-partly-zero', 'symbolic-unary-partly-zero'])
            events.append(ev)
            x = oc.make_mv(used, rng.sample(canon, 2), [2.0, 3.0])
            try:
                if ev == 'failing-polarity': x.dual(kind='polarity')
                elif ev == 'failing-division': x / oc.make_mv(used, [1], [1.0])
                elif ev == 'numeric-product': x * x
                elif ev == 'numeric-inverse': oc.make_mv(used, [0, 3], [2.0, 1.0]).inv()
                elif ev == 'symbolic-unary-partly-zero':
                    sa_, sb_ = sympy.symbols('p q')
                    nb_ = len(used.indices_for_grades[(2,)])
                    Bz = used.bivector([sa_] + [0] * (nb_ - 1)) if nb_ > 1 else used.bivector([sa_])
                    vz = used.vector([0] * (used.d - 1) + [sb_])
                    for u_ in (Bz, vz):
                        ~u_; -u_; u_.conjugate(); u_.involute()
                else:
                    def boom(u): raise ValueError('user function fails while it is recorded')
                    used.register(symbolic=True)(boom)(x)
            except Exception:  # noqa
                pass
        got, ref = queries(used), queries(algs.make_impl(spec))
        for (label, g_), (_, w_) in zip(got, ref):
            R.count('history=symbolic-structural'); R.case(('sym-struct', it, label, tuple(events)), True)
            if g_ != w_:
                R.violation({'clause': 'history', 'via': 'symbolic-structural'},
                            {'algebra': spec, 'events': events, 'query': label, 'got': str(g_)[:300], 'fresh': str(w_)[:300]},
                            f'{label} with symbolic operands after the events {events} on Algebra({algs.describe(spec)}) returns {str(g_)[:250]}, a fresh algebra returns {str(w_)[:250]}')
                break


def symbolic_calls(R, rng, tier):
    """Calling symbolic multivectors (substitution of values) on one algebra object, with and without a wrapper: two
    different multivectors on the same blades, called in turn, each evaluate their own coefficients."""
    import sympy
    for it in range(6 if tier == 'quick' else 60):
        spec = {'sig': [rng.choice((1, -1, 1)) for _ in range(2)]}
        S = Session(spec, it % 2 == 0)
        alg = S.alg
        t = sympy.Symbol('t')
        ks = rng.sample([1, 2, 3], 2)
        a = alg.multivector(keys=tuple(ks), values=[t * rng.randint(1, 4), t ** 2 + rng.randint(1, 3)])
        b = alg.multivector(keys=tuple(ks), values=[rng.randint(2, 5) * t + 1, rng.randint(2, 4) * t])
        tv = rng.randint(2, 5)
        want = {'a': [float(v.subs(t, tv)) for v in a.values()], 'b': [float(v.subs(t, tv)) for v in b.values()]}
        for name, mv_ in (('a', a), ('b', b), ('a', a)):
            R.count('history=symbolic-call'); R.case(('symcall', it, name), True)
            try:
                r = mv_(t=tv)
                got = [float(v) for v in r.values()]
            except Exception as e:  # noqa
                got = f'{type(e).__name__}: {e}'
            if got != want[name]:
                R.violation({'clause': 'history', 'via': 'symbolic-call'},
                            {'algebra': spec, 'wrapper': it % 2 == 0, 'keys': ks, 'got': str(got), 'fresh': str(want[name])},
                            f'calling a symbolic multivector (keys {ks}) after another symbolic multivector on the same blades was called '
                            f'(wrapper={"set" if it % 2 == 0 else "None"}) returned {got}, its own coefficients evaluate to {want[name]}')


def replay(R, rec):
    warnings.filterwarnings('ignore')
    r = rec['replay']
    if 'history' not in r:
        return False
    S = Session(r['algebra'], r['wrapper'])
    out = None
    for name, operands in r['history']:
        call = (name, [[tuple(t) for t in it] for it in operands])
        out, unchanged = S.do(call)
    ref, _ = Session(r['algebra'], r['wrapper']).do(call)
    return unchanged and out[0] == ref[0] and (same(out[1], ref[1]) if out[0] == 'ok' else out[1] == ref[1])
