"""Subject-tree generator, Coq printers and a mirror of graph.js for the C20 correspondence
(adapted from the script the graph-model sub-agent validated its model with)."""
import random as _random_mod, sys
import numpy as np
random = None  # replaced below by a proxy to the run's PRNG
from kingdon import Algebra, MultiVector

ALGS = {}
CANON = {}


def set_algebras(d):
    ALGS.clear(); ALGS.update(d)
    CANON.clear(); CANON.update({n: list(a.canon2bin.values()) for n, a in ALGS.items()})


class _Rng:
    r = None
    def __getattr__(self, n):
        return getattr(_Rng.r, n)


def set_rng(r):
    _Rng.r = r


random = _Rng()
_Rng.r = _random_mod


# element types of array-valued coefficients (the small integers used are exact in all of them)
DTYPES = ['float64', 'float64', 'float32', 'float16', 'int64', 'int32', 'longdouble', '>f8', '>f4', '>i4']   # incl. non-native byte order (data read from big-endian files)


# ---------- random trees (tagged tuples) ----------
def rand_mv(an):
    canon = CANON[an]
    kind = random.choice(['sparse', 'canon', 'binary', 'perm', 'sparseperm', 'array', 'array', 'ndarray', 'nd1', 'nd2'])
    if kind in ('sparse',):
        keys = [k for k in canon if random.random() < 0.5] or [canon[0]]
    elif kind == 'canon':
        keys = list(canon)
    elif kind == 'binary':
        keys = sorted(canon)
    elif kind == 'perm':
        keys = random.sample(canon, len(canon))
    elif kind == 'sparseperm':
        keys = random.sample(canon, random.randint(1, len(canon)))
    else:
        keys = random.choice([list(canon), sorted(canon), random.sample(canon, random.randint(1, len(canon)))])
    if kind == 'nd2':                     # two array axes (a grid of elements): elements are enumerated in row-major order
        n, m = random.choice([(2, 3), (3, 2), (2, 2), (1, 3), (3, 1), (2, 4)])
        vals = [[random.randint(-9, 9) for _ in range(n * m)] for _ in keys]
        return ('mv', an, keys, vals, True, random.choice(['nd2', 'nparr2']) + f':{n}x{m}:' + random.choice(DTYPES))
    if kind in ('array', 'ndarray'):
        n = random.randint(1, 3) if kind == 'array' else random.randint(1, 3)
        vals = [[random.randint(-9, 9) for _ in range(n)] for _ in keys]
        return ('mv', an, keys, vals, True, ('nparr' if kind == 'array' else 'nd') + ':' + random.choice(DTYPES))
    vals = [[random.randint(-9, 9)] for _ in keys]
    return ('mv', an, keys, vals, False, 'nd1:' + random.choice(DTYPES) if kind == 'nd1' else 'list')


def rand_subj(an, depth):
    r = random.random()
    if depth <= 0 or r < 0.45:
        r2 = random.random()
        if r2 < 0.15:
            return ('num', random.randint(0, 0xFFFFFF))
        if r2 < 0.3:
            return ('str', random.randint(0, 5))
        return rand_mv(an)
    if r < 0.65:
        return ('list', [rand_subj(an, depth - 1) for _ in range(random.randint(0, 3))])
    if r < 0.8:
        return ('tuple', [rand_subj(an, depth - 1) for _ in range(random.randint(0, 3))])
    return ('call', rand_subj(an, depth - 1))


# ---------- tree -> Python object ----------
import functools
_callkind = [0]


def _ident(v):
    return v


class _Returns:
    def __init__(self, v):
        self.v = v

    def __call__(self):
        return self.v


def to_py(t):
    tag = t[0]
    if tag == 'num':
        return t[1]
    if tag == 'str':
        return f"s{t[1]}"
    if tag == 'mv':
        _, an, keys, vals, arr, kind = t
        alg = ALGS[an]
        kind, _, dt = kind.partition(':')
        if kind in ('nd2', 'nparr2'):
            grid, _, dt = dt.partition(':')
            n, m = (int(q) for q in grid.split('x'))
            v = np.array(vals, dtype=np.dtype(dt)).reshape(len(keys), n, m)
            return MultiVector.fromkeysvalues(alg, tuple(keys), v if kind == 'nd2' else list(v))
        dt = np.dtype(dt or 'float64')
        if kind == 'list':
            v = [c[0] for c in vals]
        elif kind == 'nd1':
            v = np.array([c[0] for c in vals], dtype=dt)
        elif kind == 'nparr':
            v = [np.array(c, dtype=dt) for c in vals]
        else:
            v = np.array(vals, dtype=dt)
        return MultiVector.fromkeysvalues(alg, tuple(keys), v)
    if tag == 'list':
        return [to_py(x) for x in t[1]]
    if tag == 'tuple':
        return tuple(to_py(x) for x in t[1])
    if tag == 'call':
        val = to_py(t[1])
        _callkind[0] += 1
        k = _callkind[0] % 4
        if k == 1:
            return functools.partial(_ident, val)          # a zero-argument callable that is not a function object
        if k == 3:
            return _Returns(val)                            # an instance of a class with __call__
        return lambda: val
    raise ValueError(tag)


# ---------- Coq printing ----------
def cz(n):
    n = int(n)
    return f"({n})" if n < 0 else str(n)


def clist(xs):
    return "[" + "; ".join(xs) + "]"


def czl(xs):
    return clist([cz(x) for x in xs])


def to_coq(t):
    tag = t[0]
    if tag == 'num':
        return f"SNum {cz(t[1])}"
    if tag == 'str':
        return f"SStr {t[1]}%nat"
    if tag == 'mv':
        _, an, keys, vals, arr, kind = t
        return f"SMv (mkG {czl(keys)} {clist([czl(c) for c in vals])} {'true' if arr else 'false'})"
    if tag == 'list':
        return f"SList {clist([to_coq(x) for x in t[1]])}"
    if tag == 'tuple':
        return f"STuple {clist([to_coq(x) for x in t[1]])}"
    if tag == 'call':
        return f"SCall ({to_coq(t[1])})"


def num_of(x):
    f = float(x)
    if f != f or f in (float('inf'), float('-inf')) or f != int(f):
        raise ValueError(f'{x!r} is not one of the small integers the check supplies')     # (bytes read with the wrong element type)
    return int(f)


def mv_vals(v):
    """the 'mv' entry as the front end sees it: a DataView is read as Float64Array"""
    if isinstance(v, (bytes, bytearray)):
        return [num_of(x) for x in np.frombuffer(v, dtype=np.float64)]
    return [num_of(x) for x in v]


def payload_to_coq(p):
    if isinstance(p, dict):
        assert set(p) <= {'mv', 'keys'} and 'mv' in p, p
        vals = czl(mv_vals(p['mv']))
        if 'keys' in p:
            return f"PMv {vals} (Some {czl(p['keys'])})"
        return f"PMv {vals} None"
    if isinstance(p, tuple):
        return f"PTuple {clist([payload_to_coq(x) for x in p])}"
    if isinstance(p, list):
        return f"PList {clist([payload_to_coq(x) for x in p])}"
    if isinstance(p, str):
        return f"PStr {int(p[1:])}%nat"
    if isinstance(p, (int, np.integer)):
        return f"PNum {cz(p)}"
    raise ValueError(repr(p))


# ---------- graph.js mirrored ----------
def js_to_element(o, key2idx):
    _values = mv_vals(o['mv'])
    if 'keys' in o:
        values = [0] * len(key2idx)
        for j, k in enumerate(o['keys']):
            values[key2idx[k]] = _values[j]
        return ('E', values)
    return ('E', _values)


def js_decode(x, key2idx):
    if isinstance(x, dict) and 'mv' in x:
        return js_to_element(x, key2idx)
    if isinstance(x, (list, tuple)):      # JSON: tuples are arrays
        return [js_decode(y, key2idx) for y in x]
    return x


def elem_to_coq(e):
    if isinstance(e, tuple) and e[0] == 'E':
        return f"EMv {czl(e[1])}"
    if isinstance(e, list):
        return f"EList {clist([elem_to_coq(x) for x in e])}"
    if isinstance(e, str):
        return f"EStr {int(e[1:])}%nat"
    return f"ENum {cz(e)}"


# ---------- the property, independently of graph.py: per-blade coefficients through getattr ----------
def truth(t):
    """what the front end should see for the subject t (a list of items contributed to the enclosing list)"""
    tag = t[0]
    if tag in ('num',):
        return [t[1]]
    if tag == 'str':
        return [f"s{t[1]}"]
    if tag == 'mv':
        _, an, keys, vals, arr, kind = t
        alg = ALGS[an]
        mv = to_py(t)
        cols = []
        for name in alg.canon2bin:            # canonical blade order
            c = getattr(mv, name)
            cols.append(c)
        if not arr:
            return [('E', [num_of(c) for c in cols])]
        n = len(vals[0])
        cols = [c if isinstance(c, int) else np.asarray(c).reshape(-1) for c in cols]
        return [('E', [num_of(c[i]) if not isinstance(c, int) else c for c in cols]) for i in range(n)]
    if tag in ('list', 'tuple'):
        return [[y for x in t[1] for y in truth(x)]]
    if tag == 'call':
        return truth(t[1])


def pre_subjects_tree(raw):
    if len(raw) == 1 and raw[0][0] == 'call':
        r = raw[0][1]
        return r[1] if r[0] in ('list', 'tuple') else [r]
    return raw




# ---------- the REAL front-end helpers, run by node (tools/jsdecode.js extracts them from kingdon/graph.js) ----------
def _jsonable(x):
    import base64
    if isinstance(x, (bytes, bytearray)):
        return {'__bytes__': base64.b64encode(bytes(x)).decode()}
    if isinstance(x, dict):
        return {str(k): _jsonable(v) for k, v in x.items()}
    if isinstance(x, (list, tuple)):
        return [_jsonable(v) for v in x]
    if isinstance(x, (np.integer,)):
        return int(x)
    if isinstance(x, (np.floating,)):
        return float(x)
    return x


def node_decode(jobs, repo):
    """jobs: list of (subjects, key2idx).  -> list of decoded structures ({'E': [...]} for elements) or {'error': ...};
    None when node is not available."""
    import shutil, subprocess, json, os
    node = shutil.which('node') or '/root/.nvm/versions/node/v20.20.2/bin/node'
    if not os.path.exists(node):
        return None
    inp = '\n'.join(json.dumps({'key2idx': {str(k): v for k, v in k2i.items()}, 'subjects': _jsonable(subj)}) for subj, k2i in jobs)
    script = os.path.join(os.path.dirname(os.path.abspath(__file__)), 'jsdecode.js')
    p = subprocess.run([node, script, os.path.join(repo, 'kingdon', 'graph.js')], input=inp, capture_output=True, text=True, timeout=300)
    out = [json.loads(l) for l in p.stdout.splitlines() if l.strip()]
    return out if len(out) == len(jobs) else None


def py_decoded_to_json(d):
    """the python re-model's result in the shape node_decode returns"""
    if isinstance(d, tuple) and len(d) == 2 and d[0] == 'E':
        return {'E': [float(x) for x in d[1]]}
    if isinstance(d, (list, tuple)):
        return [py_decoded_to_json(x) for x in d]
    return d
