#!/venv/bin/python
"""Fail-closed python-ast -> Gallina translator (DESIGN 2.2).  Regenerates coq/Gen/*.v from the
CURRENT /repo/kingdon/*.py on every check; a file is rewritten only when its text changes.

Anything outside the small subset below raises Unsupported: nothing is written, exit status 1,
and the calling check reports the tie as broken.
"""
import ast, os, sys

ROOT = os.path.dirname(os.path.dirname(os.path.abspath(__file__)))
REPO = os.environ.get('KV_REPO', '/repo')
GEN = os.path.join(ROOT, 'coq', 'Gen')


class Unsupported(Exception):
    pass


def parse(fn):
    return ast.parse(open(os.path.join(REPO, 'kingdon', fn)).read())


def funcs_of(mod):
    return {n.name: n for n in mod.body if isinstance(n, ast.FunctionDef)}


# ----------------------------------------------------------------------------- expression back end
BINOPS = {ast.Add: 'Z.add', ast.Sub: 'Z.sub', ast.Mult: 'Z.mul', ast.BitXor: 'Z.lxor',
          ast.BitAnd: 'Z.land', ast.BitOr: 'Z.lor', ast.Mod: 'Z.modulo'}


def expr(e, env):
    """Integer/boolean python expression -> Gallina over Z/bool.
    env: python name -> Gallina text | ('lambda', params, body, env) | [texts] (a tuple parameter)."""
    if isinstance(e, ast.Constant) and isinstance(e.value, bool):
        return 'true' if e.value else 'false'
    if isinstance(e, ast.Constant) and isinstance(e.value, int):
        return f'({e.value})%Z' if e.value < 0 else f'{e.value}%Z'
    if isinstance(e, ast.Name):
        if e.id in env and isinstance(env[e.id], str):
            return env[e.id]
        raise Unsupported(f'free name {e.id}')
    if isinstance(e, ast.UnaryOp) and isinstance(e.op, ast.USub):
        return f'(Z.opp {expr(e.operand, env)})'
    if isinstance(e, ast.UnaryOp) and isinstance(e.op, ast.Not):
        return f'(negb {truth(e.operand, env)})'
    if isinstance(e, ast.BoolOp):
        op = 'andb' if isinstance(e.op, ast.And) else 'orb'
        out = truth(e.values[-1], env)
        for v in reversed(e.values[:-1]):
            out = f'({op} {truth(v, env)} {out})'
        return out
    if isinstance(e, ast.BinOp):
        if type(e.op) not in BINOPS:
            raise Unsupported(ast.dump(e.op))
        return f'({BINOPS[type(e.op)]} {expr(e.left, env)} {expr(e.right, env)})'
    if isinstance(e, ast.Compare) and len(e.ops) == 1:
        l, r, op = e.left, e.comparators[0], e.ops[0]
        cm = {ast.Eq: 'Z.eqb', ast.Lt: 'Z.ltb', ast.LtE: 'Z.leb'}
        if type(op) in cm:
            return f'({cm[type(op)]} {expr(l, env)} {expr(r, env)})'
        if isinstance(op, ast.NotEq):
            return f'(negb (Z.eqb {expr(l, env)} {expr(r, env)}))'
        if isinstance(op, ast.Gt):
            return f'(Z.ltb {expr(r, env)} {expr(l, env)})'
        if isinstance(op, ast.GtE):
            return f'(Z.leb {expr(r, env)} {expr(l, env)})'
        if isinstance(op, ast.In):
            if isinstance(r, ast.Tuple):
                return f'(existsb (Z.eqb {expr(l, env)}) [{"; ".join(expr(x, env) for x in r.elts)}])'
            if isinstance(r, ast.Name) and isinstance(env.get(r.id), str):
                return f'(existsb (Z.eqb {expr(l, env)}) {env[r.id]})'
        raise Unsupported('compare ' + ast.dump(op))
    if isinstance(e, ast.IfExp):
        return f'(if {truth(e.test, env)} then {expr(e.body, env)} else {expr(e.orelse, env)})'
    if isinstance(e, ast.Call):
        f = e.func
        if isinstance(f, ast.Name) and isinstance(env.get(f.id), tuple):      # a lambda bound in env
            _, params, body, cenv = env[f.id]
            if len(params) != len(e.args):
                raise Unsupported('arity')
            inner = dict(cenv)
            inner.update({p: expr(a, env) for p, a in zip(params, e.args)})
            return expr(body, inner)
        if isinstance(f, ast.Name) and f.id == 'abs' and len(e.args) == 1:
            return f'(Z.abs {expr(e.args[0], env)})'
        if isinstance(f, ast.Name) and f.id == 'len' and len(e.args) == 1:
            a = e.args[0]
            if (isinstance(a, ast.Name) and a.id == 'algebra') or (isinstance(a, ast.Attribute) and a.attr == 'algebra'):
                return 'alglen'
            raise Unsupported('len of ' + ast.dump(a))
        # bin(k).count('1') / format(k, 'b').count('1')
        if isinstance(f, ast.Attribute) and f.attr == 'count' and isinstance(f.value, ast.Call) \
                and isinstance(f.value.func, ast.Name) and len(e.args) == 1 \
                and isinstance(e.args[0], ast.Constant) and e.args[0].value == '1':
            inner = f.value
            if inner.func.id == 'bin' and len(inner.args) == 1:
                return f'(popcount {expr(inner.args[0], env)})'
            if inner.func.id == 'format' and len(inner.args) == 2 and isinstance(inner.args[1], ast.Constant) \
                    and inner.args[1].value == 'b':
                return f'(popcount {expr(inner.args[0], env)})'
        raise Unsupported('call ' + ast.dump(f))
    if isinstance(e, ast.Subscript):
        v = e.value
        if isinstance(v, ast.Attribute) and v.attr == 'signs' and isinstance(e.slice, ast.Tuple) and len(e.slice.elts) == 2:
            a, b = e.slice.elts
            return f'(sgn {expr(a, env)} {expr(b, env)})'
        if isinstance(v, ast.Name) and isinstance(e.slice, ast.Constant) and isinstance(env.get(v.id), list):
            return env[v.id][e.slice.value]
        raise Unsupported('subscript ' + ast.dump(e))
    raise Unsupported(ast.dump(e))


def truth(e, env):
    """python truthiness of an expression (bool stays, int -> nonzero)."""
    if isinstance(e, (ast.Compare, ast.BoolOp)) or (isinstance(e, ast.UnaryOp) and isinstance(e.op, ast.Not)) \
            or (isinstance(e, ast.Constant) and isinstance(e.value, bool)):
        return expr(e, env)
    return f'(negb (Z.eqb {expr(e, env)} 0%Z))'


def lam(node, env):
    if not isinstance(node, ast.Lambda) or node.args.defaults or node.args.kwonlyargs or node.args.vararg:
        raise Unsupported('expected a plain lambda')
    return ('lambda', [a.arg for a in node.args.args], node.body, env)


def assigned(fn, nm):
    for st in fn.body:
        if isinstance(st, ast.Assign) and len(st.targets) == 1 and isinstance(st.targets[0], ast.Name) \
                and st.targets[0].id == nm:
            return st.value
    raise Unsupported(f'{fn.name}: no assignment to {nm}')


def last_return(fn):
    ret = fn.body[-1]
    if not isinstance(ret, ast.Return):
        raise Unsupported(f'{fn.name}: last statement is not a return')
    return ret.value


def product_call(fn):
    """the trailing `return codegen_product(x, y, filter_func=.., keyout_func=.., sign_func=..)`:
    which keywords are passed and that each is the local of the same name."""
    call = last_return(fn)
    if not (isinstance(call, ast.Call) and isinstance(call.func, ast.Name) and call.func.id == 'codegen_product'):
        raise Unsupported(f'{fn.name}: does not end in codegen_product(...)')
    if [a.id for a in call.args if isinstance(a, ast.Name)] != ['x', 'y'] or len(call.args) != 2:
        raise Unsupported(f'{fn.name}: positional arguments of codegen_product are not (x, y)')
    kws = {}
    for k in call.keywords:
        if not (isinstance(k.value, ast.Name) and k.value.id == k.arg):
            raise Unsupported(f'{fn.name}: keyword {k.arg} is not the local of that name')
        kws[k.arg] = True
    return kws


def local_consts(fn):
    env = {}
    for st in fn.body:
        if isinstance(st, ast.Assign) and isinstance(st.targets[0], ast.Name) and st.targets[0].id == 'key_pss':
            env['key_pss'] = expr(st.value, {})
    return env


def gen_codegen():
    F = funcs_of(parse('codegen.py'))
    out = []

    def emit_filter(fname, defname, extra_env=None):
        fn = F[fname]
        env = local_consts(fn)
        env.update(extra_env or {})
        _, ps, body, _ = lam(assigned(fn, 'filter_func'), env)
        if len(ps) != 3:
            raise Unsupported(f'{fname}: filter arity')
        inner = dict(env)
        inner.update({ps[0]: 'kx', ps[1]: 'ky', ps[2]: 'kout'})
        out.append(f'Definition {defname} (kx ky kout : Z) : bool := {truth(body, inner)}.')

    # gp: codegen_gp must be codegen_product(x, y) with no filter
    gp = last_return(F['codegen_gp'])
    if not (isinstance(gp, ast.Call) and gp.func.id == 'codegen_product' and len(gp.args) == 2 and not gp.keywords):
        raise Unsupported('codegen_gp is not codegen_product(x, y)')
    for nm in ('op', 'cp', 'acp'):
        if set(product_call(F[f'codegen_{nm}'])) != {'filter_func'}:
            raise Unsupported(f'codegen_{nm}: unexpected keywords')
        emit_filter(f'codegen_{nm}', f'filter_{nm}')
    if set(product_call(F['codegen_rp'])) != {'filter_func', 'keyout_func', 'sign_func'}:
        raise Unsupported('codegen_rp: unexpected keywords')
    emit_filter('codegen_rp', 'filter_rp')
    # ip family: default diff_func and the three callers
    ipfn = F['codegen_ip']
    if set(product_call(ipfn)) != {'filter_func'}:
        raise Unsupported('codegen_ip: unexpected keywords')
    if [a.arg for a in ipfn.args.args] != ['x', 'y', 'diff_func'] or len(ipfn.args.defaults) != 1:
        raise Unsupported('codegen_ip signature')
    default = ipfn.args.defaults[0]
    if not (isinstance(default, ast.Name) and default.id == 'abs'):
        raise Unsupported('codegen_ip default diff_func')

    def caller_diff(fname):
        call = last_return(F[fname])
        if not (isinstance(call, ast.Call) and call.func.id == 'codegen_ip' and [a.id for a in call.args] == ['x', 'y']):
            raise Unsupported(f'{fname}: not codegen_ip(x, y, diff_func=...)')
        kw = {k.arg: k.value for k in call.keywords}
        if set(kw) != {'diff_func'}:
            raise Unsupported(f'{fname}: keywords')
        return lam(kw['diff_func'], {})
    absl = ('lambda', ['x'], ast.parse('abs(x)', mode='eval').body, {})
    for nm, df in [('ip', absl), ('lc', caller_diff('codegen_lc')), ('rc', caller_diff('codegen_rc')),
                   ('sp', caller_diff('codegen_sp'))]:
        emit_filter('codegen_ip', f'filter_{nm}', {'diff_func': df})
    # rp keyout + sign_func
    rp = F['codegen_rp']
    env = local_consts(rp)
    _, ps, body, _ = lam(assigned(rp, 'keyout_func'), env)
    inner = dict(env)
    inner.update({ps[0]: 'kx', ps[1]: 'ky'})
    out.append(f'Definition keyout_rp (kx ky : Z) : Z := {expr(body, inner)}.')
    _, ps, body, _ = lam(assigned(rp, 'sign_func'), env)
    inner = dict(env)
    inner[ps[0]] = ['kx', 'ky']
    out.append(f'Definition sign_rp (kx ky : Z) : Z := {expr(body, inner)}.')
    # codegen_product: the sign test, the term sign and the default keyout
    cp = F['codegen_product']
    defaults = dict(zip([a.arg for a in cp.args.args][-len(cp.args.defaults):], cp.args.defaults))
    ko = defaults.get('keyout_func')
    if not (isinstance(ko, ast.Attribute) and ko.attr == 'xor' and isinstance(ko.value, ast.Name) and ko.value.id == 'operator'):
        raise Unsupported('codegen_product default keyout_func is not operator.xor')
    out.append('Definition keyout_default (kx ky : Z) : Z := Z.lxor kx ky.')
    loop = [s for s in cp.body if isinstance(s, ast.For)]
    if len(loop) != 1:
        raise Unsupported('codegen_product: expected one for loop')
    iff = loop[0].body[0]
    if not (isinstance(iff, ast.If) and isinstance(iff.test, ast.NamedExpr) and iff.test.target.id == 'sign' and not iff.orelse):
        raise Unsupported('codegen_product: expected `if (sign := ...)`')
    term = [s for s in iff.body if isinstance(s, ast.Assign) and s.targets[0].id == 'termstr']
    if len(term) != 1 or not isinstance(term[0].value, ast.IfExp):
        raise Unsupported('codegen_product: termstr')
    t = term[0].value
    pos = ast.dump(t.body) == ast.dump(ast.parse('vx * vy', mode='eval').body)
    neg = ast.dump(t.orelse) == ast.dump(ast.parse('- vx * vy', mode='eval').body)
    if not (pos and neg):
        raise Unsupported('codegen_product: term is not `vx * vy if .. else (- vx * vy)`')
    out.append(f'Definition term_positive (sign : Z) : bool := {truth(t.test, {"sign": "sign"})}.')
    out.append('Definition sign_truthy (sign : Z) : bool := negb (Z.eqb sign 0%Z).')
    # involutions
    inv = F['codegen_involutions']
    comp = last_return(inv)
    if not (isinstance(comp, ast.DictComp) and isinstance(comp.value, ast.IfExp)):
        raise Unsupported('codegen_involutions')
    val = comp.value
    if not (ast.dump(val.body) == ast.dump(ast.parse('-v', mode='eval').body) and isinstance(val.orelse, ast.Name)
            and val.orelse.id == 'v' and isinstance(comp.key, ast.Name) and comp.key.id == 'k'):
        raise Unsupported('codegen_involutions: shape of the comprehension')
    out.append('Definition involution_flips (invert_grades : list Z) (k : Z) : bool := '
               + expr(val.test, {"k": "k", "invert_grades": "invert_grades"}) + '.')
    for nm in ['reverse', 'involute', 'conjugate']:
        call = last_return(F[f'codegen_{nm}'])
        if not (isinstance(call, ast.Call) and call.func.id == 'codegen_involutions'):
            raise Unsupported(f'codegen_{nm}')
        kw = {k.arg: k.value for k in call.keywords}
        out.append(f'Definition grades_{nm} : list Z := [{"; ".join(expr(x, {}) for x in kw["invert_grades"].elts)}].')
    # hodge (walrus in the key)
    hd = F['codegen_hodge']
    if not (isinstance(hd.body[0], ast.If) and isinstance(hd.body[0].test, ast.Name) and hd.body[0].test.id == 'undual'):
        raise Unsupported('codegen_hodge: shape')
    for label, comp in [('unhodge', hd.body[0].body[0].value), ('hodge', hd.body[1].value)]:
        key = comp.key
        if not (isinstance(comp, ast.DictComp) and isinstance(key, ast.NamedExpr) and isinstance(comp.value, ast.IfExp)):
            raise Unsupported('codegen_hodge: comprehension')
        v = comp.value
        if not (ast.dump(v.body) == ast.dump(ast.parse('-v', mode='eval').body) and isinstance(v.orelse, ast.Name) and v.orelse.id == 'v'):
            raise Unsupported('codegen_hodge: value')
        kv = expr(key.value, {'eI': 'eI'})
        test = truth(v.test, {'eI': 'eI', key.target.id: 'key_dual'})
        out.append(f'Definition {label}_key (eI : Z) : Z := {kv}.')
        out.append(f'Definition {label}_neg (eI : Z) : bool := let key_dual := {label}_key eI in {test}.')
    # polarity: branch on the sign of pss*pss
    pol = F['codegen_polarity']
    shape = []
    for st in pol.body:
        if isinstance(st, ast.If):
            test = ast.unparse(st.test)
            body = st.body[0]
            what = ast.unparse(body.value) if isinstance(body, ast.Return) else ('raise ' + ast.unparse(body.exc) if isinstance(body, ast.Raise) else '?')
            shape.append((test, what))
    expected = [('undual', 'x * x.algebra.pss'), ('sign == -1', '-x * x.algebra.pss'),
                ('sign == 1', 'x * x.algebra.pss'), ('sign == 0', 'raise ZeroDivisionError')]
    if shape != expected:
        raise Unsupported(f'codegen_polarity: branch structure {shape}')
    sg = assigned(pol, 'sign')
    if ast.unparse(sg) != 'x.algebra.signs[key_pss, key_pss]' or ast.unparse(assigned(pol, 'key_pss')) != 'len(x.algebra) - 1':
        raise Unsupported('codegen_polarity: sign')
    out.append('(* codegen_polarity: sign = signs[pss, pss]; -1 -> -x*pss ; 1 -> x*pss ; 0 -> ZeroDivisionError ; undual -> x*pss *)')
    out.append('Definition polarity_sign : Z := sgn (Z.sub alglen 1%Z) (Z.sub alglen 1%Z).')
    text = ('(* GENERATED by tools/translate.py from /repo/kingdon/codegen.py - do not edit *)\n'
            'From KV Require Import Model.Util.\n'
            'Section Gen.\nVariable sgn : Z -> Z -> Z.\nVariable alglen : Z.\n'
            + '\n'.join(out) + '\nEnd Gen.\n')
    return text


# ----------------------------------------------------------------------------- operator tables
def method_table(classnode):
    """For a class of the MultiVector surface: name -> (algebra operator, swapped operands?, arity).
    Understands   def m(self[, other]): return self.algebra.OP(self[, other]) / (other, self)
    and alias assignments  a = b = m."""
    table, order = {}, []
    for st in classnode.body:
        if isinstance(st, ast.FunctionDef):
            body = [s for s in st.body if not (isinstance(s, ast.Expr) and isinstance(s.value, ast.Constant))]
            if len(body) == 1 and isinstance(body[0], ast.Return) and isinstance(body[0].value, ast.Call):
                c = body[0].value
                f = c.func
                if isinstance(f, ast.Attribute) and isinstance(f.value, ast.Attribute) and f.value.attr == 'algebra' \
                        and isinstance(f.value.value, ast.Name) and f.value.value.id == 'self' and not c.keywords:
                    argn = [a.id if isinstance(a, ast.Name) else '?' for a in c.args]
                    params = [a.arg for a in st.args.args]
                    if argn == ['self'] and params == ['self']:
                        table[st.name] = (f.attr, False, 1)
                    elif argn == ['self', 'other'] and params == ['self', 'other']:
                        table[st.name] = (f.attr, False, 2)
                    elif argn == ['other', 'self'] and params == ['self', 'other']:
                        table[st.name] = (f.attr, True, 2)
                    else:
                        continue
                    order.append(st.name)
        elif isinstance(st, ast.Assign) and isinstance(st.value, ast.Name) and st.value.id in table:
            for t in st.targets:
                if isinstance(t, ast.Name):
                    table[t.id] = table[st.value.id]
                    order.append(t.id)
    return [(n, *table[n]) for n in order]


def tape_table(classnode):
    """TapeRecorder: name -> operator for `a = b = partialmethod(binary_operator|unary_operator, operator='op')`."""
    rows = []
    for st in classnode.body:
        if isinstance(st, ast.Assign) and isinstance(st.value, ast.Call) and isinstance(st.value.func, ast.Name) \
                and st.value.func.id == 'partialmethod':
            c = st.value
            kind = c.args[0].id
            kw = {k.arg: k.value for k in c.keywords}
            if kind not in ('binary_operator', 'unary_operator') or set(kw) != {'operator'}:
                raise Unsupported('taperecorder partialmethod')
            for t in st.targets:
                rows.append((t.id, kw['operator'].value, False, 2 if kind == 'binary_operator' else 1))
    return rows


def gen_dunder():
    mv = [n for n in parse('multivector.py').body if isinstance(n, ast.ClassDef) and n.name == 'MultiVector'][0]
    tp = [n for n in parse('taperecorder.py').body if isinstance(n, ast.ClassDef) and n.name == 'TapeRecorder'][0]
    rows_mv = method_table(mv)
    rows_tp = tape_table(tp)
    if len(rows_mv) < 40 or len(rows_tp) < 40:
        raise Unsupported('operator tables unexpectedly small')

    def fmt(rows):
        return '[\n  ' + ';\n  '.join(f'("{n}", "{op}", {"true" if sw else "false"}, {ar}%nat)' for n, op, sw, ar in rows) + '\n]'
    return ('(* GENERATED by tools/translate.py from /repo/kingdon/multivector.py and taperecorder.py - do not edit *)\n'
            'From Coq Require Import String List. Import ListNotations. Open Scope string_scope.\n'
            '(* (method, algebra operator it calls, operands swapped?, arity) *)\n'
            f'Definition mv_methods : list (string * string * bool * nat) := {fmt(rows_mv)}.\n'
            f'Definition tape_methods : list (string * string * bool * nat) := {fmt(rows_tp)}.\n'
            + gen_pinned(mv, tp))


# the hand-modelled members of the two operator surfaces and of the registry glue (Model/Tape.v): their source
# text (docstrings and comments dropped, re-printed by ast.unparse) is emitted as Coq strings, so that
# Theory/Tape.v can state `<table> = <the text the model was written against>`; any edit of these
# functions breaks that lemma (fail-closed) instead of silently leaving the model behind the code.
PIN_MV = ['keys', 'values', 'fromkeysvalues', 'grade', '__getattr__', '__pow__', 'norm', 'normalized', 'dual', 'undual']
PIN_TAPE = ['__new__', 'keys', '__getattr__', 'grade', 'binary_operator', 'unary_operator', '__rsub__', '__rmul__', '__rxor__', '__pow__',
            'dual', 'undual', 'norm', 'normalized']
PIN_GLUE = [('operator_dict.py', 'OperatorDict', '_call_binary'), ('operator_dict.py', 'UnaryOperatorDict', '__call__'),
            ('operator_dict.py', 'Registry', '__getitem__'), ('operator_dict.py', 'Registry', '__call__'),
            ('operator_dict.py', 'OperatorDict', '_store'), ('codegen.py', None, 'do_compile')]


def coq_string(s):
    if any(ord(c) > 126 or (ord(c) < 32 and c != '\n') for c in s):
        raise Unsupported('non-ASCII character in a pinned source text')
    return '"' + s.replace('"', '""') + '"'


def fn_source(fn):
    """source of a FunctionDef without its docstring (ast.unparse drops comments and normalises layout)"""
    body = list(fn.body)
    if body and isinstance(body[0], ast.Expr) and isinstance(body[0].value, ast.Constant) and isinstance(body[0].value.value, str):
        body = body[1:] or [ast.Pass()]
    clone = ast.FunctionDef(name=fn.name, args=fn.args, body=body, decorator_list=fn.decorator_list, returns=None,
                            type_comment=None, lineno=0, col_offset=0)
    return ast.unparse(ast.fix_missing_locations(clone))


def class_funcs(classnode):
    out = {}
    for st in classnode.body:
        if isinstance(st, ast.FunctionDef):
            out[st.name] = st          # a later definition of the same name wins, as in the class body
    return out


def gen_pinned(mv, tp):
    def table(name, rows):
        return (f'Definition {name} : list (string * string) := [\n  '
                + ';\n  '.join(f'({coq_string(n)}, {coq_string(src)})' for n, src in rows) + '\n].\n')
    fm, ft = class_funcs(mv), class_funcs(tp)
    rows_mv = [(n, fn_source(fm[n])) for n in PIN_MV]
    rows_tp = [(n, fn_source(ft[n])) for n in PIN_TAPE]
    # every FunctionDef / partialmethod name of TapeRecorder: what exists on the recorder at all
    tape_names = []
    for st in tp.body:
        if isinstance(st, ast.FunctionDef):
            tape_names.append(st.name)
        elif isinstance(st, ast.Assign):
            tape_names += [t.id for t in st.targets if isinstance(t, ast.Name)]
    rows_gl = []
    for fn, cls, name in PIN_GLUE:
        mod = parse(fn)
        if cls is None:
            node = funcs_of(mod)[name]
        else:
            node = class_funcs([n for n in mod.body if isinstance(n, ast.ClassDef) and n.name == cls][0])[name]
        rows_gl.append(((cls + '.' if cls else '') + name, fn_source(node)))
    return ('(* source text of the hand-modelled members (see Model/Tape.v, Theory/Tape.v) *)\n'
            + table('mv_defs', rows_mv) + table('tape_defs', rows_tp) + table('glue_defs', rows_gl)
            + 'Definition tape_names : list string := [' + '; '.join(coq_string(n) for n in tape_names) + '].\n')


# ----------------------------------------------------------------------------- driver
def write_if_changed(path, text):
    if os.path.exists(path) and open(path).read() == text:
        return False
    with open(path, 'w') as f:
        f.write(text)
    return True


def main():
    os.makedirs(GEN, exist_ok=True)
    outputs = {}
    try:
        outputs['Codegen.v'] = gen_codegen()
        outputs['Dunder.v'] = gen_dunder()
        import pins
        outputs['Pins.v'] = pins.generate()
        import translate_stmt
        try:
            outputs['Kernels.v'] = translate_stmt.generate()
        except translate_stmt.Unsupported as e:
            raise Unsupported(f'statement back end: {e}')
        import translate_poly
        try:
            outputs['Poly.v'] = translate_poly.generate()
        except translate_poly.Unsupported as e:
            raise Unsupported(f'polynomial back end: {e}')
    except (Unsupported, KeyError, IndexError, AttributeError, AssertionError, SyntaxError) as e:
        print(f'TRANSLATOR-FAIL-CLOSED {type(e).__name__}: {e}')
        return 1
    for fn, text in outputs.items():
        if write_if_changed(os.path.join(GEN, fn), text):
            print('regenerated', fn)
    return 0


if __name__ == '__main__':
    sys.exit(main())
