#!/venv/bin/python
"""Writes /verif/MANIFEST.json from the table below (kept in one place so it stays valid)."""
import json, os
ROOT = os.path.dirname(os.path.dirname(os.path.abspath(__file__)))

NOTE_COMMON = ('Trusted: Coq 8.16.1 kernel (vm_compute, no native_compute); tools/translate.py; the python correspondence '
               'harness; hand-written Model/*.v tied to /repo by differential evaluation inside coqc.  See DESIGN.md 6.')

CHECKS = {
    'C01': dict(
        text='Theorems for every dimension, signature ordering, start index and well-formed basis: parity of the swap count of '
             '_swap_blades, closed form of the computed sign, generator squares, anticommutation, associativity (all triples), '
             'named blade = ordered product, zero iff common null generator, lazy = eager — at the level of blade names and lifted '
             'to the bit-keyed table under the decidable predicate wf_alg.  The hand-written model of the table construction is '
             'compared entry by entry with the real tables (eager, lazy, cayley, blade products, spellings) on every run and '
             'wf_alg is evaluated for every explored algebra.',
        technique='Rocq proof (induction on words / bit vectors) about a Gallina model of _swap_blades/_compute_sign + in-Coq differential correspondence',
        ref='DESIGN.md 4 (C01)'),
    'C02': dict(
        text='Theorems over every commutative ring and all key lists (any subset, order, empty): coefficient formula of the model '
             'of codegen_product/gp (sum over all pairs of stored blades), completeness and duplicate-freeness of the stored result '
             'keys, storage independence.  The model is compared with the real generated functions per key-pattern pair on every run.',
        technique='Rocq proof (fold invariants over an abstract ring) + in-Coq differential correspondence of generated functions',
        ref='DESIGN.md 4 (C02)'),
    'C03': dict(
        text='The seven filters are re-derived from the source on every run (translator) and proved equal to the model filters; '
             'bit-trick characterisations (k_out = kx+ky iff disjoint iff grade r+s, |kx-ky|, contractions, scalar) for unbounded '
             'integers; operator-level grade-selection theorems, ip+sp = lc+rc, cp+acp = gp.  Correspondence of each operator.',
        technique='Rocq proof (bitwise/popcount induction, finite sums over a ring) on kernels translated from the source + correspondence',
        ref='DESIGN.md 4 (C03)'),
    'C04': dict(
        text='Coefficient-wise theorems for add/sub/neg (incl. the only-in-b branch of sub), the three involution sign formulas '
             '(popcount mod 4 test, translated from the source), over every commutative ring; correspondence incl. grade selection '
             'and (anti)automorphism oracle on the implementation.',
        technique='Rocq proof on translated kernels + in-Coq differential correspondence',
        ref='DESIGN.md 4 (C04)'),
    'C05': dict(
        text='Kernels of hodge/unhodge/rp/polarity translated from the source and bridged; rp filter = outer-product filter of the '
             'complements, rp key = key of unhodge(hodge a ^ hodge b); operator-level duality theorems; correspondence of all '
             'duality operators and of dual()/undual() kind selection, round-trip oracle on the implementation.',
        technique='Rocq proof on translated kernels + in-Coq differential correspondence',
        ref='DESIGN.md 4 (C05)'),
    'C06': dict(
        text='Theorems (every commutative ring, every valuation): evaluating the coefficients the symbolic generators of sw/proj/normsq '
             'produce - with the zero-filter applied after every elementary operator, over kingdon\'s Polynomial class and over the '
             'denominator-1 fragment of RationalPolynomial - equals the composition a*b*~a, (a|b)*~b, a*~a of the elementary model '
             'operators on the values; the filter only removes blades and a dropped polynomial is identically zero.  Correspondence: '
             'values against the model composition, stored keys against the model\'s symbolic run, composition oracle on the implementation.',
        technique='Rocq proof (naturality under operation-preserving maps + verified polynomial zero test) + in-Coq differential correspondence',
        ref='DESIGN.md 4 (C06)'),
    'C07': dict(
        text='PARTIAL.  Theorems about Model/Inverse.v (codegen_inv / hitzer / shirokov / div / power_supply / AdditionChains modelled branch '
             'by branch, the symbolic zero-filter a parameter): for every algebra, commutative ring and sparse operand - scalar denominators on '
             'both sides give a two-sided inverse, inverses are unique, a/b = a*b.inv(), number/x = number*x.inv(), ZeroDivisionError exactly '
             'when the generated denominator tests zero, power_supply yields x^k, the Shirokov pair satisfies x adj = adj x = den whenever the '
             'loop stops by its break.  For d <= 4, EVERY well-formed algebra (default bases with any start index >= 0 directly, with the metric as ring '
             'indeterminates; custom / non-ascending bases such as 2DPGA, 3DPGA by composition with the C14 relabelling isomorphism), ALL '
             'operands: x num = num x = den, den = 0 only for operands without inverse, hence x.inv() is a two-sided '
             'inverse whenever it returns and over a field returns exactly for invertible operands.  NOT proved: the d = 5 closed form, that the '
             'Shirokov loop reaches its break, singularity beyond d = 4; there the check is the direct oracle on '
             'the implementation (exact over Fraction for d <= 5, to rounding beyond, exact linear-algebra singularity oracle on '
             'ZeroDivisionError) plus the in-Coq model tie - exploration, labelled so in the evidence.',
        technique='Rocq proof (coefficient reflection + ring with generic metric; staged proof via associativity for d = 4; loop invariant for Shirokov) + direct oracle + in-Coq differential correspondence',
        ref='DESIGN.md 4 (C07)'),
    'C08': dict(
        text='Congruence theorems: every product-type operator (any sign function, filter, key-out), add, sub, neg, the involutions '
             'and the Hodge duals respect coefficient-wise equality of operands (permuted / zero-padded storage), over every '
             'commutative ring.  Congruence of Model/Inverse.v (Hitzer closed forms, Shirokov loop state, inv, div, number/x, x/number, '
             'integer powers): any re-storage for d <= 5, every permutation (same stored blades) for d >= 6; refutation witness for '
             'zero-padding at d >= 6 under the numeric filter (not reachable through alg.inv).  Metamorphic correspondence on the real '
             'kingdon for every operator incl. composite, inverse and series.',
        technique='Rocq proof (finite-sum re-indexing over key supersets; relational congruence through every generator of the inverse) + metamorphic differential check',
        ref='DESIGN.md 4 (C08)'),
    'C09': dict(
        text='Theorems about Model/Cache.v (caches + shared name-keyed namespace + by-name callees of compiled registered functions): every '
             'call of every sequential history runs the function generated for its own ordered keys; the same for EVERY interleaving of '
             'any number of threads at the granularity of single dict operations; the name-claiming loop never overwrites a binding.  '
             'Correspondence: random histories (direct / wrapper / registered / raising) against a fresh algebra, cache state (generation '
             'events, generated names) against the model, barrier-forced and free-running threads.',
        technique='Rocq proof (invariant by induction over operation sequences and over schedules) + differential history correspondence',
        ref='DESIGN.md 4 (C09)'),
    'C10': dict(
        text='Theorems about Model/Cache.v: in every sequential history each (operator, ordered key tuples) is generated at most once, '
             'generated = cached, and a lookup of a cached key changes nothing.  Correspondence: generation/compile events per call observed '
             'from outside for every operator and five coefficient types; event sequence compared with the model.',
        technique='Rocq proof (invariant over operation sequences) + event-count correspondence',
        ref='DESIGN.md 4 (C10)'),
    'C11': dict(
        text='Theorems about Model/Tape.v (both interpreters of a registered function over ONE shared table of generated functions: the plain '
             'path follows MultiVector method by method, the compiled path follows TapeRecorder / Registry / do_compile): for every body of an '
             'expression language over the member surface (infix and method operators, numbers on either side of + - * and ^, / number, ** any '
             'integer, grade, coefficient access with any spelling, duals, norm, normalized, nested registered calls also with number arguments), '
             'every well-formed algebra, every commutative ring, any key tuples: if f(args) returns then alg.register(f)(args) returns the same '
             'multivector (supported fragment), on EVERY body of the language the two never return different values, members outside the recorder '
             'raise AttributeError, and the compiled function is independent of the storage order of its arguments.  Method tables are translated '
             'from the source, the hand-modelled members are pinned.  PARTIAL: explicit calls of reflected dunders (x.__rmul__(y) ...) are covered '
             'by the correspondence only; inv / div / sqrt enter as a storage-independent parameter (C07, C19).  register(symbolic=True): for every '
             'division-free body incl. nested registered calls the symbolic run (zero-filter after every operator, any filter that drops only '
             'zero tests, any symbol class with an operation-preserving evaluation) returns whenever f(xs) does and its coefficient polynomials '
             'evaluate to the coefficients of f(xs) (C11_symbolic_agree); bodies with poles (inv, div, sqrt, norm, negative powers) by direct '
             'oracle.  Known findings F18 (symbolic sqrt), F19 (number literals printed with str), F20 '
             '(python operators on coefficients).',
        technique='Rocq proof (two fuel inductions over an executable model of both interpreters; table well-behavedness from the product theory) + in-Coq differential correspondence of recorded keys and values + direct oracle register / register(symbolic=True) vs f',
        ref='DESIGN.md 4 (C11)'),
    'C12': dict(
        text='Theorems: (1) every model operator commutes LITERALLY with any operation-preserving map of coefficients; polynomial evaluation '
             'is such a map for every commutative ring and valuation; the zero-filter is sound.  (2) The call (Model/Call.v follows '
             'MultiVector.__call__ / free_symbols / _lambdify_mv statement by statement, source-pinned): python string order on names is a '
             'strict total order; the sorted free symbols are strictly increasing, a permutation of the set and unique; positional arguments '
             'bind the i-th argument to the i-th name, keyword arguments bind by name independently of keyword order, extra keywords are '
             'ignored; the result is coefficient-wise evaluation with unchanged keys; keywords {name_i := a_i} = positional (a_i); exact '
             'iff-characterisation of every exception.  (3) Model operators invent no symbols, and calling the result of any of the 20 model '
             'operators on symbolic operands = the operator on the called operands (keywords; positional in the result\'s name order).  Not '
             'modelled: sympy.simplify, LambdaPrinter / cse printing, symbols sharing one name - differential check.',
        technique='Rocq proof (naturality + sub-structure argument; sorting / permutation; statement-by-statement call model with error branches) + in-Coq correspondence of call binding + differential symbolic/numeric correspondence + source pins',
        ref='DESIGN.md 4 (C12)'),
    'C13': dict(
        text='PARTIAL.  Theorems: (1) results are independent of the symbol class used for code generation (two coefficient structures with '
             'operation-preserving maps into a common target give equal images); (2) graded mode (Model/Graded.v, the completion of grades in '
             'do_codegen and the grade-wise zero filter): for every well-formed algebra a graded result stores exactly the complete grades '
             'occurring among the generated keys and holds on every blade the coefficient default mode computes; the filter keeps grades whole.  '
             '(3) translation validation: the TEXT of every sampled generated function (cse on/off, graded on/off, 20 operators) is read back '
             'into a straight-line program and shown inside Coq to compute the model operator for all inputs in every commutative ring '
             '(validation on polynomial indeterminates + naturality); cse inlining is sound for well-scoped assignments.  '
             'The same for generated code that divides (inv, div, d <= 5): fraction evaluation on indeterminates, cross-multiplied against the '
             'closed-form numerator / denominator of the inverse model; for all operands the text raises ZeroDivisionError or returns the model inverse.  '
             'wrapper / func_builder-vs-lambdify stay printer glue: differential check of all 16 option combinations against default '
             'options, graded results against the model evaluated in Coq.',
        technique='Rocq proof (naturality; list/dictionary reasoning for the graded completion) + translation validation of generated code (SLP on polynomial indeterminates, vm_compute) + differential option-matrix correspondence',
        ref='DESIGN.md 4 (C13)'),
    'C14': dict(
        text='Theorems (Theory/Relabel.v) for any two well-formed algebras A, D with equal signature list and start index (D = the default '
             'basis): phi(e_I) := the ordered product in D of the generators of A\'s spelling of I = phi_sign e_{phi_key}; phi_key is a '
             'grade-preserving bijection commuting with xor (pss to pss), phi_sign = +-1 the parity between the spellings; TABLE ISOMORPHISM '
             'phi_sign I phi_sign J sgn_D(phi I, phi J) = sgn_A(I,J) phi_sign(I xor J); over every commutative ring relabel commutes with gp, op, '
             'ip, lc, rc, sp, cp, acp, add, sub, neg, the three involutions, grade selection (same errors), and with hodge, unhodge, polarity, '
             'unpolarity, dual/undual (all kinds, same errors) and rp up to the orientation of the custom pseudoscalar; coefficient access with '
             'any spelling is invariant; 2DPGA, 3DPGA, STAP are instances.  PARTIAL: inverse/division commute only as far as C07 is proved; the '
             'matrix clause is refuted for custom bases (known finding F10).  Rejection clause and all operators incl. inverse: differential '
             'check relabel(op_custom(x, y)) = op_default(relabel x, relabel y) on the real kingdon; the model\'s phi_key / phi_sign / table '
             'equation are evaluated in Coq against the implementation for every explored basis.',
        technique='Rocq proof (closed form of the computed sign, re-indexing of finite sums along the key bijection) + in-Coq and differential correspondence',
        ref='DESIGN.md 4 (C14)'),
    'C15': dict(
        text='Theorems about Model/Construct.v (MultiVector.__new__ statement by statement: keyword re-keying by _blade2canon parity, key '
             'sanitation, grades, graded checks incl. the Mapping branch, the four input kinds; __getattr__ / __contains__ / items / asfullmv / '
             'map / filter / grade; the convenience constructors), for every well-formed algebra and coefficient type: each construction form '
             'round-trips exactly (stored keys = supplied blades, every accessor reads back the supplied coefficient, parity rule for any '
             'permuted spelling, absent and unknown names read 0), and the constructor raises EXACTLY for length mismatch, keys outside the '
             'declared grades, invalid grades, incomplete grades in graded mode and unknown names (iff per form).  Excluded by hypothesis '
             '(outside the property): the same blade supplied twice, repeated generators in a spelling, duplicate keys.',
        technique='Rocq proof (dictionary-fold invariants, swap-parity theorem lifted to spellings, iff characterisation by bind inversion) + in-Coq differential correspondence of all forms x spellings x malformed inputs',
        ref='DESIGN.md 4 (C15)'),
    'C16': dict(
        text='Theorems: (a) the operand-order table of all infix / reflected dunders and the forwarding of every named method are re-derived from '
             'multivector.py on every run and proved to keep (left, right); (b) indexing array-valued coefficients commutes literally with every '
             'operator (pointwise structure); (c) about Model/Storage.v (__getitem__ / __setitem__ / shape / itermv / items / map for list-backed '
             'and ndarray-backed values, one trailing axis, int / slice / tuple subscripts with CPython slice semantics): X[idx] keeps the keys and '
             'holds exactly values[key][idx]; raising subscripts characterised; X[idx] = V changes only addressed entries whatever happens (frame, '
             'incl. partial updates on exceptions), is blade by blade the assignment of V\'s coefficient of the same blade, round-trips, numbers '
             'broadcast per blade; (d) OperatorDict._call_binary on arbitrary operand trees (numbers, multivectors, lists, tuples, nested '
             'callables) equals a structural specification for every operator: scalar wrapping on either side, element-wise mapping with the '
             'multivector on the correct side, callable unwrapping at any depth, first-error propagation, the algebra check.  numpy beyond '
             '1-D / 2-D int / slice subscripts and python operator dispatch are not modelled: differential checks.',
        technique='Rocq proof on a table translated from the source + naturality theorem + proofs about an executable model of storage / indexing / assignment / operand normalisation + in-Coq differential correspondence + direct oracles',
        ref='DESIGN.md 4 (C16)'),
    'C17': dict(
        text='Theorems about Model/Poly.v (polynomial.py statement by statement): compare is a strict total order; + - * neg pow are '
             'homomorphisms under evaluation in every commutative ring (unconditionally); the canonical-form invariant is preserved by every '
             'operation; under it bool() and == 0 are EXACT zero tests and == is exact; rational + - * / neg inv pow are correct '
             '(cross-multiplied), well-formedness is preserved, no zero divisors.  Structural correspondence on random operation sequences '
             'incl. the invariant of every reachable object; sympy oracle for tosympy.',
        technique='Rocq proof (structural induction on merge loops, leading-term argument); compare and the Polynomial methods __eq__/__bool__/__neg__/__add__/__mul__ translated from the source with kernel-checked bridge lemmas (fuel induction); structural differential correspondence',
        ref='DESIGN.md 4 (C17)'),
    'C18': dict(
        text='Theorems for EVERY well-formed algebra (any dimension d >= 1, signature ordering, start index, default or custom basis): the '
             'blade matrices built by matrix_rep multiply like the blades, M(e_I) M(e_J) = s(I,J) M(e_IJ), and column 0 of M(e_I) is the I-th unit '
             'vector - by the universal property of the sign table (any associative structure whose generators satisfy the Clifford relations), the '
             'mixed-product property of the Kronecker construction and the ordering matrix being a signed permutation matrix; hence for all '
             'operands asmatrix is linear, multiplicative, injective, frommatrix inverts it.  The code\'s two branches (combinations for a default basis, products along the names for a custom one) are proved '
             'to give the same matrices on every default algebra of every dimension.  (The exhaustive d <= 4 computation is kept as an '
             'independent cross-check.)  expr_as_matrix (Model/ExprMatrix.v): the coefficient extraction on the expanded sum gives A with '
             'A . x = y for every y linear in x, entries free of x, res_like rows = rows of the full matrix; the identity holds iff every '
             'monomial with a non-zero coefficient contains exactly one x symbol to the power 1 (refuted for constant, quadratic and bilinear terms); '
             'every operator expression of degree 1 in x (the nine products on either side, sandwich, involutions, duals, sums) is linear, so '
             'the hypothesis is provably met for the main use; the symbolic A of the implementation is compared entry by entry with the model '
             'in Coq (numeric / array-valued other inputs: direct oracle, backed by naturality).',
        technique='Rocq proof (abstract algebra + induction on the Kronecker construction, no enumeration; coefficient extraction on expanded polynomials over an abstract commutative ring, two-sorted invariant + naturality for operator expressions) + exhaustive kernel computation as cross-check + differential correspondence',
        ref='DESIGN.md 4 (C18)'),
    'C19': dict(
        text='PARTIAL.  Theorems about Model/Series.v for every well-formed algebra and every commutative Q-algebra of coefficients: the '
             'outerexp loop returns x^(wedge k)/k! term by term, never runs out of fuel, its break loses nothing, outerexp = the finite sum, '
             'outersin / outercos = odd / even terms, outertan * outercos = outersin given the inverse; x**n = n-fold product, x**0 = 1, '
             'x**-n = inv(x)**n, x**0.5 = sqrt, pow_add; (c + bI c2_inv)^2 = a + bI under the three ring conditions the code never checks '
             '(= Study numbers with positive scalar part; proved satisfied over the reals for a > 0, a^2 - s >= 0); normalized has squared '
             'norm 1; for x^2 = s the partial sums of sum x^k/k! equal (sum s^j/(2j)!) + (sum s^j/(2j+1)!) x, and over Coq\'s reals these '
             'converge to the cosh/sinh, 1/1, cos/sinc triple that exp selects (standard-library Reals axioms only, named in the evidence).  '
             'Not proved: float / complex / sympy evaluation, rounding, the inverse (C07).  Known finding F11: exp on array-valued coefficients.',
        technique='Rocq proof (loop invariant, multivector-level ring laws, ring identities, real analysis over the standard-library Reals) + in-Coq exact (rational) and direct-oracle differential correspondence',
        ref='DESIGN.md 4 (C19)'),
    'C20': dict(
        text='Theorems about Model/Graph.v (graph.py encode/walker + graph.js decode/toElement): decoding the payload reproduces for every '
             'well-formed subject tree (lists, tuples, callables, sparse/full/permuted/array-valued multivectors) the coefficient of every '
             'blade; key2idx is the canonical position; a drag overwrites exactly the stored coefficients.  Correspondence on random trees '
             'and drag sequences.  Known finding F17 (draggable index shift after array-valued subjects).',
        technique='Rocq proof (structural induction over subject trees) + in-Coq differential correspondence',
        ref='DESIGN.md 4 (C20)'),
}

NOT_YET = {}
for i in range(1, 21):
    pid = f'C{i:02d}'
    if pid not in CHECKS:
        NOT_YET[pid] = 'check not built (no technique limitation claimed)'


def main():
    checks = []
    for pid, c in sorted(CHECKS.items()):
        checks.append({
            'property_id': pid,
            'quick_cmd': f'./check {pid} quick',
            'thorough_cmd': f'./check {pid} thorough',
            'evidence_file': f'/verif/evidence/{pid}.json',
            'replay_cmd_template': f'./check {pid} --replay {{path}}',
            'engine': 'rocq',
            'level_claimed': {'category': 'proof', 'text': c['text'], 'design_ref': c['ref']},
            'level_note': c.get('note', NOTE_COMMON),
            'technique': c['technique'],
        })
    m = {
        'version': 1,
        'setup_cmd': 'cd /verif && ./setup.sh',
        'hooks': {'guard': 'KINGDON_VERIF', 'enable': 'none needed: /repo is not instrumented (DESIGN.md 5); checks import /repo directly with PYTHONPATH=/repo',
                  'baseline_off_cmd': 'cd /repo && /venv/bin/python -m pytest -ra -q -p no:cacheprovider --timeout=900 --continue-on-collection-errors',
                  'source_commits': [], 'add_only': True},
        'engines': [{'name': 'rocq', 'path': '/verif/coq', 'serves_properties': sorted(CHECKS),
                     'kind_free_text': 'Coq 8.16.1 development: Model (executable Gallina), Gen (regenerated from /repo by tools/translate.py), '
                                       'Bridge, Theory, Props; correspondence evaluated by coqc vm_compute'}],
        'checks': checks,
        'not_applicable': [{'property_id': p, 'reason': r} for p, r in sorted(NOT_YET.items())],
        'notes': 'See DESIGN.md.  known_findings.txt lists repaired (fixed:) and open (finding:) defects of tBuLi/kingdon.',
    }
    json.dump(m, open(os.path.join(ROOT, 'MANIFEST.json'), 'w'), indent=1)


if __name__ == '__main__':
    main()
