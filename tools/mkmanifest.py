#!/venv/bin/python
"""Writes /verif/MANIFEST.json from the table below (kept in one place so it stays valid)."""
import json, os
ROOT = os.path.dirname(os.path.dirname(os.path.abspath(__file__)))

NOTE_COMMON = ('Trusted: Coq 8.16.1 kernel (vm_compute, no native_compute); tools/translate.py; the python correspondence '
               'harness; hand-written Model/*.v tied to /repo by differential evaluation inside coqc.  See DESIGN.md 6.')

CHECKS = {
    'C01': dict(
        text='Theorems (unbounded in dimension, signature, basis): parity of the swap count of _swap_blades and the '
             'Clifford relations of the resulting sign table; the hand-written model of the table construction is compared '
             'entry by entry with the real tables (eager, lazy, cayley, blade products, spellings) on every run.',
        technique='Rocq proof about a Gallina model of _swap_blades/_compute_sign + in-Coq differential correspondence',
        ref='DESIGN.md 4 (C01)'),
}

NOT_YET = {}
for i in range(1, 21):
    pid = f'C{i:02d}'
    if pid not in CHECKS:
        NOT_YET[pid] = 'check not built yet in this round (work in progress; no technique limitation claimed)'


def main():
    checks = []
    for pid, c in sorted(CHECKS.items()):
        checks.append({
            'property_id': pid,
            'quick_cmd': f'./check {pid} quick',
            'thorough_cmd': f'./check {pid} thorough',
            'evidence_file': f'/verif/evidence/{pid}.json',
            'replay_cmd_template': f'./check {pid} --replay {{path}}',
            'engine': 'rocq',
            'level_claimed': {'category': 'proof', 'text': c['text'], 'design_ref': c['ref']},
            'level_note': c.get('note', NOTE_COMMON),
            'technique': c['technique'],
        })
    m = {
        'version': 1,
        'setup_cmd': 'cd /verif && ./setup.sh',
        'hooks': {'guard': 'KINGDON_VERIF', 'enable': 'none needed: /repo is not instrumented (DESIGN.md 5); checks import /repo directly with PYTHONPATH=/repo',
                  'baseline_off_cmd': 'cd /repo && /venv/bin/python -m pytest -ra -q -p no:cacheprovider --timeout=900 --continue-on-collection-errors',
                  'source_commits': [], 'add_only': True},
        'engines': [{'name': 'rocq', 'path': '/verif/coq', 'serves_properties': sorted(CHECKS),
                     'kind_free_text': 'Coq 8.16.1 development: Model (executable Gallina), Gen (regenerated from /repo by tools/translate.py), '
                                       'Bridge, Theory, Props; correspondence evaluated by coqc vm_compute'}],
        'checks': checks,
        'not_applicable': [{'property_id': p, 'reason': r} for p, r in sorted(NOT_YET.items())],
        'notes': 'See DESIGN.md.  known_findings.txt lists repaired (fixed:) and open (finding:) defects of tBuLi/kingdon.',
    }
    json.dump(m, open(os.path.join(ROOT, 'MANIFEST.json'), 'w'), indent=1)


if __name__ == '__main__':
    main()
