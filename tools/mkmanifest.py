#!/venv/bin/python
"""Writes /verif/MANIFEST.json from the table below (kept in one place so it stays valid)."""
import json, os
ROOT = os.path.dirname(os.path.dirname(os.path.abspath(__file__)))

NOTE_COMMON = ('Trusted: Coq 8.16.1 kernel (vm_compute, no native_compute); tools/translate.py; the python correspondence '
               'harness; hand-written Model/*.v tied to /repo by differential evaluation inside coqc.  See DESIGN.md 6.')

CHECKS = {
    'C01': dict(
        text='Theorems for every dimension, signature ordering, start index and well-formed basis: parity of the swap count of '
             '_swap_blades, closed form of the computed sign, generator squares, anticommutation, associativity (all triples), '
             'named blade = ordered product, zero iff common null generator, lazy = eager — at the level of blade names and lifted '
             'to the bit-keyed table under the decidable predicate wf_alg.  The hand-written model of the table construction is '
             'compared entry by entry with the real tables (eager, lazy, cayley, blade products, spellings) on every run and '
             'wf_alg is evaluated for every explored algebra.',
        technique='Rocq proof (induction on words / bit vectors) about a Gallina model of _swap_blades/_compute_sign + in-Coq differential correspondence',
        ref='DESIGN.md 4 (C01)'),
    'C02': dict(
        text='Theorems over every commutative ring and all key lists (any subset, order, empty): coefficient formula of the model '
             'of codegen_product/gp (sum over all pairs of stored blades), completeness and duplicate-freeness of the stored result '
             'keys, storage independence.  The model is compared with the real generated functions per key-pattern pair on every run.',
        technique='Rocq proof (fold invariants over an abstract ring) + in-Coq differential correspondence of generated functions',
        ref='DESIGN.md 4 (C02)'),
    'C03': dict(
        text='The seven filters are re-derived from the source on every run (translator) and proved equal to the model filters; '
             'bit-trick characterisations (k_out = kx+ky iff disjoint iff grade r+s, |kx-ky|, contractions, scalar) for unbounded '
             'integers; operator-level grade-selection theorems, ip+sp = lc+rc, cp+acp = gp.  Correspondence of each operator.',
        technique='Rocq proof (bitwise/popcount induction, finite sums over a ring) on kernels translated from the source + correspondence',
        ref='DESIGN.md 4 (C03)'),
    'C04': dict(
        text='Coefficient-wise theorems for add/sub/neg (incl. the only-in-b branch of sub), the three involution sign formulas '
             '(popcount mod 4 test, translated from the source), over every commutative ring; correspondence incl. grade selection '
             'and (anti)automorphism oracle on the implementation.',
        technique='Rocq proof on translated kernels + in-Coq differential correspondence',
        ref='DESIGN.md 4 (C04)'),
    'C05': dict(
        text='Kernels of hodge/unhodge/rp/polarity translated from the source and bridged; rp filter = outer-product filter of the '
             'complements, rp key = key of unhodge(hodge a ^ hodge b); operator-level duality theorems; correspondence of all '
             'duality operators and of dual()/undual() kind selection, round-trip oracle on the implementation.',
        technique='Rocq proof on translated kernels + in-Coq differential correspondence',
        ref='DESIGN.md 4 (C05)'),
    'C08': dict(
        text='Congruence theorems: every product-type operator (any sign function, filter, key-out), add, sub, neg, the involutions '
             'and the Hodge duals respect coefficient-wise equality of operands (permuted / zero-padded storage), over every '
             'commutative ring.  Metamorphic correspondence on the real kingdon for every operator incl. composite, inverse and series.',
        technique='Rocq proof (finite-sum re-indexing over key supersets) + metamorphic differential check',
        ref='DESIGN.md 4 (C08)'),
}

NOT_YET = {}
for i in range(1, 21):
    pid = f'C{i:02d}'
    if pid not in CHECKS:
        NOT_YET[pid] = 'check not built yet in this round (work in progress; no technique limitation claimed)'


def main():
    checks = []
    for pid, c in sorted(CHECKS.items()):
        checks.append({
            'property_id': pid,
            'quick_cmd': f'./check {pid} quick',
            'thorough_cmd': f'./check {pid} thorough',
            'evidence_file': f'/verif/evidence/{pid}.json',
            'replay_cmd_template': f'./check {pid} --replay {{path}}',
            'engine': 'rocq',
            'level_claimed': {'category': 'proof', 'text': c['text'], 'design_ref': c['ref']},
            'level_note': c.get('note', NOTE_COMMON),
            'technique': c['technique'],
        })
    m = {
        'version': 1,
        'setup_cmd': 'cd /verif && ./setup.sh',
        'hooks': {'guard': 'KINGDON_VERIF', 'enable': 'none needed: /repo is not instrumented (DESIGN.md 5); checks import /repo directly with PYTHONPATH=/repo',
                  'baseline_off_cmd': 'cd /repo && /venv/bin/python -m pytest -ra -q -p no:cacheprovider --timeout=900 --continue-on-collection-errors',
                  'source_commits': [], 'add_only': True},
        'engines': [{'name': 'rocq', 'path': '/verif/coq', 'serves_properties': sorted(CHECKS),
                     'kind_free_text': 'Coq 8.16.1 development: Model (executable Gallina), Gen (regenerated from /repo by tools/translate.py), '
                                       'Bridge, Theory, Props; correspondence evaluated by coqc vm_compute'}],
        'checks': checks,
        'not_applicable': [{'property_id': p, 'reason': r} for p, r in sorted(NOT_YET.items())],
        'notes': 'See DESIGN.md.  known_findings.txt lists repaired (fixed:) and open (finding:) defects of tBuLi/kingdon.',
    }
    json.dump(m, open(os.path.join(ROOT, 'MANIFEST.json'), 'w'), indent=1)


if __name__ == '__main__':
    main()
