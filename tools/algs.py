"""Algebra specifications shared by the correspondence checks: enumeration / random generation,
construction of the real kingdon Algebra and of the Gallina term of the model algebra."""
import itertools
import kv


def all_sigs(d):
    return [list(s) for s in itertools.product((1, -1, 0), repeat=d)]


def pqr_specs(dmax):
    out = []
    for d in range(dmax + 1):
        for p in range(d + 1):
            for q in range(d + 1 - p):
                out.append({'pqr': (p, q, d - p - q)})
    return out


def sig_of_pqr(p, q, r):
    return [0] * r + [1] * p + [-1] * q if r == 1 else [1] * p + [-1] * q + [0] * r


def norm(spec):
    """fill in 'sig' for pqr specs"""
    s = dict(spec)
    if 'sig' not in s:
        s['sig'] = sig_of_pqr(*s['pqr'])
    return s


def default_digits(spec):
    s = norm(spec)
    start = s.get('start')
    if start is None:
        start = 0 if s['sig'].count(0) == 1 else 1
    return [start + i for i in range(len(s['sig']))]


def random_basis(rng, d, start=None, spell=True, order=True, gens=True):
    """an admissible custom basis: permutation of the generator order x per-blade spelling
    permutation x order within each grade."""
    if start is None:
        start = rng.choice([0, 1, 2])
    digits = [start + i for i in range(d)]
    vec_order = digits[:]
    if gens:
        rng.shuffle(vec_order)
    basis = ['e']
    for g in range(1, d + 1):
        blades = []
        for comb in itertools.combinations(digits, g):
            comb = list(comb)
            if g >= 2 and spell:
                rng.shuffle(comb)
            blades.append(comb)
        if g == 1:
            blades = [[v] for v in vec_order]
        elif order:
            rng.shuffle(blades)
        basis += ['e' + ''.join(format(c, 'x') for c in b) for b in blades]
    return basis


def all_bases(d, start):
    """every admissible custom basis for small d (generator order x spellings x within-grade order)."""
    digits = [start + i for i in range(d)]
    per_grade = []
    for g in range(1, d + 1):
        combs = list(itertools.combinations(digits, g))
        spellings = [list(itertools.permutations(c)) for c in combs]
        grade_opts = []
        for choice in itertools.product(*spellings):
            for perm in itertools.permutations(choice):
                grade_opts.append(['e' + ''.join(format(c, 'x') for c in b) for b in perm])
        per_grade.append(grade_opts)
    for combo in itertools.product(*per_grade):
        yield ['e'] + [b for grade in combo for b in grade]


NAMED = {
    '2DPGA': ((2, 0, 1), ["e", "e1", "e2", "e0", "e20", "e01", "e12", "e012"]),
    '3DPGA': ((3, 0, 1), ["e", "e1", "e2", "e3", "e0", "e01", "e02", "e03", "e12", "e31", "e23",
                          "e032", "e013", "e021", "e123", "e0123"]),
    'STAP': ((3, 1, 1), ["e", "e0", "e1", "e2", "e3", "e4",
                         "e01", "e02", "e03", "e40", "e12", "e31", "e23", "e41", "e42", "e43",
                         "e234", "e314", "e124", "e123", "e014", "e024", "e034", "e032", "e013", "e021",
                         "e0324", "e0134", "e0214", "e0123", "e1234", "e01234"]),
}


def make_impl(spec, **options):
    from kingdon import Algebra
    if 'fromname' in spec:
        return Algebra.fromname(spec['fromname'], **options)
    kw = dict(options)
    if spec.get('basis'):
        kw['basis'] = list(spec['basis'])
    if spec.get('start') is not None and not spec.get('basis'):
        kw['start_index'] = spec['start']
    if spec.get('graded'):
        kw['graded'] = True
    if 'pqr' in spec:
        return Algebra(*spec['pqr'], **kw)
    return Algebra(signature=list(spec['sig']), **kw)


def model_term(spec):
    """Gallina term : res alg.  For fromname specs the model is given the basis kingdon itself uses
    (read from the implementation at run time by the caller and put in spec['basis'])."""
    s = dict(spec)
    if 'fromname' in s:
        pqr, basis = NAMED[s['fromname']]
        s['pqr'], s['basis'] = pqr, basis
    graded = kv.boolt(s.get('graded', False))
    sig = f'(sig_of_pqr {kv.nat(s["pqr"][0])} {kv.nat(s["pqr"][1])} {kv.nat(s["pqr"][2])})' if 'pqr' in s else kv.zlist(s['sig'])
    if s.get('basis'):
        return f'(mk_custom {sig} {kv.blist(kv.name(b) for b in s["basis"])} {graded})'
    if s.get('start') is not None:
        return f'(Ok (mk_default {sig} {kv.Z(s["start"])} {graded}))'
    return f'(Ok (mk_default {sig} (default_start {sig}) {graded}))'


def describe(spec):
    if 'fromname' in spec:
        return spec['fromname']
    base = f'pqr={spec["pqr"]}' if 'pqr' in spec else f'sig={spec["sig"]}'
    if spec.get('basis'):
        base += ' basis=' + ','.join(spec['basis'])
    elif spec.get('start') is not None:
        base += f' start={spec["start"]}'
    if spec.get('graded'):
        base += ' graded'
    return base


def kind(spec):
    if 'fromname' in spec:
        return 'named'
    return 'custom' if spec.get('basis') else 'default'


class AlgPool:
    """`Definition kv_algN := Eval vm_compute in <term>.`, emitted only in the shards that use it
    (a case lists the definitions it needs under 'defs')."""
    def __init__(self):
        self.terms = {}

    def ref(self, spec):
        """-> (name, definition text)"""
        t = model_term(spec)
        if t not in self.terms:
            self.terms[t] = f'kv_alg{len(self.terms)}'
        n = self.terms[t]
        return n, f'Definition {n} := Eval vm_compute in {t}.'


def with_alg(ref, body, default='false'):
    """`match ref with Ok A => body | Err _ => default end`"""
    return f'match {ref} with Ok A => {body} | Err _ => {default} end'
