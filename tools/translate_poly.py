#!/venv/bin/python
"""Polynomial back end of the fail-closed python-ast -> Gallina translator (DESIGN 2.2).

Translates, from the CURRENT /repo/kingdon/polynomial.py, statement by statement and expression by expression:

  compare(a, b)                      -> gen_compare_for (the `for i in range(1, l)` loop) , gen_compare
  Polynomial.__eq__  (other an int)  -> gen_eq_int          Polynomial.__eq__ (other a Polynomial) -> gen_eq
  Polynomial.__bool__                -> gen_bool            Polynomial.__neg__                     -> gen_neg
  Polynomial.__add__ (other a Polynomial / an int)
                                     -> gen_add_while (the `while not (ai == al and bi == bl)` loop), gen_add, gen_add_int
  Polynomial.__mul__ (other a Polynomial / an int)
                                     -> gen_mul_while (the `while i < len(A) or j < len(B)` merge loop),
                                        gen_mul_for (the loop over itertools.product), gen_mul, gen_mul_int
Pattern-checked frame (exact text): Polynomial.__init__, __len__, __getitem__, __radd__, `__rmul__ = __mul__`.

REPRESENTATION (documented again at the head of Gen/Poly.v).
  * an element of a monomial is  pyv := PInt (z : Z) | PStr (r : nat):  a python int, or a variable name abstracted to
    its rank in python's string order (so `<`, `==` on names are `<`, `=` on ranks) - exactly the abstraction of
    Model/Poly.v; a python monomial [coeff, 'v1', ...] is  gmono := list pyv  (head = coefficient); Polynomial.args and
    (because __init__/__len__/__getitem__ are pattern-checked to be the plain wrappers) a Polynomial object are
    gpoly := list gmono; a value that may be `None` is an `option`.
  * every generated function returns `option T`; `None` = the python code raised (IndexError, TypeError: None[0],
    None < x, int < str, ...) OR left the represented domain (int + str, appending None to a monomial list, truthiness
    of a name) OR ran out of fuel.  Bridge/Poly.v proves `Some (model value)` for every argument in the image of the
    model's representation, so none of the three happens there.
  * python ints that are list indices / lengths (the names in NAT below) are `nat`, subscripts are `nth_error`; other
    ints are `Z`; `x - y` of two indices is the Z difference.  The only typing hints are NAT and EMPTY (what an empty
    list literal bound to `res` / `C` is a list of); every assignment and use is type-checked against them, a
    mismatch is Unsupported.  Identical loops of two specialisations (other an int / a Polynomial) are emitted once.
  * `while c: body` becomes `Fixpoint f (kv_fuel : nat) <read-only locals> <locals assigned in the body> {struct kv_fuel}`
    = `match kv_fuel with O => None | S kv_fuel => if c then body; f kv_fuel ... else Some <assigned locals>`;
    `for v in range(..)/itertools.product(range(..), range(..))` becomes a Fixpoint over the list of iteration values,
    early `return`s included.
  * in-place updates (`x[0] += e`, `x.append(e)`) are translated as rebinding the local x, which is only sound when x is
    not aliased: they are accepted only on locals bound to a list literal or a `.copy()` and not yet stored anywhere
    else (otherwise Unsupported) - dropping the `ea = ea.copy()` line therefore fails closed.
  * tests decided by the TYPES of a specialisation (`isinstance(other, self.__class__)`,
    `self.__class__ != other.__class__`) are evaluated by the translator and only the live branch is translated.

The subset understood (anything else raises Unsupported => nothing is written, the tie is reported broken):
  statements   x = e | x = y = e | x op= e (+ - *) | x[c] op= e | x.append(e) | if/elif/else | return e |
               while c: ... | for v in range(a[, b]): ... | for u, v in itertools.product(range.., range..): ...
  expressions  int constants, None, names, - e, not e, e1 (+ - *) e2, and/or (short-circuit), e1 if c else e2,
               == != < <= > >= (single), is None / is not None, x[i], x[1:], x.args, len min max bool isinstance(x, str),
               compare(x, y), x.copy(), Polynomial(e) / self.__class__(e), list literals (with *x[1:]), a list
               comprehension over one list, `p == q`, `p + q` on Polynomial objects (calls of the generated methods).
"""
import ast, os, re, sys

ROOT = os.path.dirname(os.path.dirname(os.path.abspath(__file__)))
REPO = os.environ.get('KV_REPO', '/repo')


class Unsupported(Exception):
    pass


# python locals that are list indices / lengths in polynomial.py (typed nat); checked at every assignment
NAT = {'ai', 'bi', 'al', 'bl', 'i', 'j', 'la', 'lb', 'l'}
# what an EMPTY list literal assigned to these locals is a list of (every later use is type-checked against it)
EMPTY = {'res': 'args', 'C': 'mono'}

# translator types -> Gallina types.  'poly' = a Polynomial object, 'args' = its .args list (same Gallina type)
GT = {'nat': 'nat', 'Z': 'Z', 'bool': 'bool', 'pyv': 'pyv', 'opyv': 'option pyv', 'mono': 'gmono',
      'omono': 'option gmono', 'poly': 'gpoly', 'args': 'gpoly'}
OPT_OF = {'pyv': 'opyv', 'mono': 'omono'}
BASE_OF = {'opyv': 'pyv', 'omono': 'mono'}
LISTS = ('mono', 'args')          # types with python list identity (aliasing matters)

PRELUDE = r'''(* GENERATED by tools/translate_poly.py from /repo/kingdon/polynomial.py - do not edit *)
(* Representation: an element of a python monomial is a pyv (an int, or a variable name abstracted to its rank in
   python's string order); a monomial [coeff, 'v1', ...] is a list of them, head = coefficient; Polynomial.args (and a
   Polynomial object: __init__/__len__/__getitem__ are the plain wrappers) is a list of monomials; a value that may be
   None is an option.  Every function returns an option: None = the python raises (IndexError, TypeError) or leaves
   the represented domain or the fuel of a `while` loop ran out.  Indices and lengths are nat, other ints Z. *)
From KV Require Import Model.Util.
Local Open Scope Z_scope.
Inductive pyv := PInt (z : Z) | PStr (r : nat).
Definition gmono := list pyv.
Definition gpoly := list gmono.
(* python `<`, `<=` between two ints or two names (ranks); int vs name: TypeError *)
Definition py_lt (x y : pyv) : option bool :=
  match x, y with PInt a, PInt b => Some (Z.ltb a b) | PStr a, PStr b => Some (Nat.ltb a b) | _, _ => None end.
Definition py_le (x y : pyv) : option bool :=
  match x, y with PInt a, PInt b => Some (Z.leb a b) | PStr a, PStr b => Some (Nat.leb a b) | _, _ => None end.
(* python `==` never raises; an int is never equal to a name *)
Definition py_eqb (x y : pyv) : bool :=
  match x, y with PInt a, PInt b => Z.eqb a b | PStr a, PStr b => Nat.eqb a b | _, _ => false end.
Definition gmono_eqb (a b : gmono) : bool := list_eqb py_eqb a b.
Definition gpoly_eqb (p q : gpoly) : bool := list_eqb gmono_eqb p q.
(* arithmetic is represented on ints only (str + str, str * int exist in python but are outside the domain) *)
Definition py_add (x y : pyv) : option pyv := match x, y with PInt a, PInt b => Some (PInt (a + b)) | _, _ => None end.
Definition py_sub (x y : pyv) : option pyv := match x, y with PInt a, PInt b => Some (PInt (a - b)) | _, _ => None end.
Definition py_mul (x y : pyv) : option pyv := match x, y with PInt a, PInt b => Some (PInt (a * b)) | _, _ => None end.
Definition py_neg (x : pyv) : option pyv := match x with PInt a => Some (PInt (- a)) | PStr _ => None end.
Definition py_truth (x : pyv) : option bool := match x with PInt a => Some (negb (Z.eqb a 0)) | PStr _ => None end.
Definition py_is_str (x : pyv) : bool := match x with PStr _ => true | PInt _ => false end.
(* l[i] = v on a list; None = IndexError *)
Fixpoint upd_nth {A} (i : nat) (v : A) (l : list A) : option (list A) :=
  match l, i with
  | [], _ => None
  | _ :: r, O => Some (v :: r)
  | x :: r, S j => match upd_nth j v r with Some r2 => Some (x :: r2) | None => None end
  end.
(* [f(x) for x in l] where f may raise *)
Fixpoint opt_map {A B} (f : A -> option B) (l : list A) : option (list B) :=
  match l with
  | [] => Some []
  | x :: r => match f x with None => None | Some y => match opt_map f r with None => None | Some r2 => Some (y :: r2) end end
  end.
'''

FRAME = {
    '__init__': "def __init__(self, coeff):\n    if isinstance(coeff, self.__class__):\n        self.args = coeff.args\n"
                "    elif isinstance(coeff, (list, tuple)):\n        self.args = coeff\n"
                "    elif isinstance(coeff, (int, float)):\n        self.args = [[coeff]]\n"
                "    elif isinstance(coeff, str):\n"
                "        self.args = [[1, coeff]] if coeff[0] != '-' else [[-1, coeff[1:]]]",
    '__len__': "def __len__(self):\n    return len(self.args)",
    '__getitem__': "def __getitem__(self, item):\n    return self.args[item]",
    '__radd__': "def __radd__(self, other):\n    return self.__add__(other)",
}


def parse(fn):
    return ast.parse(open(os.path.join(REPO, 'kingdon', fn)).read())


def is_name(n, s=None):
    return isinstance(n, ast.Name) and (s is None or n.id == s)


def strip_doc(body):
    if body and isinstance(body[0], ast.Expr) and isinstance(body[0].value, ast.Constant) and isinstance(body[0].value.value, str):
        return body[1:]
    return body


# ----------------------------------------------------------------------------- terms, environments, context
class T:
    """a translated expression: Gallina text of type GT[ty] when pure, of type option GT[ty] otherwise;
    fresh = the value is a newly created python list (literal or .copy()) nothing else refers to"""
    def __init__(self, text, ty, pure=True, fresh=False):
        self.text, self.ty, self.pure, self.fresh = text, ty, pure, fresh

    def opt(self):
        return self.text if not self.pure else f'(Some {self.text})'


class Env:
    """python locals in scope: name -> [type, fresh]; insertion order = order of definition"""
    def __init__(self, d=None):
        self.d = {k: list(v) for k, v in (d or {}).items()}

    def copy(self):
        return Env(self.d)

    def has(self, n):
        return n in self.d

    def ty(self, n):
        if n not in self.d:
            raise Unsupported(f'local {n} is read before it is (certainly) assigned')
        return self.d[n][0]

    def fresh(self, n):
        return self.d[n][1]

    def set(self, n, ty, fresh=False):
        if n.startswith('kv_') or n.startswith('gen_') or n.startswith('py_'):
            raise Unsupported(f'local name {n} clashes with the generated names')
        if n in NAT and ty != 'nat':
            raise Unsupported(f'{n} is typed as an index (nat) but is assigned a {ty}')
        self.d[n] = [ty, fresh]

    def stale(self, n):
        if n in self.d:
            self.d[n][1] = False

    def names(self):
        return list(self.d)


def renumber(text):
    """number the generated binders kv_<n> of one definition in order of first occurrence"""
    seen = {}
    return re.sub(r'\bkv_(\d+)\b', lambda m: seen.setdefault(m.group(1), f'kv_{len(seen) + 1}'), text)


LOOPS = {}          # canonical text of an emitted loop Fixpoint -> its name


class Cx:
    """one top-level python function being translated"""
    def __init__(self, base, rettype, methods):
        self.base, self.rettype, self.methods = base, rettype, methods
        self.n = 0
        self.defs = []            # auxiliary Fixpoints (loops), in dependency order
        self.fuel = False         # a while loop / a fuelled callee occurs
        self.retfmt = 'Some {}'   # how `return v` is rendered in the definition being emitted
        self.noreturn = None      # set (to a reason) where a `return` cannot be translated
        self.loops, self.names, self.nph = {}, {}, 0

    def fresh(self):
        self.n += 1
        return f'kv_{self.n}'

    def loopname(self, kind):
        """a placeholder for the name of a loop Fixpoint, resolved by emit_loop"""
        self.nph += 1
        return f'\x01{kind}{self.nph}\x01'

    def resolve(self, text):
        for ph, name in self.names.items():
            text = text.replace(ph, name)
        return text

    def emit_loop(self, ph, kind, text):
        """the Fixpoint `text` (its own name written ph) is emitted under a new name - or, when the very same loop
        (same text up to its name) was already emitted for another specialisation, that one is reused"""
        text = renumber(self.resolve(text))
        canon = text.replace(ph, '@')
        if canon in LOOPS:
            self.names[ph] = LOOPS[canon]
            return
        k = self.loops.get(kind, 0)
        self.loops[kind] = k + 1
        name = f'{self.base}_{kind}' + ('' if k == 0 else str(k + 1))
        LOOPS[canon] = name
        self.names[ph] = name
        self.defs.append(text.replace(ph, name))


def bind(t, k, cx):
    """sequence the (possibly raising) computation t before k(value)"""
    if t.pure:
        return k(t)
    v = cx.fresh()
    r = k(T(v, t.ty, True, t.fresh))
    return T(f'(match {t.text} with None => None | Some {v} => {r.opt()} end)', r.ty, False, r.fresh)


def bind_text(t, k, cx):
    """same, k returns Gallina text of type option _"""
    if t.pure:
        return k(t)
    v = cx.fresh()
    return f'(match {t.text} with None => None | Some {v} => {k(T(v, t.ty, True, t.fresh))} end)'


def unwrap(t):
    """use a value that may be None where python needs a non-None one: None raises (TypeError/AttributeError)"""
    if t.ty in BASE_OF:
        if not t.pure:
            raise Unsupported('nested optional computation')
        return T(t.text, BASE_OF[t.ty], False)
    return t


def lift(t, ty):
    """coerce to the optional type ty"""
    if t.ty == ty:
        return t
    if OPT_OF.get(t.ty) == ty:
        if t.pure:
            return T(f'(Some {t.text})', ty)
        # a raising computation of the base type, made a raising computation of the option type
        return T(f'(match {t.text} with None => None | Some kv_x => Some (Some kv_x) end)', ty, False)
    raise Unsupported(f'cannot use a {t.ty} as a {ty}')


# ----------------------------------------------------------------------------- static (type-decided) tests
def static_truth(e, env):
    """True/False when the test is decided by the types of this specialisation, else None"""
    if isinstance(e, ast.UnaryOp) and isinstance(e.op, ast.Not):
        s = static_truth(e.operand, env)
        return None if s is None else not s
    if isinstance(e, ast.Call) and is_name(e.func, 'isinstance') and len(e.args) == 2 and not e.keywords \
            and is_name(e.args[0]) and ast.unparse(e.args[1]) == 'self.__class__' and env.has('self') and env.ty('self') == 'poly':
        t = env.ty(e.args[0].id)
        if t == 'poly':
            return True
        if t == 'Z':
            return False
        raise Unsupported(f'isinstance(<{t}>, self.__class__)')
    if isinstance(e, ast.Compare) and len(e.ops) == 1 and isinstance(e.ops[0], (ast.Eq, ast.NotEq)):
        l, r = ast.unparse(e.left), ast.unparse(e.comparators[0])
        if l.endswith('.__class__') and r.endswith('.__class__') and is_name(e.left.value) and is_name(e.comparators[0].value):
            tl, tr = env.ty(e.left.value.id), env.ty(e.comparators[0].value.id)
            if not {tl, tr} <= {'poly', 'Z'}:
                raise Unsupported(f'class comparison of {tl} and {tr}')
            same = tl == tr
            return same if isinstance(e.ops[0], ast.Eq) else not same
    return None


# ----------------------------------------------------------------------------- expressions
def const_int(e):
    return isinstance(e, ast.Constant) and isinstance(e.value, int) and not isinstance(e.value, bool)


def expr(e, env, cx, want=None):
    """python expression -> T.  `want` guides the typing of constants, None and list literals only."""
    if const_int(e):
        v = e.value
        if want == 'nat':
            if v < 0:
                raise Unsupported('negative index constant')
            return T(f'{v}%nat', 'nat')
        if want in ('pyv', 'opyv'):
            return lift(T(f'(PInt ({v})%Z)', 'pyv'), want)
        return T(f'({v})%Z', 'Z')
    if isinstance(e, ast.Constant) and e.value is None:
        if want not in BASE_OF:
            raise Unsupported('None where the type is not known')
        return T('None', want)
    if isinstance(e, ast.Constant) and isinstance(e.value, bool):
        return T('true' if e.value else 'false', 'bool')
    if isinstance(e, ast.Name):
        if not isinstance(e.ctx, ast.Load):
            raise Unsupported('name context')
        return T(e.id, env.ty(e.id), True, env.fresh(e.id))
    if isinstance(e, ast.UnaryOp) and isinstance(e.op, ast.USub):
        if const_int(e.operand) and want == 'nat':
            raise Unsupported('negative index constant')
        t = expr(e.operand, env, cx, want)
        if t.ty == 'Z':
            return bind(t, lambda x: T(f'(Z.opp {x.text})', 'Z'), cx)
        if t.ty in ('pyv', 'opyv'):
            return bind(unwrap(t), lambda x: T(f'(py_neg {x.text})', 'pyv', False), cx)
        raise Unsupported(f'unary minus on a {t.ty}')
    if isinstance(e, ast.UnaryOp) and isinstance(e.op, ast.Not):
        return bind(truth(e.operand, env, cx), lambda x: T(f'(negb {x.text})', 'bool'), cx)
    if isinstance(e, ast.BinOp):
        return binop(e.left, e.op, e.right, env, cx)
    if isinstance(e, ast.BoolOp):
        ts = [truth(v, env, cx) for v in e.values]
        isand = isinstance(e.op, ast.And)
        if all(t.pure for t in ts):
            out = ts[0].text
            for t in ts[1:]:
                out = f'({"andb" if isand else "orb"} {out} {t.text})'
            return T(out, 'bool')
        # short circuit: later operands are evaluated (and may raise) only when needed
        out = ts[-1]
        for t in reversed(ts[:-1]):
            nxt = out
            if isand:
                out = bind(t, lambda x, nxt=nxt: T(f'(if {x.text} then {nxt.opt()} else Some false)', 'bool', False), cx)
            else:
                out = bind(t, lambda x, nxt=nxt: T(f'(if {x.text} then Some true else {nxt.opt()})', 'bool', False), cx)
        return out
    if isinstance(e, ast.IfExp):
        a = expr(e.body, env, cx, want)
        b = expr(e.orelse, env, cx, OPT_OF.get(a.ty, a.ty) if (isinstance(e.orelse, ast.Constant) and e.orelse.value is None) else a.ty)
        if a.ty != b.ty:
            a = lift(a, b.ty) if b.ty in BASE_OF else a
            b = lift(b, a.ty) if a.ty in BASE_OF else b
        if a.ty != b.ty:
            raise Unsupported(f'conditional expression of a {a.ty} and a {b.ty}')
        c = truth(e.test, env, cx)
        if a.pure and b.pure:
            return bind(c, lambda x: T(f'(if {x.text} then {a.text} else {b.text})', a.ty), cx)
        return bind(c, lambda x: T(f'(if {x.text} then {a.opt()} else {b.opt()})', a.ty, False), cx)
    if isinstance(e, ast.Compare):
        if len(e.ops) != 1:
            raise Unsupported('chained comparison')
        return compare_expr(e.left, e.ops[0], e.comparators[0], env, cx)
    if isinstance(e, ast.Subscript):
        if not isinstance(e.ctx, ast.Load):
            raise Unsupported('subscript context')
        base = expr(e.value, env, cx)
        if isinstance(e.slice, ast.Slice):
            s = e.slice
            if not (const_int(s.lower) and s.lower.value >= 0 and s.upper is None and s.step is None):
                raise Unsupported('slice ' + ast.unparse(e))
            return bind(unwrap(base), lambda x: T(f'(skipn {s.lower.value} {x.text})', need_list(x.ty), True, True), cx)
        idx = expr(e.slice, env, cx, 'nat')
        if idx.ty != 'nat':
            raise Unsupported(f'subscript by a {idx.ty}: ' + ast.unparse(e))

        def sub(x):
            elt = {'mono': 'pyv', 'args': 'mono', 'poly': 'mono'}.get(x.ty)     # poly: Polynomial.__getitem__
            if elt is None:
                raise Unsupported(f'subscript of a {x.ty}')
            return bind(idx, lambda i: T(f'(nth_error {x.text} {i.text})', elt, False), cx)
        return bind(unwrap(base), sub, cx)
    if isinstance(e, ast.Attribute):
        if e.attr == 'args' and is_name(e.value) and env.ty(e.value.id) == 'poly':
            return T(e.value.id, 'args')
        raise Unsupported('attribute ' + ast.unparse(e))
    if isinstance(e, ast.List):
        return list_literal(e, env, cx, want)
    if isinstance(e, ast.ListComp):
        if len(e.generators) != 1 or e.generators[0].ifs or e.generators[0].is_async or not is_name(e.generators[0].target):
            raise Unsupported('comprehension ' + ast.unparse(e))
        g = e.generators[0]
        src = expr(g.iter, env, cx)
        elt = {'args': 'mono', 'mono': 'pyv'}.get(src.ty)
        if elt is None:
            raise Unsupported(f'comprehension over a {src.ty}')
        v = g.target.id
        env2 = env.copy(); env2.set(v, elt)
        body = expr(e.elt, env2, cx, elt)
        if body.ty != elt:
            raise Unsupported(f'comprehension turns a list of {elt} into a list of {body.ty}')
        return bind(src, lambda s: T(f'(opt_map (fun {v} => {body.opt()}) {s.text})', src.ty, False, True), cx)
    if isinstance(e, ast.Call):
        return call(e, env, cx, want)
    raise Unsupported('expression ' + ast.dump(e))


def need_list(ty):
    if ty not in LISTS:
        raise Unsupported(f'slice of a {ty}')
    return ty


def list_literal(e, env, cx, want):
    if want in ('args', 'poly'):
        eltty = 'mono'
    elif want == 'mono':
        eltty = 'pyv'
    elif want is None and e.elts and all(isinstance(x, ast.List) for x in e.elts):
        eltty = 'mono'
    elif want is None and e.elts and any(const_int(x) for x in e.elts):
        eltty = 'pyv'
    elif want is None and e.elts:
        eltty = None
    else:
        raise Unsupported('list literal where the type is not known: ' + ast.unparse(e))
    # segments: single elements and *x[1:]
    parts = []        # ('elt', T) | ('star', T)
    for x in e.elts:
        if isinstance(x, ast.Starred):
            t = expr(x.value, env, cx)
            parts.append(('star', t))
        else:
            t = expr(x, env, cx, eltty)
            if is_name(x) and t.ty in LISTS:
                env.stale(x.id)                       # the element list is now shared with the new list
            parts.append(('elt', t))
    if eltty is None:
        tys = {t.ty if k == 'elt' else {'mono': 'pyv', 'args': 'mono'}.get(t.ty) for k, t in parts}
        if len(tys) != 1 or next(iter(tys)) not in ('pyv', 'mono'):
            raise Unsupported('heterogeneous list literal ' + ast.unparse(e))
        eltty = next(iter(tys))
    lty = {'pyv': 'mono', 'mono': 'args'}[eltty]
    for k, t in parts:
        if (k == 'elt' and t.ty != eltty) or (k == 'star' and t.ty != lty):
            raise Unsupported(f'list literal {ast.unparse(e)}: a {t.ty} in a list of {eltty}')

    def build(i, acc):
        if i == len(parts):
            segs, cur = [], []
            for k, txt in acc:
                if k == 'elt':
                    cur.append(txt)
                else:
                    if cur:
                        segs.append('[' + '; '.join(cur) + ']'); cur = []
                    segs.append(txt)
            if cur or not segs:
                segs.append('[' + '; '.join(cur) + ']')
            text = segs[0] if len(segs) == 1 else '(' + ' ++ '.join(segs) + ')'
            return T(f'({text} : {GT[lty]})' if text == '[]' else text, lty, True, True)
        k, t = parts[i]
        return bind(t, lambda x: build(i + 1, acc + [(k, x.text)]), cx)
    return build(0, [])


ARITH = {ast.Add: 'add', ast.Sub: 'sub', ast.Mult: 'mul'}


def binop(le, op, re_, env, cx):
    if type(op) not in ARITH:
        raise Unsupported('operator ' + ast.dump(op))
    o = ARITH[type(op)]
    a = expr(le, env, cx)
    b = expr(re_, env, cx, a.ty if const_int(re_) else None)
    if const_int(le) and not const_int(re_):
        a = expr(le, env, cx, b.ty)
    if a.ty == 'poly' and b.ty == 'poly' and o == 'add':          # Polynomial.__add__(a, b)
        return method_call('__add__', a, b, cx)
    if a.ty == 'nat' and b.ty == 'nat' and o != 'sub':
        return bind(a, lambda x: bind(b, lambda y: T(f'(Nat.{o} {x.text} {y.text})', 'nat'), cx), cx)
    if a.ty in ('nat', 'Z') and b.ty in ('nat', 'Z'):
        z = lambda t: t.text if t.ty == 'Z' else f'(Z.of_nat {t.text})'
        return bind(a, lambda x: bind(b, lambda y: T(f'(Z.{o} {z(x)} {z(y)})', 'Z'), cx), cx)
    if a.ty in ('pyv', 'opyv') and b.ty in ('pyv', 'opyv'):
        return bind(unwrap(a), lambda x: bind(unwrap(b), lambda y: T(f'(py_{o} {x.text} {y.text})', 'pyv', False), cx), cx)
    raise Unsupported(f'{a.ty} {o} {b.ty}')


def method_call(m, a, b, cx):
    key = (m, 'int' if b.ty == 'Z' else b.ty)
    if key not in cx.methods:
        raise Unsupported(f'Polynomial.{m} with a {b.ty} operand is not translated (yet) at this point')
    name, rty, fuel = cx.methods[key]
    if fuel:
        cx.fuel = True
    f = f'{name} kv_fuel' if fuel else name
    return bind(a, lambda x: bind(b, lambda y: T(f'({f} {x.text} {y.text})', rty, False), cx), cx)


def compare_expr(le, op, re_, env, cx):
    # x is None / x is not None
    if isinstance(op, (ast.Is, ast.IsNot)):
        if not (isinstance(re_, ast.Constant) and re_.value is None):
            raise Unsupported('`is` with something else than None')
        a = expr(le, env, cx)
        neg = isinstance(op, ast.IsNot)
        if a.ty in BASE_OF:
            yes, no = ('false', 'true') if neg else ('true', 'false')
            return bind(a, lambda x: T(f'(match {x.text} with None => {yes} | Some _ => {no} end)', 'bool'), cx)
        return bind(a, lambda x: T('true' if neg else 'false', 'bool'), cx)
    a = expr(le, env, cx)
    b = expr(re_, env, cx, a.ty if (const_int(re_) or isinstance(re_, ast.List)) else None)
    if const_int(le) and not const_int(re_):
        a = expr(le, env, cx, b.ty)
    if isinstance(op, (ast.Eq, ast.NotEq)):
        wrap = (lambda s: f'(negb {s})') if isinstance(op, ast.NotEq) else (lambda s: s)
        if a.ty == 'poly' and b.ty in ('poly', 'Z'):                   # Polynomial.__eq__(a, b)
            if isinstance(op, ast.NotEq):
                raise Unsupported('!= on Polynomial objects')
            return method_call('__eq__', a, b, cx)
        if a.ty == 'Z' and b.ty == 'poly':
            raise Unsupported('int == Polynomial (reflected __eq__)')
        eqs = {('nat', 'nat'): 'Nat.eqb', ('Z', 'Z'): 'Z.eqb', ('pyv', 'pyv'): 'py_eqb', ('args', 'args'): 'gpoly_eqb',
               ('mono', 'mono'): 'gmono_eqb', ('bool', 'bool'): 'Bool.eqb'}
        if (a.ty, b.ty) not in eqs:
            raise Unsupported(f'{a.ty} == {b.ty}')
        f = eqs[(a.ty, b.ty)]
        return bind(a, lambda x: bind(b, lambda y: T(wrap(f'({f} {x.text} {y.text})'), 'bool'), cx), cx)
    rel = {ast.Lt: ('ltb', False), ast.LtE: ('leb', False), ast.Gt: ('ltb', True), ast.GtE: ('leb', True)}
    if type(op) not in rel:
        raise Unsupported('comparison ' + ast.dump(op))
    f, swap = rel[type(op)]
    if a.ty == 'nat' and b.ty == 'nat':
        mk = lambda x, y: T(f'(Nat.{f} {y.text} {x.text})' if swap else f'(Nat.{f} {x.text} {y.text})', 'bool')
    elif a.ty in ('nat', 'Z') and b.ty in ('nat', 'Z'):
        z = lambda t: t.text if t.ty == 'Z' else f'(Z.of_nat {t.text})'
        mk = lambda x, y: T(f'(Z.{f} {z(y)} {z(x)})' if swap else f'(Z.{f} {z(x)} {z(y)})', 'bool')
    elif a.ty in ('pyv', 'opyv') and b.ty in ('pyv', 'opyv'):
        g = {'ltb': 'py_lt', 'leb': 'py_le'}[f]
        a, b = unwrap(a), unwrap(b)
        mk = lambda x, y: T(f'({g} {y.text} {x.text})' if swap else f'({g} {x.text} {y.text})', 'bool', False)
    else:
        raise Unsupported(f'{a.ty} < {b.ty}')
    return bind(a, lambda x: bind(b, lambda y: mk(x, y), cx), cx)


def truth(e, env, cx):
    """python truthiness of e -> T of type bool"""
    t = expr(e, env, cx)
    if t.ty == 'bool':
        return t
    if t.ty == 'nat':
        return bind(t, lambda x: T(f'(negb (Nat.eqb {x.text} 0%nat))', 'bool'), cx)
    if t.ty == 'Z':
        return bind(t, lambda x: T(f'(negb (Z.eqb {x.text} 0%Z))', 'bool'), cx)
    if t.ty in ('mono', 'args'):
        return bind(t, lambda x: T(f'(match {x.text} with [] => false | _ :: _ => true end)', 'bool'), cx)
    if t.ty == 'pyv':
        return bind(t, lambda x: T(f'(py_truth {x.text})', 'bool', False), cx)
    raise Unsupported(f'truthiness of a {t.ty}: ' + ast.unparse(e))


def call(e, env, cx, want):
    if e.keywords:
        raise Unsupported('keyword arguments ' + ast.unparse(e))
    f, args = e.func, e.args
    if is_name(f, 'len') and len(args) == 1:
        a = unwrap(expr(args[0], env, cx))
        if a.ty not in ('mono', 'args', 'poly'):                      # poly: Polynomial.__len__
            raise Unsupported(f'len of a {a.ty}')
        return bind(a, lambda x: T(f'(length {x.text})', 'nat'), cx)
    if is_name(f) and f.id in ('min', 'max') and len(args) == 2:
        a, b = expr(args[0], env, cx), expr(args[1], env, cx)
        if a.ty == b.ty and a.ty in ('nat', 'Z'):
            mod = 'Nat' if a.ty == 'nat' else 'Z'
            return bind(a, lambda x: bind(b, lambda y: T(f'({mod}.{f.id} {x.text} {y.text})', a.ty), cx), cx)
        raise Unsupported(f'{f.id} of a {a.ty} and a {b.ty}')
    if is_name(f, 'bool') and len(args) == 1:
        return truth(args[0], env, cx)
    if is_name(f, 'isinstance') and len(args) == 2 and is_name(args[1], 'str'):
        a = expr(args[0], env, cx)
        if a.ty == 'pyv':
            return bind(a, lambda x: T(f'(py_is_str {x.text})', 'bool'), cx)
        if a.ty == 'opyv':     # isinstance(None, str) is False
            return bind(a, lambda x: T(f'(match {x.text} with Some kv_x => py_is_str kv_x | None => false end)', 'bool'), cx)
        raise Unsupported(f'isinstance(<{a.ty}>, str)')
    if is_name(f, 'compare') and len(args) == 2:
        if ('compare', '') not in cx.methods:
            raise Unsupported('compare is not translated at this point')
        a = lift(expr(args[0], env, cx, 'omono'), 'omono')
        b = lift(expr(args[1], env, cx, 'omono'), 'omono')
        return bind(a, lambda x: bind(b, lambda y: T(f'(gen_compare {x.text} {y.text})', 'Z', False), cx), cx)
    if isinstance(f, ast.Attribute) and f.attr == 'copy' and not args:
        a = unwrap(expr(f.value, env, cx))
        if a.ty not in LISTS:
            raise Unsupported(f'.copy() of a {a.ty}')
        return bind(a, lambda x: T(x.text, x.ty, True, True), cx)
    # Polynomial(e), self.__class__(e) (self a Polynomial): __init__ is pattern-checked; a Polynomial / list argument
    # gives the object with these args (no copy), an int c gives [[c]]
    if (is_name(f, 'Polynomial') or (ast.unparse(f) == 'self.__class__' and env.ty('self') == 'poly')) and len(args) == 1:
        a = expr(args[0], env, cx, 'args')
        if a.ty in ('args', 'poly'):
            if is_name(args[0]):
                env.stale(args[0].id)                 # the list is now the .args of the new object
            return bind(a, lambda x: T(x.text, 'poly'), cx)
        if a.ty == 'Z':
            return bind(a, lambda x: T(f'[[PInt {x.text}]]', 'poly'), cx)
        raise Unsupported(f'Polynomial(<{a.ty}>)')
    raise Unsupported('call ' + ast.unparse(e))


# ----------------------------------------------------------------------------- statements
def assigned_names(body):
    """python locals (re)bound or updated in place somewhere in the statement list, in order of occurrence"""
    out = []

    def add(n):
        if n not in out:
            out.append(n)

    def target(t):
        if isinstance(t, ast.Name):
            add(t.id)
        elif isinstance(t, ast.Subscript) and is_name(t.value):
            add(t.value.id)
        elif isinstance(t, (ast.Tuple, ast.List)):
            for x in t.elts:
                target(x)
        else:
            raise Unsupported('assignment target ' + ast.unparse(t))
    for s in body:
        for n in ast.walk(s):
            if isinstance(n, ast.Assign):
                for t in n.targets:
                    target(t)
            elif isinstance(n, (ast.AugAssign, ast.AnnAssign, ast.For)):
                target(n.target)
            elif isinstance(n, ast.NamedExpr):
                raise Unsupported('walrus')
            elif isinstance(n, (ast.With, ast.Try, ast.Delete, ast.Global, ast.Nonlocal, ast.FunctionDef, ast.Lambda, ast.ClassDef, ast.Import, ast.ImportFrom)):
                raise Unsupported('statement kind ' + type(n).__name__)
            elif isinstance(n, ast.Call) and isinstance(n.func, ast.Attribute) and is_name(n.func.value) \
                    and n.func.attr not in ('copy', '__class__', '__add__'):
                add(n.func.value.id)          # a method call on a local may update it in place
    return out


def mentioned_names(nodes):
    out = set()
    for s in nodes:
        for n in ast.walk(s):
            if isinstance(n, ast.Name):
                out.add(n.id)
    return out


def has_return(body):
    return any(isinstance(n, ast.Return) for s in body for n in ast.walk(s))


def tuple_of(names):
    return names[0] if len(names) == 1 else '(' + ', '.join(names) + ')'


def tuple_type(names, env):
    return ' * '.join(GT[env.ty(n)] for n in names)


def binders(names, env):
    return ''.join(f' ({n} : {GT[env.ty(n)]})' for n in names)


def stmts(ss, env, cx, k, ind):
    """translate the statement list ss; k(env) = Gallina text (an option) for what follows when control falls off its end"""
    if not ss:
        return k(env)
    s, tail = ss[0], ss[1:]
    nl = '\n' + ' ' * ind
    rest = lambda env2: stmts(tail, env2, cx, k, ind)

    if isinstance(s, ast.Return):
        if cx.noreturn:
            raise Unsupported('return ' + cx.noreturn)
        if s.value is None:
            raise Unsupported('bare return')
        t = expr(s.value, env, cx, cx.rettype)
        if t.ty != cx.rettype:
            raise Unsupported(f'returns a {t.ty}, expected a {cx.rettype}: ' + ast.unparse(s))
        return nl + bind_text(t, lambda x: cx.retfmt.format(x.text), cx)       # statements after a return are dead

    if isinstance(s, ast.Assign):
        if not all(isinstance(t, ast.Name) for t in s.targets):
            raise Unsupported('assignment ' + ast.unparse(s))
        names = [t.id for t in s.targets]
        want = 'nat' if names[0] in NAT else (env.ty(names[0]) if env.has(names[0]) else None)
        if isinstance(s.value, ast.List) and not s.value.elts:
            want = EMPTY.get(names[0])
        t = expr(s.value, env, cx, want)
        if t.ty in LISTS + ('poly',) and len(names) > 1:
            raise Unsupported('one list bound to several names')
        if is_name(s.value) and t.ty in LISTS:
            raise Unsupported('a second name for a list: ' + ast.unparse(s))

        def go(x):
            out = ''
            for n in names:
                env.set(n, x.ty, x.fresh)
                if x.text != n:
                    out += nl + f'let {n} := {x.text} in'
            return out + rest(env)
        return bind_text(t, go, cx) if t.pure else nl + bind_text(t, go, cx)

    if isinstance(s, ast.AugAssign):
        if type(s.op) not in ARITH:
            raise Unsupported('augmented assignment ' + ast.unparse(s))
        tg = s.target
        if isinstance(tg, ast.Name):
            if env.ty(tg.id) in LISTS + ('poly',):
                raise Unsupported('augmented assignment to a list ' + ast.unparse(s))
            t = binop(ast.Name(tg.id, ast.Load()), s.op, s.value, env, cx)
            if t.ty != env.ty(tg.id):
                raise Unsupported(f'{ast.unparse(s)} changes the type of {tg.id} to {t.ty}')
            return nl + bind_text(t, lambda x: f'let {tg.id} := {x.text} in' + rest(env), cx)
        if isinstance(tg, ast.Subscript) and is_name(tg.value) and const_int(tg.slice) and tg.slice.value >= 0:
            l, i = tg.value.id, tg.slice.value
            if env.ty(l) != 'mono':
                raise Unsupported(f'in-place update of a {env.ty(l)}: ' + ast.unparse(s))
            if not env.fresh(l):
                raise Unsupported(f'in-place update of the possibly shared list {l}: ' + ast.unparse(s))
            old = ast.Subscript(ast.Name(l, ast.Load()), ast.Constant(i), ast.Load())
            t = binop(old, s.op, s.value, env, cx)
            upd = bind(t, lambda x: T(f'(upd_nth {i}%nat {x.text} {l})', 'mono', False, True), cx)
            return nl + bind_text(upd, lambda x: f'let {l} := {x.text} in' + rest(env), cx)
        raise Unsupported('augmented assignment ' + ast.unparse(s))

    if isinstance(s, ast.Expr):
        c = s.value
        if isinstance(c, ast.Call) and isinstance(c.func, ast.Attribute) and c.func.attr == 'append' and is_name(c.func.value) \
                and len(c.args) == 1 and not c.keywords:
            l = c.func.value.id
            lty = env.ty(l)
            if lty not in LISTS:
                raise Unsupported(f'append to a {lty}')
            if not env.fresh(l):
                raise Unsupported(f'in-place append to the possibly shared list {l}')
            eltty = {'mono': 'pyv', 'args': 'mono'}[lty]
            t = unwrap(expr(c.args[0], env, cx, eltty))       # None cannot be stored in the represented lists
            if t.ty != eltty:
                raise Unsupported(f'append of a {t.ty} to a {lty}')
            if is_name(c.args[0]):
                env.stale(c.args[0].id)                       # the element is now shared with the list
            return nl + bind_text(t, lambda x: f'let {l} := {l} ++ [{x.text}] in' + rest(env), cx)
        raise Unsupported('expression statement ' + ast.unparse(s))

    if isinstance(s, ast.If):
        st = static_truth(s.test, env)
        if st is True:
            return stmts(s.body + tail, env, cx, k, ind)
        if st is False:
            return stmts(s.orelse + tail, env, cx, k, ind)
        c = truth(s.test, env, cx)
        return nl + bind_text(c, lambda x: f'if {x.text} then (' + stmts(s.body + tail, env.copy(), cx, k, ind + 2) + ')' + nl
                              + 'else (' + stmts(s.orelse + tail, env.copy(), cx, k, ind + 2) + ')', cx)

    if isinstance(s, ast.While):
        return tr_while(s, tail, env, cx, k, ind)
    if isinstance(s, ast.For):
        return tr_for(s, tail, env, cx, k, ind)
    raise Unsupported('statement ' + ast.unparse(s))


def loop_frame(s, header_nodes, env, cx):
    """-> (state, params): the locals defined before the loop that its body assigns / only reads"""
    if s.orelse:
        raise Unsupported('loop with else')
    for n in ast.walk(ast.Module(s.body, [])):
        if isinstance(n, (ast.Break, ast.Continue)):
            raise Unsupported('break/continue')
    asg = assigned_names(s.body)
    state = [v for v in env.names() if v in asg]
    used = mentioned_names(header_nodes + s.body)
    params = [v for v in env.names() if v in used and v not in state]
    return state, params


def check_state(state, env0, env2, what):
    for v in state:
        if env2.ty(v) != env0.ty(v):
            raise Unsupported(f'{what}: the type of {v} changes from {env0.ty(v)} to {env2.ty(v)} in the loop body')
        if env0.fresh(v) and not env2.fresh(v):
            raise Unsupported(f'{what}: the list {v} becomes shared in the loop body')


def tr_while(s, tail, env, cx, k, ind):
    state, params = loop_frame(s, [s.test], env, cx)
    if not state:
        raise Unsupported('while loop that assigns nothing')
    name = cx.loopname('while')
    cx.fuel = True
    env0 = env.copy()
    call_ = f'{name} kv_fuel' + ''.join(' ' + p for p in params + state)

    def back(env2):
        check_state(state, env0, env2, name)
        return '\n' + ' ' * 6 + call_
    saved, cx.noreturn = cx.noreturn, 'inside a while loop'
    savedfmt = cx.retfmt
    body = stmts(s.body, env0.copy(), cx, back, 6)
    cond = truth(s.test, env0, cx)
    cx.noreturn, cx.retfmt = saved, savedfmt
    text = bind_text(cond, lambda c: f'if {c.text} then (' + body + ')\n    else Some ' + tuple_of(state), cx)
    cx.emit_loop(name, 'while', f'(* {ast.unparse(s).splitlines()[0]} *)\n'
                   f'Fixpoint {name} (kv_fuel : nat){binders(params, env0)}{binders(state, env0)} {{struct kv_fuel}} '
                   f': option ({tuple_type(state, env0)}) :=\n'
                   f'  match kv_fuel with\n  | O => None\n  | S kv_fuel =>\n    {text}\n  end.\n')
    nl = '\n' + ' ' * ind
    env_after = env0.copy()
    return nl + f'match {call_} with None => None | Some {tuple_of(state)} =>' + stmts(tail, env_after, cx, k, ind) + ' end'


def range_term(e, env, cx):
    """range(b) / range(a, b) -> pure Gallina list of nat"""
    if not (isinstance(e, ast.Call) and is_name(e.func, 'range') and not e.keywords and len(e.args) in (1, 2)):
        raise Unsupported('iteration over ' + ast.unparse(e))
    ts = [expr(a, env, cx, 'nat') for a in e.args]
    if not all(t.ty == 'nat' and t.pure for t in ts):
        raise Unsupported('range bounds ' + ast.unparse(e))
    if len(ts) == 1:
        return f'(seq 0%nat {ts[0].text})'
    return f'(seq {ts[0].text} ({ts[1].text} - {ts[0].text})%nat)'


def tr_for(s, tail, env, cx, k, ind):
    # the iteration values
    if isinstance(s.target, ast.Name):
        rng, pat, vars_, rty = range_term(s.iter, env, cx), s.target.id, [s.target.id], 'nat'
    elif isinstance(s.target, ast.Tuple) and len(s.target.elts) == 2 and all(isinstance(x, ast.Name) for x in s.target.elts) \
            and isinstance(s.iter, ast.Call) and ast.unparse(s.iter.func) in ('itertools.product', 'product') \
            and len(s.iter.args) == 2 and not s.iter.keywords:
        r1, r2 = range_term(s.iter.args[0], env, cx), range_term(s.iter.args[1], env, cx)
        vars_ = [x.id for x in s.target.elts]
        rng, pat, rty = f'(list_prod {r1} {r2})', f'({vars_[0]}, {vars_[1]})', 'nat * nat'
    else:
        raise Unsupported('for loop header ' + ast.unparse(s).splitlines()[0])
    if len(set(vars_)) != len(vars_):
        raise Unsupported('repeated loop variable')
    state, params = loop_frame(s, [], env, cx)
    if set(vars_) & set(assigned_names(s.body)) or set(vars_) & set(env.names()):
        raise Unsupported('loop variable assigned in the body or defined before the loop')
    returns = has_return(s.body)
    if returns and state:
        raise Unsupported('for loop with both early returns and assigned locals')
    name = cx.loopname('for')
    env0 = env.copy()
    envb = env0.copy()
    for v in vars_:
        envb.set(v, 'nat')
    fuel_before = cx.fuel
    cx.fuel = False
    pre = ''.join(' ' + p for p in params)
    post = ''.join(' ' + p for p in state)
    FUEL = '\x00FUEL\x00'                      # whether the loop needs fuel is known only after its body is translated

    def back(env2):
        check_state(state, env0, env2, name)
        return '\n' + ' ' * 6 + f'{name}{FUEL}{pre} kv_range{post}'
    savedfmt, savedno = cx.retfmt, cx.noreturn
    if returns:
        if cx.noreturn:
            raise Unsupported('return ' + cx.noreturn)
        cx.retfmt = 'Some (Some {})'
    body = stmts(s.body, envb, cx, back, 6)
    cx.retfmt, cx.noreturn = savedfmt, savedno
    uses_fuel = cx.fuel
    cx.fuel = fuel_before or uses_fuel
    body = body.replace(FUEL, ' kv_fuel' if uses_fuel else '')
    if returns:
        rett, done = f'(option {GT[cx.rettype]})', 'Some None'
    else:
        rett, done = f'({tuple_type(state, env0)})', 'Some ' + tuple_of(state)
    cx.emit_loop(name, 'for', f'(* {ast.unparse(s).splitlines()[0]} *)\n'
                   f'Fixpoint {name}{" (kv_fuel : nat)" if uses_fuel else ""}{binders(params, env0)} (kv_range : list ({rty}))'
                   f'{binders(state, env0)} {{struct kv_range}} : option {rett} :=\n'
                   f'  match kv_range with\n  | [] => {done}\n  | {pat} :: kv_range => {body}\n  end.\n')
    nl = '\n' + ' ' * ind
    call_ = f'{name}{" kv_fuel" if uses_fuel else ""}{pre} {rng}{post}'
    if returns:
        v = cx.fresh()
        return (nl + f'match {call_} with None => None | Some (Some {v}) => {cx.retfmt.format(v)} | Some None =>'
                + stmts(tail, env0.copy(), cx, k, ind) + ' end')
    return nl + f'match {call_} with None => None | Some {tuple_of(state)} =>' + stmts(tail, env0.copy(), cx, k, ind) + ' end'


# ----------------------------------------------------------------------------- functions
def tr_function(fn, gname, argtypes, rettype, methods):
    """python FunctionDef -> Gallina text (auxiliary loop Fixpoints + Definition gname); -> (text, uses_fuel)"""
    a = fn.args
    if a.vararg or a.kwarg or a.kwonlyargs or a.posonlyargs or a.defaults or a.kw_defaults:
        raise Unsupported(f'{fn.name}: signature')
    if [x.arg for x in a.args] != [n for n, _ in argtypes]:
        raise Unsupported(f'{fn.name}: arguments {[x.arg for x in a.args]}')
    if fn.decorator_list:
        raise Unsupported(f'{fn.name}: decorated')
    cx = Cx(gname, rettype, methods)
    env = Env()
    for n, t in argtypes:
        env.set(n, t)

    def off_end(env2):
        raise Unsupported(f'{fn.name}: control can fall off the end (returns None)')
    try:
        body = stmts(strip_doc(fn.body), env, cx, off_end, 2)
    except Unsupported as e:
        raise Unsupported(f'{fn.name} -> {gname}: {e}')
    body = renumber(cx.resolve(body))
    text = ''.join(cx.defs)
    text += (f'Definition {gname}{" (kv_fuel : nat)" if cx.fuel else ""}{binders([n for n, _ in argtypes], env_types(argtypes))}'
             f' : option {GT[rettype]} :={body}.\n')
    return text, cx.fuel


def env_types(argtypes):
    e = Env()
    for n, t in argtypes:
        e.d[n] = [t, False]
    return e


def fn_source(fn):
    body = strip_doc(list(fn.body)) or [ast.Pass()]
    clone = ast.FunctionDef(name=fn.name, args=fn.args, body=body, decorator_list=fn.decorator_list, returns=None,
                            type_comment=None, lineno=0, col_offset=0, type_params=[])
    return ast.unparse(ast.fix_missing_locations(clone))


def generate():
    LOOPS.clear()
    mod = parse('polynomial.py')
    funcs = {}
    for n in mod.body:
        if isinstance(n, ast.FunctionDef):
            funcs[n.name] = n                       # a later definition wins, as in the module
    classes = [n for n in mod.body if isinstance(n, ast.ClassDef) and n.name == 'Polynomial']
    if len(classes) != 1:
        raise Unsupported('class Polynomial')
    cls = classes[0]
    if cls.bases or cls.keywords:
        raise Unsupported('Polynomial has base classes')
    meth, assigns = {}, {}
    for st in cls.body:
        if isinstance(st, ast.FunctionDef):
            meth[st.name] = st
            assigns.pop(st.name, None)
        elif isinstance(st, ast.Assign):
            for t in st.targets:
                if isinstance(t, ast.Name):
                    assigns[t.id] = ast.unparse(st.value)
                    meth.pop(t.id, None)
    # frame: the wrappers the representation relies on
    for name, want in FRAME.items():
        if name not in meth or fn_source(meth[name]) != want:
            raise Unsupported(f'Polynomial.{name} is not the expected wrapper: ' + (fn_source(meth[name]) if name in meth else 'missing'))
    if assigns.get('__rmul__') != '__mul__':
        raise Unsupported('`__rmul__ = __mul__` missing')
    for special in ('__getattr__', '__getattribute__', '__iter__', '__ne__', '__hash__', '__iadd__', '__imul__', '__copy__'):
        if special in meth or special in assigns:
            raise Unsupported(f'Polynomial defines {special}')

    methods = {}
    out = [PRELUDE]

    def emit(fn, gname, argtypes, rettype, key):
        text, fuel = tr_function(fn, gname, argtypes, rettype, methods)
        out.append(text)
        methods[key] = (gname, rettype, fuel)

    emit(funcs['compare'], 'gen_compare', [('a', 'omono'), ('b', 'omono')], 'Z', ('compare', ''))
    emit(meth['__eq__'], 'gen_eq_int', [('self', 'poly'), ('other', 'Z')], 'bool', ('__eq__', 'int'))
    emit(meth['__eq__'], 'gen_eq', [('self', 'poly'), ('other', 'poly')], 'bool', ('__eq__', 'poly'))
    emit(meth['__bool__'], 'gen_bool', [('self', 'poly')], 'bool', ('__bool__', ''))
    emit(meth['__neg__'], 'gen_neg', [('self', 'poly')], 'poly', ('__neg__', ''))
    emit(meth['__add__'], 'gen_add', [('self', 'poly'), ('other', 'poly')], 'poly', ('__add__', 'poly'))
    emit(meth['__add__'], 'gen_add_int', [('self', 'poly'), ('other', 'Z')], 'poly', ('__add__', 'int'))
    emit(meth['__mul__'], 'gen_mul', [('self', 'poly'), ('other', 'poly')], 'poly', ('__mul__', 'poly'))
    emit(meth['__mul__'], 'gen_mul_int', [('self', 'poly'), ('other', 'Z')], 'poly', ('__mul__', 'int'))
    return ''.join(out)


if __name__ == '__main__':
    try:
        print(generate())
    except (Unsupported, KeyError, IndexError, AttributeError) as e:
        print(f'TRANSLATOR-FAIL-CLOSED {type(e).__name__}: {e}')
        sys.exit(1)
