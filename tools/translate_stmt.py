#!/venv/bin/python
"""Statement back end of the fail-closed python-ast -> Gallina translator (DESIGN 2.2).

Translates, from the CURRENT /repo source, the list/dict-manipulating kernels whose loop structure matters:

  algebra.py    _swap_blades                      -> Gen/Kernels.v  gen_swap_blades
  algebra.py    Algebra._prepare_signs._compute_sign -> gen_compute_sign (on names, metric lookup a parameter)
  codegen.py    codegen_product                   -> gen_product_step / gen_codegen_product
  codegen.py    codegen_add, codegen_sub, codegen_neg -> gen_add_step, gen_sub_step, gen_neg_val

The subset understood (anything else raises Unsupported => nothing is written, the tie is reported broken):
  x = e | x += e | x *= e | l.append(e) | l.remove(e) | idx = l.index(e) | l.insert(i, l.pop(j)) |
  if c [not] in l: ...; continue | if k in d: d[k] += t / d[k] = d[k] + t  else: d[k] = t |
  for v in seq | for i, v in enumerate(seq) | for (a, b), (c, d) in product(x.items(), y.items()) |
  if <name>: (truthiness of a string/list) | return tuple
Mutable locals are threaded as an explicit state tuple; `list.index/remove/pop` failures (ValueError,
IndexError) are the `None` of an option monad.  Python ints are Z, indices nat (converted with Z.of_nat
where they enter arithmetic), characters of blade names nat, coefficient values an abstract type with
the operations record of Model/Codegen.v.
"""
import ast, os, sys

ROOT = os.path.dirname(os.path.dirname(os.path.abspath(__file__)))
REPO = os.environ.get('KV_REPO', '/repo')


class Unsupported(Exception):
    pass


def parse(fn):
    return ast.parse(open(os.path.join(REPO, 'kingdon', fn)).read())


def dump(n):
    return ast.dump(n)


def is_name(n, s=None):
    return isinstance(n, ast.Name) and (s is None or n.id == s)


def strip_doc(body):
    if body and isinstance(body[0], ast.Expr) and isinstance(body[0].value, ast.Constant) and isinstance(body[0].value.value, str):
        return body[1:]
    return body


# ----------------------------------------------------------------------------- typed expressions
class Env:
    """types of the python locals: 'Z' (int), 'nat' (index), 'chr' (nat, a name character), 'name' (list nat),
    'val' (coefficient), 'dict' (association list Z -> val)"""
    def __init__(self, types):
        self.t = dict(types)

    def ty(self, n):
        if n not in self.t:
            raise Unsupported(f'unknown local {n}')
        return self.t[n]


def zexpr(e, env):
    """python int expression -> Gallina Z"""
    if isinstance(e, ast.Constant) and isinstance(e.value, int) and not isinstance(e.value, bool):
        return f'({e.value})%Z'
    if isinstance(e, ast.Name):
        t = env.ty(e.id)
        if t == 'Z':
            return e.id
        if t == 'nat':
            return f'(Z.of_nat {e.id})'
        raise Unsupported(f'{e.id} : {t} used as an int')
    if isinstance(e, ast.UnaryOp) and isinstance(e.op, ast.USub):
        return f'(Z.opp {zexpr(e.operand, env)})'
    if isinstance(e, ast.BinOp):
        ops = {ast.Add: 'Z.add', ast.Sub: 'Z.sub', ast.Mult: 'Z.mul', ast.Mod: 'Z.modulo', ast.BitXor: 'Z.lxor'}
        if type(e.op) not in ops:
            raise Unsupported('int operator ' + dump(e.op))
        return f'({ops[type(e.op)]} {zexpr(e.left, env)} {zexpr(e.right, env)})'
    if isinstance(e, ast.Call) and is_name(e.func, 'len') and len(e.args) == 1 and is_name(e.args[0]) \
            and env.ty(e.args[0].id) == 'name':
        return f'(Z.of_nat (length {e.args[0].id}))'
    if isinstance(e, ast.IfExp):
        return f'(if {ztruth(e.test, env)} then {zexpr(e.body, env)} else {zexpr(e.orelse, env)})'
    raise Unsupported('int expression ' + dump(e))


def ztruth(e, env):
    """truthiness of an int expression / comparison"""
    if isinstance(e, ast.Compare) and len(e.ops) == 1:
        l, r = zexpr(e.left, env), zexpr(e.comparators[0], env)
        op = e.ops[0]
        if isinstance(op, ast.Gt):
            return f'(Z.ltb {r} {l})'
        if isinstance(op, ast.Lt):
            return f'(Z.ltb {l} {r})'
        if isinstance(op, ast.Eq):
            return f'(Z.eqb {l} {r})'
        raise Unsupported('comparison ' + dump(op))
    return f'(negb (Z.eqb {zexpr(e, env)} 0%Z))'


# ----------------------------------------------------------------------------- _swap_blades
def tr_swap_blades(fn):
    """-> Gallina text defining gen_swap_blades : name -> name -> name -> option (Z * name * name)"""
    if [a.arg for a in fn.args.args] != ['blade1', 'blade2', 'target']:
        raise Unsupported('_swap_blades signature')
    if len(fn.args.defaults) != 1 or not (isinstance(fn.args.defaults[0], ast.Constant) and fn.args.defaults[0].value == ''):
        raise Unsupported("_swap_blades: default of target is not ''")
    body = strip_doc(fn.body)
    env = Env({'blade1': 'name', 'blade2': 'name', 'target': 'name', 'swaps': 'Z', 'eliminated': 'name'})
    STATE = ['blade1', 'swaps', 'eliminated']
    st_tuple = '(blade1, swaps, eliminated)'

    # prologue: blade1 = list(blade1); swaps = 0; eliminated = []
    pro = body[:3]
    want = ["blade1 = list(blade1)", "swaps = 0", "eliminated = []"]
    if [ast.unparse(s) for s in pro] != want:
        raise Unsupported('_swap_blades prologue: ' + repr([ast.unparse(s) for s in pro]))
    loop1, cond, ret = body[3], body[4], body[5]
    if len(body) != 6:
        raise Unsupported('_swap_blades: unexpected number of statements')

    def stmts(ss, env, rest):
        """translate statement list ss; `rest` = Gallina text (option state) evaluated after them"""
        if not ss:
            return rest
        s, tail = ss[0], ss[1:]
        # if char not in blade1: ...; continue
        if isinstance(s, ast.If) and not s.orelse and isinstance(s.test, ast.Compare) and len(s.test.ops) == 1 \
                and isinstance(s.test.ops[0], (ast.NotIn, ast.In)) and is_name(s.test.left) and is_name(s.test.comparators[0]):
            c, l = s.test.left.id, s.test.comparators[0].id
            if env.ty(c) != 'chr' or env.ty(l) != 'name':
                raise Unsupported('membership test types')
            if not isinstance(s.body[-1], ast.Continue):
                raise Unsupported('if without continue')
            inner = stmts(s.body[:-1], env, f'Some {st_tuple}')
            mem = f'(match index {c} {l} with Some _ => true | None => false end)'
            test = f'(negb {mem})' if isinstance(s.test.ops[0], ast.NotIn) else mem
            return f'(if {test} then {inner} else {stmts(tail, env, rest)})'
        # l.append(e) / l.remove(e) / l.insert(i, l.pop(j))
        if isinstance(s, ast.Expr) and isinstance(s.value, ast.Call) and isinstance(s.value.func, ast.Attribute) \
                and is_name(s.value.func.value):
            l, m, args = s.value.func.value.id, s.value.func.attr, s.value.args
            if env.ty(l) != 'name' or l not in STATE:
                raise Unsupported(f'method call on {l}')
            if m == 'append' and len(args) == 1 and is_name(args[0]) and env.ty(args[0].id) == 'chr':
                return f'(let {l} := {l} ++ [{args[0].id}] in {stmts(tail, env, rest)})'
            if m == 'remove' and len(args) == 1 and is_name(args[0]) and env.ty(args[0].id) == 'chr':
                return (f'(match index {args[0].id} {l} with None => None | Some _ => '
                        f'let {l} := remove1 {args[0].id} {l} in {stmts(tail, env, rest)} end)')
            if m == 'insert' and len(args) == 2 and is_name(args[0]) and env.ty(args[0].id) == 'nat' \
                    and isinstance(args[1], ast.Call) and isinstance(args[1].func, ast.Attribute) and args[1].func.attr == 'pop' \
                    and is_name(args[1].func.value, l) and len(args[1].args) == 1 and is_name(args[1].args[0]) \
                    and env.ty(args[1].args[0].id) == 'nat':
                i, j = args[0].id, args[1].args[0].id
                return (f'(match pop_at {j} {l} with None => None | Some (kv_popped, kv_rest) => '
                        f'let {l} := insert_at {i} kv_popped kv_rest in {stmts(tail, env, rest)} end)')
            raise Unsupported('list method ' + ast.unparse(s))
        # idx = l.index(e)
        if isinstance(s, ast.Assign) and len(s.targets) == 1 and is_name(s.targets[0]) and isinstance(s.value, ast.Call) \
                and isinstance(s.value.func, ast.Attribute) and s.value.func.attr == 'index' and is_name(s.value.func.value) \
                and len(s.value.args) == 1 and is_name(s.value.args[0]):
            v, l, c = s.targets[0].id, s.value.func.value.id, s.value.args[0].id
            if env.ty(l) != 'name' or env.ty(c) != 'chr':
                raise Unsupported('index types')
            env2 = Env(env.t); env2.t[v] = 'nat'
            return f'(match index {c} {l} with None => None | Some {v} => {stmts(tail, env2, rest)} end)'
        # x += e
        if isinstance(s, ast.AugAssign) and is_name(s.target) and env.ty(s.target.id) == 'Z' and isinstance(s.op, ast.Add):
            x = s.target.id
            return f'(let {x} := Z.add {x} {zexpr(s.value, env)} in {stmts(tail, env, rest)})'
        raise Unsupported('statement ' + ast.unparse(s))

    # for char in blade2:
    if not (isinstance(loop1, ast.For) and is_name(loop1.target) and is_name(loop1.iter, 'blade2') and not loop1.orelse):
        raise Unsupported('_swap_blades: first loop')
    c1 = loop1.target.id
    env1 = Env(env.t); env1.t[c1] = 'chr'
    body1 = stmts(loop1.body, env1, f'Some {st_tuple}')
    phase1 = (f'Definition gen_phase1_step (kv_acc : option (name * Z * name)) ({c1} : nat) : option (name * Z * name) :=\n'
              f'  match kv_acc with None => None | Some {st_tuple} =>\n    {body1}\n  end.\n')
    # if target: for i, char in enumerate(target):
    if not (isinstance(cond, ast.If) and is_name(cond.test, 'target') and not cond.orelse and len(cond.body) == 1):
        raise Unsupported('_swap_blades: `if target:`')
    loop2 = cond.body[0]
    if not (isinstance(loop2, ast.For) and isinstance(loop2.target, ast.Tuple) and len(loop2.target.elts) == 2
            and isinstance(loop2.iter, ast.Call) and is_name(loop2.iter.func, 'enumerate') and len(loop2.iter.args) == 1
            and is_name(loop2.iter.args[0], 'target') and not loop2.orelse):
        raise Unsupported('_swap_blades: second loop')
    i2, c2 = loop2.target.elts[0].id, loop2.target.elts[1].id
    env2 = Env(env.t); env2.t[i2] = 'nat'; env2.t[c2] = 'chr'
    body2 = stmts(loop2.body, env2, f'Some {st_tuple}')
    phase2 = (f'Definition gen_phase2_step (kv_acc : option (name * Z * name)) (kv_ic : nat * nat) : option (name * Z * name) :=\n'
              f'  let \'({i2}, {c2}) := kv_ic in\n'
              f'  match kv_acc with None => None | Some {st_tuple} =>\n    {body2}\n  end.\n')
    # return swaps, ''.join(blade1), ''.join(eliminated)
    if not (isinstance(ret, ast.Return) and ast.unparse(ret.value) == "(swaps, ''.join(blade1), ''.join(eliminated))"):
        raise Unsupported('_swap_blades: return ' + ast.unparse(ret))
    main = ('Definition gen_swap_blades (blade1 blade2 target : name) : option (Z * name * name) :=\n'
            '  let kv_s1 := fold_left gen_phase1_step blade2 (Some (blade1, 0%Z, [])) in\n'
            '  let kv_s2 := match target with\n'
            '               | [] => kv_s1\n'
            '               | _ => fold_left gen_phase2_step (combine (seq 0 (length target)) target) kv_s1\n'
            '               end in\n'
            '  match kv_s2 with None => None | Some (blade1, swaps, eliminated) => Some (swaps, blade1, eliminated) end.\n')
    return phase1 + phase2 + main


# ----------------------------------------------------------------------------- _compute_sign
def tr_compute_sign(cls):
    """Algebra._prepare_signs: the inner _compute_sign.  -> gen_sign_of (metric lookup is a parameter)"""
    prep = [n for n in cls.body if isinstance(n, ast.FunctionDef) and n.name == '_prepare_signs'][0]
    inner = [n for n in prep.body if isinstance(n, ast.FunctionDef) and n.name == '_compute_sign']
    if len(inner) != 1:
        raise Unsupported('_prepare_signs: no inner _compute_sign')
    fn = inner[0]
    body = strip_doc(fn.body)
    src = [ast.unparse(s) for s in body]
    want_head = ['I, J = bin_pair',
                 'if not canon_pair:\n    canon_pair = (self.bin2canon[I], self.bin2canon[J])',
                 'eI, eJ = canon_pair',
                 'swaps, prod, eliminated = _swap_blades(eI[1:], eJ[1:], self.bin2canon[I ^ J][1:])']
    if src[:4] != want_head:
        raise Unsupported('_compute_sign head: ' + repr(src[:4]))
    env = Env({'swaps': 'Z', 'sign': 'Z'})
    # sign = -1 if swaps % 2 else 1
    a = body[4]
    if not (isinstance(a, ast.Assign) and is_name(a.targets[0], 'sign')):
        raise Unsupported('_compute_sign: sign initialisation')
    init = zexpr(a.value, env)
    loop = body[5]
    if not (isinstance(loop, ast.For) and is_name(loop.target) and is_name(loop.iter, 'eliminated') and len(loop.body) == 1):
        raise Unsupported('_compute_sign: loop over eliminated')
    k = loop.target.id
    st = loop.body[0]
    if not (isinstance(st, ast.AugAssign) and is_name(st.target, 'sign') and isinstance(st.op, ast.Mult)
            and ast.unparse(st.value) == f'self.signature[int({k}, base=16) - self.start_index]'):
        raise Unsupported('_compute_sign: loop body ' + ast.unparse(st))
    if ast.unparse(body[6]) != 'return sign' or len(body) != 7:
        raise Unsupported('_compute_sign: tail')
    # how the table is filled: lazily above 6 dimensions by the same function, eagerly over product(canon2bin.items())
    rest = [ast.unparse(s) for s in strip_doc(prep.body) if not isinstance(s, ast.FunctionDef)]
    want_rest = ['signs = {}',
                 'if self.d > 6:\n    return DefaultKeyDict(_compute_sign)',
                 'for (eI, I), (eJ, J) in product(self.canon2bin.items(), repeat=2):\n    signs[I, J] = _compute_sign((I, J), (eI, eJ))',
                 'return signs']
    if rest != want_rest:
        raise Unsupported('_prepare_signs: table construction ' + repr(rest))
    return ('(* _compute_sign: swaps/eliminated come from _swap_blades on the names without their prefix and the\n'
            '   name of I xor J as target; sig_at g = self.signature[int(g, 16) - self.start_index] (None = IndexError) *)\n'
            'Definition gen_sign_init (swaps : Z) : Z := ' + init + '.\n'
            'Definition gen_sign_of (sig_at : nat -> option Z) (swaps : Z) (eliminated : name) : option Z :=\n'
            '  fold_left (fun kv_acc ' + k + ' => match kv_acc, sig_at ' + k + ' with\n'
            '                                | Some sign, Some kv_m => Some (Z.mul sign kv_m)\n'
            '                                | _, _ => None end) eliminated (Some (gen_sign_init swaps)).\n')


# ----------------------------------------------------------------------------- codegen_product / add / sub / neg
def tr_product(fn):
    args = [a.arg for a in fn.args.args]
    if args != ['x', 'y', 'filter_func', 'sign_func', 'keyout_func']:
        raise Unsupported('codegen_product signature')
    body = strip_doc(fn.body)
    src = [ast.unparse(s) for s in body]
    if len(body) != 4 or src[0] != 'sign_func = sign_func or (lambda pair: x.algebra.signs[pair])' or src[1] != 'res = {}' \
            or src[3] != 'return res':
        raise Unsupported('codegen_product: frame ' + repr(src[:2] + src[3:]))
    loop = body[2]
    if not (isinstance(loop, ast.For) and ast.unparse(loop.target) == '((kx, vx), (ky, vy))'
            and ast.unparse(loop.iter) == 'product(x.items(), y.items())' and len(loop.body) == 1):
        raise Unsupported('codegen_product: loop header')
    iff = loop.body[0]
    if not (isinstance(iff, ast.If) and ast.unparse(iff.test) == '(sign := sign_func((kx, ky)))' and not iff.orelse):
        raise Unsupported('codegen_product: sign test')
    b = iff.body
    srcb = [ast.unparse(s) for s in b]
    if len(b) != 4 or srcb[0] != 'key_out = keyout_func(kx, ky)' \
            or srcb[1] != 'if filter_func and (not filter_func(kx, ky, key_out)):\n    continue':
        raise Unsupported('codegen_product: body ' + repr(srcb[:2]))
    t = b[2]
    if not (isinstance(t, ast.Assign) and is_name(t.targets[0], 'termstr') and isinstance(t.value, ast.IfExp)):
        raise Unsupported('codegen_product: termstr')
    env = Env({'sign': 'Z'})

    def vexpr(e):
        """coefficient expression over vx, vy"""
        if is_name(e, 'vx') or is_name(e, 'vy'):
            return e.id
        if isinstance(e, ast.BinOp) and isinstance(e.op, ast.Mult):
            return f'(o_mul O {vexpr(e.left)} {vexpr(e.right)})'
        if isinstance(e, ast.UnaryOp) and isinstance(e.op, ast.USub):
            return f'(o_neg O {vexpr(e.operand)})'
        raise Unsupported('coefficient expression ' + dump(e))
    term = f'(if {ztruth(t.value.test, env)} then {vexpr(t.value.body)} else {vexpr(t.value.orelse)})'
    acc = b[3]
    want_acc = 'if key_out in res:\n    res[key_out] += termstr\nelse:\n    res[key_out] = termstr'
    if ast.unparse(acc) != want_acc:
        raise Unsupported('codegen_product: accumulation ' + ast.unparse(acc))
    return ('Definition gen_product_step (sign_func : Z -> Z -> Z) (filter_func : option (Z -> Z -> Z -> bool)) (keyout_func : Z -> Z -> Z)\n'
            '    (res : mv R) (kv_p : (Z * R) * (Z * R)) : mv R :=\n'
            "  let '((kx, vx), (ky, vy)) := kv_p in\n"
            '  let sign := sign_func kx ky in\n'
            f'  if {ztruth(ast.Name("sign"), env)} then\n'
            '    let key_out := keyout_func kx ky in\n'
            '    if (match filter_func with Some kv_f => negb (kv_f kx ky key_out) | None => false end) then res else\n'
            f'    let termstr := {term} in\n'
            '    match zassoc key_out res with\n'
            '    | Some kv_old => zset key_out (o_add O kv_old termstr) res\n'
            '    | None => zset key_out termstr res\n'
            '    end\n'
            '  else res.\n'
            'Definition gen_codegen_product sign_func filter_func keyout_func (x y : mv R) : mv R :=\n'
            '  fold_left (gen_product_step sign_func filter_func keyout_func) (list_prod x y) [].\n')


def tr_addsub(fn, name):
    body = strip_doc(fn.body)
    src = [ast.unparse(s) for s in body]
    op = {'add': '+', 'sub': '-'}[name]
    other = {'add': 'v', 'sub': '-v'}[name]
    want = ['vals = dict(x.items())',
            f'for k, v in y.items():\n    if k in vals:\n        vals[k] = vals[k] {op} v\n    else:\n        vals[k] = {other}',
            'return vals']
    if src != want:
        raise Unsupported(f'codegen_{name}: ' + repr(src))
    o = {'add': 'o_add', 'sub': 'o_sub'}[name]
    new = {'add': 'v', 'sub': '(o_neg O v)'}[name]
    return (f'Definition gen_{name}_step (vals : mv R) (kv_kv : Z * R) : mv R :=\n'
            "  let '(k, v) := kv_kv in\n"
            f'  match zassoc k vals with Some kv_old => zset k ({o} O kv_old v) vals | None => zset k {new} vals end.\n')


def tr_neg(fn):
    body = strip_doc(fn.body)
    if [ast.unparse(s) for s in body] != ['return {k: -v for k, v in x.items()}']:
        raise Unsupported('codegen_neg')
    return 'Definition gen_neg_val (v : R) : R := o_neg O v.\n'


def generate():
    alg_mod = parse('algebra.py')
    cg_mod = parse('codegen.py')
    funcs = {n.name: n for n in alg_mod.body if isinstance(n, ast.FunctionDef)}
    cls = [n for n in alg_mod.body if isinstance(n, ast.ClassDef) and n.name == 'Algebra'][0]
    cfuncs = {n.name: n for n in cg_mod.body if isinstance(n, ast.FunctionDef)}
    text = ('(* GENERATED by tools/translate_stmt.py from /repo/kingdon/algebra.py and codegen.py - do not edit *)\n'
            'From KV Require Import Model.Util Model.Swap Model.Alg Model.Codegen.\n'
            'Local Open Scope Z_scope.\n'
            '(* list.pop(i): the element at index i and the list without it; None = IndexError *)\n'
            'Fixpoint pop_at (i : nat) (l : name) : option (nat * name) :=\n'
            '  match l, i with\n'
            '  | [], _ => None\n'
            '  | x :: r, O => Some (x, r)\n'
            '  | x :: r, S j => match pop_at j r with Some (v, r2) => Some (v, x :: r2) | None => None end\n'
            '  end.\n'
            + tr_swap_blades(funcs['_swap_blades'])
            + tr_compute_sign(cls)
            + 'Section GenOps.\nContext {R : Type} (O : ops R).\n'
            + tr_product(cfuncs['codegen_product'])
            + tr_addsub(cfuncs['codegen_add'], 'add')
            + tr_addsub(cfuncs['codegen_sub'], 'sub')
            + tr_neg(cfuncs['codegen_neg'])
            + 'End GenOps.\n')
    return text


if __name__ == '__main__':
    try:
        print(generate())
    except (Unsupported, KeyError, IndexError, AttributeError) as e:
        print(f'TRANSLATOR-FAIL-CLOSED {type(e).__name__}: {e}')
        sys.exit(1)
