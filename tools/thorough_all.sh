#!/bin/bash
# Runs every registered thorough check once (used through `vp run` to validate the thorough tier; not a registered check).
cd "$(dirname "$0")/.."
./setup.sh > setup.log 2>&1
for p in "$@"; do
  echo "=== $p"
  start=$(date +%s)
  KV_NOCLEAN=1 ./check $p thorough 2>&1 | grep -v "^  " | tail -6
  echo "   wall $(( $(date +%s) - start )) s"
done
