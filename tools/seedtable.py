#!/venv/bin/python
"""Print the markdown table of DESIGN.md section 12 from seeded/*/meta.json and notes.md."""
import json, glob, os, re
rows = []
for d in sorted(glob.glob('/verif/seeded/*/')):
    name = os.path.basename(d.rstrip('/'))
    mp = os.path.join(d, 'meta.json')
    if not os.path.exists(mp):
        continue
    m = json.load(open(mp))
    title = ''
    np_ = os.path.join(d, 'notes.md')
    if os.path.exists(np_):
        for line in open(np_):
            if line.startswith('#'):
                title = re.sub(r'^#+\s*', '', line.strip())
                title = re.sub(r'^(C\d+\s*/\s*)?[Cc]hange\s*\d+\s*[—–:-]*\s*', '', title)
                break
    names = []
    for c in m.get('detected_by') or []:
        lines = [l for l in m.get('checks', {}).get(c, {}).get('lines', []) if l.startswith('VIOLATION')]
        concrete = any('no-failing-input-found' not in l for l in lines)
        names.append(c if concrete or not lines else c + '°')
    det = ', '.join(names) or '**missed**'
    rows.append((name, m.get('property', name[:3]), title[:150].replace('|', '/'), det))
import sys
_out = []
def print(*a):          # noqa: collect, then print or splice into DESIGN.md
    _out.append(' '.join(str(x) for x in a))
print('| seed | property | change | caught by (quick tier) |')
print('|---|---|---|---|')
for r in rows:
    print('| ' + ' | '.join(r) + ' |')
print(f'\n{len(rows)} seeded changes, {sum(1 for r in rows if "missed" not in r[3])} caught; '
      f'{sum(1 for r in rows if any(not c.endswith("°") for c in r[3].split(", ")) and "missed" not in r[3])} with a concrete failing input from at least one check.  '
      '`°` = that check reported only a broken proof obligation / translator obligation (`no-failing-input-found`).')

text = '\n'.join(_out) + '\n'
if '--design' in sys.argv:
    p = '/verif/DESIGN.md'
    d = open(p).read()
    marker = '<!-- SEEDTABLE: everything below is written by tools/seedtable.py --design -->\n'
    assert d.count(marker) == 1
    open(p, 'w').write(d[:d.index(marker) + len(marker)] + '\n' + text)
else:
    sys.stdout.write(text)
