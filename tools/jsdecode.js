// tools/jsdecode.js <path to kingdon/graph.js>: runs the REAL decode / toElement helpers of graph.js (extracted from the
// source text between `var toElement` and `var encode`) on payloads read from stdin (one JSON object per line:
// {"key2idx": {...}, "subjects": [...]}; byte strings are {"__bytes__": base64} and become DataViews, as the widget
// transport delivers them).  Prints one JSON line per input: elements are {"E": [coefficients]}.
const fs = require('fs');
const src = fs.readFileSync(process.argv[2], 'utf8');
const a = src.indexOf('var toElement');
const b = src.indexOf('var encode');
if (a < 0 || b < 0 || b < a) { console.log(JSON.stringify({error: 'helpers not found in graph.js'})); process.exit(0); }
const helpers = src.slice(a, b);
class Element { constructor(values) { this.values = Array.from(values); } }
function revive(x) {
  if (Array.isArray(x)) return x.map(revive);
  if (x && typeof x === 'object') {
    if ('__bytes__' in x) { const buf = Buffer.from(x.__bytes__, 'base64'); const ab = buf.buffer.slice(buf.byteOffset, buf.byteOffset + buf.byteLength); return new DataView(ab); }
    const o = {}; for (const k of Object.keys(x)) o[k] = revive(x[k]); return o;
  }
  return x;
}
function out(x) {
  if (x instanceof Element) return {E: x.values.map(v => (typeof v === 'number' && !Number.isFinite(v)) ? String(v) : v)};
  if (Array.isArray(x)) return x.map(out);
  return x;
}
const lines = fs.readFileSync(0, 'utf8').split('\n').filter(l => l.trim());
for (const line of lines) {
  try {
    const inp = JSON.parse(line);
    const key2idx = inp.key2idx;
    const f = new Function('key2idx', 'Element', helpers + '\nreturn decode;');
    const decode = f(key2idx, Element);
    console.log(JSON.stringify({ok: out(decode(revive(inp.subjects)))}));
  } catch (e) {
    console.log(JSON.stringify({error: String(e)}));
  }
}
