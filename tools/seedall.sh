#!/bin/sh
# tools/seedall.sh [seed names...]: re-run every kept seeded change against the check of its own property (and the ones
# recorded as detecting it), refreshing seeded/*/meta.json.  Sequential; each run uses a private worktree + copy of /verif.
cd /verif
if [ $# -gt 0 ]; then seeds="$@"; else seeds=$(ls seeded); fi
for s in $seeds; do
  own=$(echo $s | cut -c1-3)
  extra=$(/venv/bin/python -c "
import json,sys
m=json.load(open('seeded/$s/meta.json')); print(' '.join(p for p in m.get('detected_by',[]) if p!='$own'))" 2>/dev/null)
  [ -f tools/props/$own.py ] || own=""
  echo "== $s: $own $extra"
  KV_JOBS=6 tools/seedrun.py $s $own $extra 2>&1 | grep -v "^    " | tail -4
done
