#!/venv/bin/python
"""Source pins: the tie between the HAND-WRITTEN parts of the Coq model and the python they were written after.

For every function a hand model follows statement by statement (and that tools/translate*.py does not translate),
the normalised source text (ast.unparse: comments, docstrings, layout dropped) is regenerated from the CURRENT
/repo into coq/Gen/Pins.v as a Coq string, and coq/Bridge/Pins_<Cxx>.v — committed, written by
`tools/pins.py --accept` when a model is (re)validated against the source — states `src_f = "<the text the model
was written against>"` by reflexivity.  Props/<Cxx>.v requires Bridge/Pins_<Cxx>.v, so ANY edit of a pinned
function breaks a proof obligation of exactly the properties whose model depends on it; the check then searches for a
failing input (DESIGN 1.3) and reports `no-failing-input-found` if the edit was harmless.  This is the fail-closed
complement of the differential correspondence: the correspondence shows model = code on the sampled inputs, the pin
shows the code is still the text the model was validated against.

  tools/pins.py            print Gen/Pins.v for the current source (used by tools/translate.py)
  tools/pins.py --accept   rewrite coq/Bridge/Pins_*.v from the current source (after re-validating the models)
"""
import ast, os, re, sys

ROOT = os.path.dirname(os.path.dirname(os.path.abspath(__file__)))
REPO = os.environ.get('KV_REPO', '/repo')

# (file, class or None, function)
ALG_SETUP = [('algebra.py', 'Algebra', '__post_init__'), ('algebra.py', 'Algebra', '_prepare_signs'),
             ('algebra.py', 'Algebra', '_blade2canon'), ('algebra.py', 'Algebra', 'indices_for_grade'),
             ('algebra.py', 'Algebra', 'indices_for_grades')]
DISPATCH = [('codegen.py', None, 'do_codegen'), ('operator_dict.py', 'OperatorDict', '__getitem__'),
            ('operator_dict.py', 'OperatorDict', '_call_binary'), ('operator_dict.py', 'UnaryOperatorDict', '__getitem__'),
            ('operator_dict.py', 'UnaryOperatorDict', '__call__')]
CACHE = [('operator_dict.py', 'OperatorDict', '__getitem__'), ('operator_dict.py', 'OperatorDict', '_store'),
         ('operator_dict.py', 'UnaryOperatorDict', '__getitem__'), ('operator_dict.py', 'Registry', '__getitem__'),
         ('operator_dict.py', 'Registry', '__call__'), ('codegen.py', None, 'do_compile')]
POLY = [('polynomial.py', None, 'compare')] + \
       [('polynomial.py', 'Polynomial', m) for m in ('__init__', 'fromname', '__eq__', '__add__', '__mul__', '__neg__', '__pos__', '__sub__',
                                                     '__rsub__', '__pow__', '__bool__', '__len__', 'tosympy', '__truediv__')] + \
       [('polynomial.py', 'RationalPolynomial', m) for m in ('__init__', 'fromname', '__add__', '__mul__', '__neg__', '__sub__', '__rsub__',
                                                             '__truediv__', '__rtruediv__', 'inv', '__pow__', '__eq__', '__bool__', 'tosympy')]
PINS = {
    'C01': ALG_SETUP + [('algebra.py', 'Algebra', 'cayley'), ('algebra.py', 'BladeDict', '__getitem__'), ('algebra.py', 'DefaultKeyDict', '__missing__')],
    'C02': DISPATCH + [('codegen.py', None, 'codegen_gp')],
    'C03': DISPATCH,
    'C04': DISPATCH + [('multivector.py', 'MultiVector', 'grade')],
    'C05': DISPATCH + [('multivector.py', 'MultiVector', 'dual'), ('multivector.py', 'MultiVector', 'undual'), ('codegen.py', None, 'codegen_rp'),
                       ('codegen.py', None, 'codegen_unpolarity')],
    'C06': [('codegen.py', None, 'codegen_sw'), ('codegen.py', None, 'codegen_proj'), ('codegen.py', None, 'codegen_normsq'),
            ('operator_dict.py', 'OperatorDict', 'filter'), ('operator_dict.py', 'OperatorDict', '_call_binary'),
            ('operator_dict.py', 'UnaryOperatorDict', '__call__')],
    'C09': CACHE + [('operator_dict.py', 'OperatorDict', '_call_binary'), ('operator_dict.py', 'UnaryOperatorDict', '__call__')],
    'C10': CACHE,
    'C12': [('multivector.py', 'MultiVector', '__call__'), ('multivector.py', 'MultiVector', 'free_symbols'),
            ('multivector.py', 'MultiVector', '_callable'), ('codegen.py', None, '_lambdify_mv')],
    'C07': [('codegen.py', None, 'codegen_inv'), ('codegen.py', None, 'codegen_hitzer_inv'), ('codegen.py', None, 'codegen_shirokov_inv'),
            ('codegen.py', None, 'codegen_div'), ('codegen.py', None, 'power_supply'), ('codegen.py', 'AdditionChains', 'minimal_chains'),
            ('multivector.py', 'MultiVector', '__pow__'), ('multivector.py', 'MultiVector', 'inv')],
    'C15': [('multivector.py', 'MultiVector', m) for m in ('__new__', 'fromkeysvalues', '__getattr__', '__contains__', 'items', 'asfullmv',
                                                           'map', 'filter', 'grade')]
           + [('algebra.py', 'Algebra', m) for m in ('multivector', 'purevector', 'evenmv', 'oddmv', '_blade2canon', 'indices_for_grades')],
    'C19': [('codegen.py', None, 'codegen_outerexp'), ('codegen.py', None, 'codegen_outersin'), ('codegen.py', None, 'codegen_outercos'),
            ('codegen.py', None, 'codegen_outertan'), ('codegen.py', None, 'codegen_sqrt'), ('codegen.py', None, 'codegen_normsq'),
            ('multivector.py', 'MultiVector', '__pow__'), ('multivector.py', 'MultiVector', 'exp'), ('multivector.py', 'MultiVector', 'norm'),
            ('multivector.py', 'MultiVector', 'normalized'), ('multivector.py', 'MultiVector', '__bool__')],
    'C16': [('multivector.py', 'MultiVector', m) for m in ('__getitem__', '__setitem__', 'shape', 'itermv', 'keys', 'values', 'items', 'map')]
           + [('operator_dict.py', 'OperatorDict', '__call__'), ('operator_dict.py', 'OperatorDict', '_call_binary'),
              ('operator_dict.py', 'UnaryOperatorDict', '__call__')],
    'C17': POLY,
    'C18': [('matrixreps.py', None, 'matrix_rep'), ('matrixreps.py', None, 'ordering_matrix'), ('algebra.py', 'Algebra', 'matrix_basis'), ('multivector.py', 'MultiVector', 'asmatrix'),
            ('multivector.py', 'MultiVector', 'frommatrix'), ('matrixreps.py', None, 'expr_as_matrix')],
    'C20': [('graph.py', None, 'encode'), ('graph.py', None, 'walker'), ('graph.py', 'GraphWidget', 'inplacereplace'),
            ('graph.py', 'GraphWidget', 'get_key2idx'), ('graph.py', 'GraphWidget', 'get_pre_subjects'),
            ('graph.py', 'GraphWidget', 'get_subjects'), ('graph.py', 'GraphWidget', 'get_draggable_points'),
            ('graph.py', 'GraphWidget', 'get_draggable_points_idxs'), ('graph.py', 'GraphWidget', '_get_pre_subjects'),
            ('graph.py', 'GraphWidget', '_observe_draggable_points'), ('graph.py', 'GraphWidget', 'get_signature'),
            ('graph.py', 'GraphWidget', 'get_cayley')],
}


# non-python sources whose hand-made model is trusted: pinned as raw text (whitespace-normalised line by line)
RAW_PINS = {'C20': ['graph.js']}


class PinError(Exception):
    pass


def raw_source(fn):
    path = os.path.join(REPO, 'kingdon', fn)
    if not os.path.exists(path):
        raise PinError(f'{fn} not found')
    return '\n'.join(' '.join(line.split()) for line in open(path).read().splitlines() if line.strip())


def raw_ident(fn):
    return 'raw_' + re.sub(r'\W', '_', fn)


_cache = {}


def module(fn):
    if fn not in _cache:
        _cache[fn] = ast.parse(open(os.path.join(REPO, 'kingdon', fn)).read())
    return _cache[fn]


def find(fn, cls, name):
    mod = module(fn)
    scope = mod.body
    if cls is not None:
        cs = [n for n in mod.body if isinstance(n, ast.ClassDef) and n.name == cls]
        if not cs:
            raise PinError(f'{fn}: class {cls} not found')
        scope = cs[0].body
    found = [n for n in scope if isinstance(n, (ast.FunctionDef, ast.AsyncFunctionDef)) and n.name == name]
    if not found:
        raise PinError(f'{fn}: {cls + "." if cls else ""}{name} not found')
    return found[-1]


def source(node):
    body = list(node.body)
    if body and isinstance(body[0], ast.Expr) and isinstance(body[0].value, ast.Constant) and isinstance(body[0].value.value, str):
        body = body[1:] or [ast.Pass()]
    clone = ast.FunctionDef(name=node.name, args=node.args, body=body, decorator_list=node.decorator_list, returns=None,
                            type_comment=None, lineno=0, col_offset=0)
    return ast.unparse(ast.fix_missing_locations(clone))


def coq_string(s):
    out = []
    for ch in s:
        if ch == '"':
            out.append('""')
        elif ch == '\n' or 32 <= ord(ch) < 127:
            out.append(ch)
        else:
            out.append('\\u%04x' % ord(ch))
    return '"' + ''.join(out) + '"'


def ident(pin):
    fn, cls, name = pin
    return 'src_' + re.sub(r'\W', '_', f'{fn[:-3]}_{cls + "_" if cls else ""}{name}')


def all_pins(existing_only=False):
    seen, out = set(), []
    for pid in sorted(PINS):
        for pin in PINS[pid]:
            if pin not in seen:
                seen.add(pin)
                out.append(pin)
    return out


def generate():
    lines = ['(* GENERATED by tools/pins.py from /repo/kingdon/*.py - do not edit: normalised source text of the functions the',
             '   hand-written parts of the model follow (see Bridge/Pins_*.v) *)',
             'From Coq Require Import String.', 'Open Scope string_scope.']
    for pin in all_pins():
        try:
            text = source(find(*pin))
        except PinError as e:
            text = f'<<MISSING: {e}>>'            # the pin lemma then fails: fail-closed
        lines.append(f'Definition {ident(pin)} : string := {coq_string(text)}.')
    for fn in sorted({f for fs in RAW_PINS.values() for f in fs}):
        try:
            text = raw_source(fn)
        except PinError as e:
            text = f'<<MISSING: {e}>>'
        lines.append(f'Definition {raw_ident(fn)} : string := {coq_string(text)}.')
    return '\n'.join(lines) + '\n'


def accept():
    for pid, pins in sorted(PINS.items()):
        lines = [f'(* Bridge/Pins_{pid}.v - written by `tools/pins.py --accept`: the source text (normalised by ast.unparse) of the functions',
                 f'   whose hand-written model carries the theorems of {pid}, as it was when the model was last validated against it.',
                 '   Regenerated text (Gen/Pins.v) must still be this text; an edit of one of these functions breaks the lemma. *)',
                 'From Coq Require Import String.', 'From KV Require Import Gen.Pins.', 'Open Scope string_scope.']
        for pin in pins:
            text = source(find(*pin))
            lines.append(f'Lemma pin_{ident(pin)[4:]} : {ident(pin)} = {coq_string(text)}.\nProof. reflexivity. Qed.')
        for fn in RAW_PINS.get(pid, []):
            lines.append(f'Lemma pin_{raw_ident(fn)} : {raw_ident(fn)} = {coq_string(raw_source(fn))}.\nProof. reflexivity. Qed.')
        path = os.path.join(ROOT, 'coq', 'Bridge', f'Pins_{pid}.v')
        with open(path, 'w') as f:
            f.write('\n'.join(lines) + '\n')
        print('wrote', path, f'({len(pins)} pins)')


if __name__ == '__main__':
    if '--accept' in sys.argv:
        accept()
    else:
        sys.stdout.write(generate())
