#!/bin/sh
# Offline build of the framework: regenerate coq/Gen from /repo, then a full .vo build.
# `make -k`: a file that does not build must not keep the other properties' cones from being built here;
# every check rebuilds (and audits) the cone of its own Props/Cxx.vo and reports a failure there.
cd /verif
/venv/bin/python tools/translate.py || echo "setup: translator failed closed (the checks will report it)"
cd coq
coq_makefile -f _CoqProject -o Makefile
timeout 3000 make -k -j16 || echo "setup: some files did not build (the checks of the properties depending on them will report it)"
exit 0
