#!/bin/sh
# Offline build of the framework: regenerate coq/Gen from /repo, then a full .vo build.
set -e
cd /verif
/venv/bin/python tools/translate.py
cd coq
coq_makefile -f _CoqProject -o Makefile
timeout 3000 make -j16
