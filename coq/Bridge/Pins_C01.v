(* Bridge/Pins_C01.v - written by `tools/pins.py --accept`: the source text (normalised by ast.unparse) of the functions
   whose hand-written model carries the theorems of C01, as it was when the model was last validated against it.
   Regenerated text (Gen/Pins.v) must still be this text; an edit of one of these functions breaks the lemma. *)
From Coq Require Import String.
From KV Require Import Gen.Pins.
Open Scope string_scope.
Lemma pin_algebra_Algebra___post_init__ : src_algebra_Algebra___post_init__ = "def __post_init__(self):
    if self.signature is not None:
        counts = Counter(self.signature)
        self.p, self.q, self.r = (counts[1], counts[-1], counts[0])
        if self.p + self.q + self.r != len(self.signature):
            raise TypeError('Unsupported signature.')
        self.signature = np.array(self.signature)
    elif self.r == 1:
        self.signature = np.array([0] * self.r + [1] * self.p + [-1] * self.q)
    else:
        self.signature = np.array([1] * self.p + [-1] * self.q + [0] * self.r)
    if self.start_index is None:
        self.start_index = 0 if self.r == 1 else 1
    self.d = self.p + self.q + self.r
    if self.basis:
        assert len(self.basis) == len(self)
        assert self.basis == sorted(self.basis, key=len)
        assert all((eJ[0] == 'e' for eJ in self.basis))
        vecs = [eJ[1:] for eJ in self.basis if len(eJ) == 2]
        self.start_index = int(min(vecs))
        vec2bin = {vec: 2 ** j for j, vec in enumerate(vecs)}
        self.canon2bin = {eJ: reduce(operator.xor, (vec2bin[v] for v in eJ[1:]), 0) for eJ in self.basis}
        self.bin2canon = {J: eJ for eJ, J in sorted(self.canon2bin.items(), key=lambda x: x[1])}
    else:
        self.bin2canon = {eJ: 'e' + ''.join((hex(num + self.start_index - 1)[2:] for ei in range(0, self.d) if (num := (eJ & 2 ** ei).bit_length()))) for eJ in range(2 ** self.d)}
        self.canon2bin = dict(sorted({c: b for b, c in self.bin2canon.items()}.items(), key=lambda x: (len(x[0]), x[0])))

    def pretty_blade(blade):
        if blade == 'e':
            return '1'
        blade = self.pretty_blade + blade[1:]
        for old, new in tuple(zip('0123456789', '\u2080\u2081\u2082\u2083\u2084\u2085\u2086\u2087\u2088\u2089')):
            blade = blade.replace(old, new)
        return blade
    self._bin2canon_prettystr = {k: pretty_blade(v) for k, v in self.bin2canon.items()}
    self.signs = self._prepare_signs()
    self.blades = BladeDict(algebra=self, lazy=self.d > 6)
    self.pss = self.blades[self.bin2canon[2 ** self.d - 1]]
    self.registry = {f.name: f.type(name=f.name, algebra=self, **f.metadata) for f in fields(self) if 'codegen' in f.metadata}
    for name, operator_dict in self.registry.items():
        setattr(self, name, operator_dict)".
Proof. reflexivity. Qed.
Lemma pin_algebra_Algebra__prepare_signs : src_algebra_Algebra__prepare_signs = "def _prepare_signs(self):
    signs = {}

    def _compute_sign(bin_pair, canon_pair=None):
        I, J = bin_pair
        if not canon_pair:
            canon_pair = (self.bin2canon[I], self.bin2canon[J])
        eI, eJ = canon_pair
        swaps, prod, eliminated = _swap_blades(eI[1:], eJ[1:], self.bin2canon[I ^ J][1:])
        sign = -1 if swaps % 2 else 1
        for key in eliminated:
            sign *= self.signature[int(key, base=16) - self.start_index]
        return sign
    if self.d > 6:
        return DefaultKeyDict(_compute_sign)
    for (eI, I), (eJ, J) in product(self.canon2bin.items(), repeat=2):
        signs[I, J] = _compute_sign((I, J), (eI, eJ))
    return signs".
Proof. reflexivity. Qed.
Lemma pin_algebra_Algebra__blade2canon : src_algebra_Algebra__blade2canon = "def _blade2canon(self, basis_blade: str):
    if basis_blade in self.canon2bin:
        return (basis_blade, 0)
    bin = reduce(operator.or_, (self.canon2bin.get(f'e{i}', 2 ** self.d) for i in basis_blade[1:]))
    canon_blade = self.bin2canon.get(bin, False)
    if canon_blade:
        swaps, *_ = _swap_blades(basis_blade[1:], '', target=canon_blade[1:])
        return (canon_blade, swaps)
    return (None, 0)".
Proof. reflexivity. Qed.
Lemma pin_algebra_Algebra_indices_for_grade : src_algebra_Algebra_indices_for_grade = "@cached_property
def indices_for_grade(self):
    return {length - 1: tuple((self.canon2bin[blade] for blade in blades)) for length, blades in groupby(self.canon2bin, key=len)}".
Proof. reflexivity. Qed.
Lemma pin_algebra_Algebra_indices_for_grades : src_algebra_Algebra_indices_for_grades = "@cached_property
def indices_for_grades(self):
    all_grade_combs = chain(*(combinations(range(0, self.d + 1), r=j) for j in range(0, len(self) + 1)))
    return {comb: sum((self.indices_for_grade[grade] for grade in comb), ()) for comb in all_grade_combs}".
Proof. reflexivity. Qed.
Lemma pin_algebra_Algebra_cayley : src_algebra_Algebra_cayley = "@cached_property
def cayley(self):
    cayley = {}
    for (eI, I), (eJ, J) in product(self.canon2bin.items(), repeat=2):
        if (sign := self.signs[I, J]):
            sign = '-' if sign == -1 else ''
            cayley[eI, eJ] = f'{sign}{self.bin2canon[I ^ J]}'
        else:
            cayley[eI, eJ] = f'0'
    return cayley".
Proof. reflexivity. Qed.
Lemma pin_algebra_BladeDict___getitem__ : src_algebra_BladeDict___getitem__ = "def __getitem__(self, basis_blade):
    if not re.match('^e[0-9a-fA-F]*$', basis_blade):
        raise AttributeError(f'{basis_blade} is not a valid basis blade.')
    basis_blade, swaps = self.algebra._blade2canon(basis_blade)
    if basis_blade not in self.blades:
        bin_blade = self.algebra.canon2bin[basis_blade]
        if self.algebra.graded:
            g = format(bin_blade, 'b').count('1')
            indices = self.algebra.indices_for_grade[g]
            self.blades[basis_blade] = self.algebra.multivector(values=[int(bin_blade == i) for i in indices], grades=(g,))
        else:
            self.blades[basis_blade] = MultiVector.fromkeysvalues(self.algebra, keys=(bin_blade,), values=[1])
    return self.blades[basis_blade] if swaps % 2 == 0 else -self.blades[basis_blade]".
Proof. reflexivity. Qed.
Lemma pin_algebra_DefaultKeyDict___missing__ : src_algebra_DefaultKeyDict___missing__ = "def __missing__(self, key):
    res = self[key] = self.factory(key)
    return res".
Proof. reflexivity. Qed.
