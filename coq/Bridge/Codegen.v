(* Bridge/Codegen.v — the kernels regenerated from /repo/kingdon/codegen.py (Gen/Codegen.v) are the
   kernels of the hand-written model, for all arguments.  Re-checked against today's source. *)
From KV Require Import Model.All Gen.Codegen.
Local Open Scope Z_scope.

Lemma br_filter_op kx ky ko : Gen.Codegen.filter_op kx ky ko = Model.Codegen.filter_op kx ky ko.
Proof. reflexivity. Qed.
Lemma br_filter_ip kx ky ko : Gen.Codegen.filter_ip kx ky ko = Model.Codegen.filter_ip kx ky ko.
Proof. reflexivity. Qed.
Lemma br_filter_lc kx ky ko : Gen.Codegen.filter_lc kx ky ko = Model.Codegen.filter_lc kx ky ko.
Proof. reflexivity. Qed.
Lemma br_filter_rc kx ky ko : Gen.Codegen.filter_rc kx ky ko = Model.Codegen.filter_rc kx ky ko.
Proof. reflexivity. Qed.
Lemma br_filter_sp kx ky ko : Gen.Codegen.filter_sp kx ky ko = Model.Codegen.filter_sp kx ky ko.
Proof. reflexivity. Qed.
Lemma br_filter_cp sgn kx ky ko : Gen.Codegen.filter_cp sgn kx ky ko = Model.Codegen.filter_cp sgn kx ky ko.
Proof. reflexivity. Qed.
Lemma br_filter_acp sgn kx ky ko : Gen.Codegen.filter_acp sgn kx ky ko = Model.Codegen.filter_acp sgn kx ky ko.
Proof. reflexivity. Qed.
Lemma br_filter_rp l kx ky ko : Gen.Codegen.filter_rp l kx ky ko = Model.Codegen.filter_rp l kx ky ko.
Proof. reflexivity. Qed.
Lemma br_keyout_rp l kx ky : Gen.Codegen.keyout_rp l kx ky = Model.Codegen.keyout_rp l kx ky.
Proof. reflexivity. Qed.
Lemma br_sign_rp sgn l kx ky : Gen.Codegen.sign_rp sgn l kx ky = Model.Codegen.sign_rp sgn l kx ky.
Proof. reflexivity. Qed.
Lemma br_keyout_default kx ky : Gen.Codegen.keyout_default kx ky = Z.lxor kx ky.
Proof. reflexivity. Qed.
Lemma br_term_positive s : Gen.Codegen.term_positive s = Z.ltb 0 s.
Proof. reflexivity. Qed.
Lemma br_involution_flips g k : Gen.Codegen.involution_flips g k = Model.Codegen.involution_flips g k.
Proof. reflexivity. Qed.
Lemma br_grades_reverse : Gen.Codegen.grades_reverse = Model.Codegen.grades_reverse. Proof. reflexivity. Qed.
Lemma br_grades_involute : Gen.Codegen.grades_involute = Model.Codegen.grades_involute. Proof. reflexivity. Qed.
Lemma br_grades_conjugate : Gen.Codegen.grades_conjugate = Model.Codegen.grades_conjugate. Proof. reflexivity. Qed.
Lemma br_hodge_key l k : Gen.Codegen.hodge_key l k = l - 1 - k. Proof. reflexivity. Qed.
Lemma br_unhodge_key l k : Gen.Codegen.unhodge_key l k = l - 1 - k. Proof. reflexivity. Qed.
Lemma br_hodge_neg sgn l k : Gen.Codegen.hodge_neg sgn l k = Z.ltb (sgn k (l - 1 - k)) 0. Proof. reflexivity. Qed.
Lemma br_unhodge_neg sgn l k : Gen.Codegen.unhodge_neg sgn l k = Z.ltb (sgn (l - 1 - k) k) 0. Proof. reflexivity. Qed.
Lemma br_polarity_sign sgn l : Gen.Codegen.polarity_sign sgn l = sgn (l - 1) (l - 1). Proof. reflexivity. Qed.
