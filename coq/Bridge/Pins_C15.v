(* Bridge/Pins_C15.v - written by `tools/pins.py --accept`: the source text (normalised by ast.unparse) of the functions
   whose hand-written model carries the theorems of C15, as it was when the model was last validated against it.
   Regenerated text (Gen/Pins.v) must still be this text; an edit of one of these functions breaks the lemma. *)
From Coq Require Import String.
From KV Require Import Gen.Pins.
Open Scope string_scope.
Lemma pin_multivector_MultiVector___new__ : src_multivector_MultiVector___new__ = "def __new__(cls, algebra: 'Algebra', values=None, keys=None, *, name=None, grades=None, symbolcls=Symbol, **items):
    if items and keys is None and (values is None):
        for key in list(items.keys()):
            if key not in algebra.canon2bin:
                target, swaps = algebra._blade2canon(key)
                if target is None:
                    raise KeyError(f'{key} is not a basis blade of this algebra.')
                value = items.pop(key)
                items[target] = -value if swaps % 2 else value
        keys, values = zip(*((blade, items[blade]) for blade in algebra.canon2bin if blade in items))
        values = list(values)
    if keys is not None and (not all((isinstance(k, int) for k in keys))):
        keys = tuple((int(k) if k in algebra.bin2canon else algebra.canon2bin[k] for k in keys))
    if grades is None and name and (keys is not None):
        grades = tuple(sorted({format(k, 'b').count('1') for k in keys}))
    values = values if values is not None else list()
    keys = keys if keys is not None else tuple()
    if grades is not None:
        if not all((0 <= grade <= algebra.d for grade in grades)):
            raise ValueError(f'Each grade in `grades` needs to be a value between 0 and {algebra.d}.')
    elif keys:
        grades = tuple(sorted({format(k, 'b').count('1') for k in keys}))
    else:
        grades = tuple(range(algebra.d + 1))
    if algebra.graded and keys and (tuple(keys) != algebra.indices_for_grades[grades]):
        raise ValueError(f'In graded mode, the keys should be equal to those expected for a multivector of grades={grades!r}.')
    if isinstance(values, Mapping):
        keys, values = zip(*values.items()) if values else (tuple(), list())
        values = list(values)
        if algebra.graded and keys:
            keys = tuple((k if k in algebra.bin2canon else algebra.canon2bin[k] for k in keys))
            own_grades = tuple(sorted({format(k, 'b').count('1') for k in keys}))
            if keys != algebra.indices_for_grades[own_grades]:
                raise ValueError(f'In graded mode, the keys should be equal to those expected for a multivector of grades={own_grades}.')
    elif len(values) == len(algebra.indices_for_grades[grades]) and (not keys):
        keys = algebra.indices_for_grades[grades]
    elif name and (not values):
        keys = algebra.indices_for_grades[grades] if not keys else keys
        values = list((symbolcls(f'{name}{algebra.bin2canon[k][1:]}') for k in keys))
    elif len(keys) != len(values):
        raise TypeError(f'Length of `keys` and `values` have to match.')
    if not all((isinstance(k, int) for k in keys)):
        keys = tuple((int(key) if key in algebra.bin2canon else algebra.canon2bin[key] for key in keys))
    if any((isinstance(v, str) for v in values)):
        values = list((val if not isinstance(val, str) else sympify(val) for val in values))
    if not set(keys) <= set(algebra.indices_for_grades[grades]):
        raise ValueError(f'All keys should be of grades {grades}.')
    return cls.fromkeysvalues(algebra, keys, values)".
Proof. reflexivity. Qed.
Lemma pin_multivector_MultiVector_fromkeysvalues : src_multivector_MultiVector_fromkeysvalues = "@classmethod
def fromkeysvalues(cls, algebra, keys, values):
    obj = object.__new__(cls)
    obj.algebra = algebra
    obj._values = values
    obj._keys = keys
    return obj".
Proof. reflexivity. Qed.
Lemma pin_multivector_MultiVector___getattr__ : src_multivector_MultiVector___getattr__ = "def __getattr__(self, basis_blade):
    if basis_blade == '__array_priority__':
        return 0
    if not re.match('^e[0-9a-fA-F]*$', basis_blade):
        raise AttributeError(f'{self.__class__.__name__} object has no attribute or basis blade {basis_blade}')
    basis_blade, swaps = self.algebra._blade2canon(basis_blade)
    if basis_blade not in self.algebra.canon2bin:
        return 0
    try:
        idx = self.keys().index(self.algebra.canon2bin[basis_blade])
    except ValueError:
        return 0
    return self._values[idx] if swaps % 2 == 0 else -self._values[idx]".
Proof. reflexivity. Qed.
Lemma pin_multivector_MultiVector___contains__ : src_multivector_MultiVector___contains__ = "def __contains__(self, item):
    item = item if isinstance(item, int) else self.algebra.canon2bin[item]
    return item in self._keys".
Proof. reflexivity. Qed.
Lemma pin_multivector_MultiVector_items : src_multivector_MultiVector_items = "def items(self):
    return zip(self._keys, self._values)".
Proof. reflexivity. Qed.
Lemma pin_multivector_MultiVector_asfullmv : src_multivector_MultiVector_asfullmv = "def asfullmv(self, canonical=True):
    if canonical:
        keys = self.algebra.indices_for_grades[tuple(range(self.algebra.d + 1))]
    else:
        keys = tuple(range(len(self.algebra)))
    values = [getattr(self, self.algebra.bin2canon[k]) for k in keys]
    return self.fromkeysvalues(self.algebra, keys=keys, values=values)".
Proof. reflexivity. Qed.
Lemma pin_multivector_MultiVector_map : src_multivector_MultiVector_map = "def map(self, func):
    if hasattr(func, '__code__') and func.__code__.co_argcount == 2:
        vals = [func(k, v) for k, v in self.items()]
    else:
        vals = [func(v) for v in self.values()]
    return self.fromkeysvalues(self.algebra, keys=self.keys(), values=vals)".
Proof. reflexivity. Qed.
Lemma pin_multivector_MultiVector_filter : src_multivector_MultiVector_filter = "def filter(self, func=None):
    if func is None:
        func = self.algebra.simp_func
    if hasattr(func, '__code__') and func.__code__.co_argcount == 2:
        keysvalues = tuple(((k, v) for k, v in self.items() if func(k, v)))
    else:
        keysvalues = tuple(((k, v) for k, v in self.items() if func(v)))
    if not keysvalues:
        return self.fromkeysvalues(self.algebra, keys=tuple(), values=list())
    keys, values = zip(*keysvalues)
    return self.fromkeysvalues(self.algebra, keys=keys, values=list(values))".
Proof. reflexivity. Qed.
Lemma pin_multivector_MultiVector_grade : src_multivector_MultiVector_grade = "def grade(self, *grades):
    if len(grades) == 1 and isinstance(grades[0], tuple):
        grades = grades[0]
    vals = {k: getattr(self, self.algebra.bin2canon[k]) for k in self.algebra.indices_for_grades[grades] if k in self.keys()}
    return self.fromkeysvalues(self.algebra, tuple(vals.keys()), list(vals.values()))".
Proof. reflexivity. Qed.
Lemma pin_algebra_Algebra_multivector : src_algebra_Algebra_multivector = "def multivector(self, *args, **kwargs):
    return MultiVector(self, *args, **kwargs)".
Proof. reflexivity. Qed.
Lemma pin_algebra_Algebra_purevector : src_algebra_Algebra_purevector = "def purevector(self, *args, grade, **kwargs):
    return MultiVector(self, *args, grades=(grade,), **kwargs)".
Proof. reflexivity. Qed.
Lemma pin_algebra_Algebra_evenmv : src_algebra_Algebra_evenmv = "def evenmv(self, *args, **kwargs):
    grades = tuple(filter(lambda x: x % 2 == 0, range(self.d + 1)))
    return MultiVector(self, *args, grades=grades, **kwargs)".
Proof. reflexivity. Qed.
Lemma pin_algebra_Algebra_oddmv : src_algebra_Algebra_oddmv = "def oddmv(self, *args, **kwargs):
    grades = tuple(filter(lambda x: x % 2 == 1, range(self.d + 1)))
    return MultiVector(self, *args, grades=grades, **kwargs)".
Proof. reflexivity. Qed.
Lemma pin_algebra_Algebra__blade2canon : src_algebra_Algebra__blade2canon = "def _blade2canon(self, basis_blade: str):
    if basis_blade in self.canon2bin:
        return (basis_blade, 0)
    bin = reduce(operator.or_, (self.canon2bin.get(f'e{i}', 2 ** self.d) for i in basis_blade[1:]))
    canon_blade = self.bin2canon.get(bin, False)
    if canon_blade:
        swaps, *_ = _swap_blades(basis_blade[1:], '', target=canon_blade[1:])
        return (canon_blade, swaps)
    return (None, 0)".
Proof. reflexivity. Qed.
Lemma pin_algebra_Algebra_indices_for_grades : src_algebra_Algebra_indices_for_grades = "@cached_property
def indices_for_grades(self):
    all_grade_combs = chain(*(combinations(range(0, self.d + 1), r=j) for j in range(0, len(self) + 1)))
    return {comb: sum((self.indices_for_grade[grade] for grade in comb), ()) for comb in all_grade_combs}".
Proof. reflexivity. Qed.
