(* Bridge/Pins_C18.v - written by `tools/pins.py --accept`: the source text (normalised by ast.unparse) of the functions
   whose hand-written model carries the theorems of C18, as it was when the model was last validated against it.
   Regenerated text (Gen/Pins.v) must still be this text; an edit of one of these functions breaks the lemma. *)
From Coq Require Import String.
From KV Require Import Gen.Pins.
Open Scope string_scope.
Lemma pin_matrixreps_matrix_rep : src_matrixreps_matrix_rep = "def matrix_rep(p=0, q=0, r=0, signature=None, blades=None):
    d = p + q + r
    I = I2
    P = P2
    Z = Z2
    N = N2
    Ip = Ip2
    SsR = [Z for _ in range(r)]
    SsP = [P for _ in range(p)]
    SsN = [N for _ in range(q)]
    if signature is not None:
        Ss = []
        for s in signature:
            if s == 0:
                Ss.append(SsR.pop(0))
            elif s == 1:
                Ss.append(SsP.pop(0))
            elif s == -1:
                Ss.append(SsN.pop(0))
    else:
        Ss = [*SsR, *SsP, *SsN]
    Es = []
    for i, Si in enumerate(Ss):
        mats = [I for _ in range(i)]
        mats.append(Si)
        mats.extend([Ip for _ in range(d - i - 1)])
        Es.append(reduce(np.kron, mats, 1))
    Es = list(Es)
    Rs = Es.copy()
    Iden = reduce(np.kron, [I for _ in range(d)])
    Rs.insert(0, Iden)
    for i in range(2, d + 1):
        Rs_grade_i = [reduce(lambda x, y: x @ y, comb) for comb in combinations(Es, r=i)]
        Rs.extend(Rs_grade_i)
    if blades is not None:
        Rs = [reduce(lambda x, y: x @ y, (Es[i] for i in blade), Iden) for blade in blades]
    O = ordering_matrix(Rs)
    return [O @ Ri @ O.T for Ri in Rs]".
Proof. reflexivity. Qed.
Lemma pin_matrixreps_ordering_matrix : src_matrixreps_ordering_matrix = "def ordering_matrix(Rs):
    columns = [Ri[:, 0] for Ri in Rs]
    return np.vstack(columns)".
Proof. reflexivity. Qed.
Lemma pin_algebra_Algebra_matrix_basis : src_algebra_Algebra_matrix_basis = "@cached_property
def matrix_basis(self):
    blades = None
    if self.basis:
        blades = [tuple((int(c, base=16) - self.start_index for c in name[1:])) for name in self.canon2bin]
    return matrix_rep(self.p, self.q, self.r, signature=self.signature, blades=blades)".
Proof. reflexivity. Qed.
Lemma pin_multivector_MultiVector_asmatrix : src_multivector_MultiVector_asmatrix = "def asmatrix(self):
    bin2index = {k: i for i, k in enumerate(self.algebra.canon2bin.values())}
    return sum((v * self.algebra.matrix_basis[bin2index[k]] for k, v in self.items()))".
Proof. reflexivity. Qed.
Lemma pin_multivector_MultiVector_frommatrix : src_multivector_MultiVector_frommatrix = "@classmethod
def frommatrix(cls, algebra, matrix):
    obj = cls(algebra=algebra, values=matrix[..., 0])
    return obj".
Proof. reflexivity. Qed.
Lemma pin_matrixreps_expr_as_matrix : src_matrixreps_expr_as_matrix = "def expr_as_matrix(expr: Callable, *inputs, res_like: 'MultiVector'=None):
    *rest, x = inputs
    alg = x.algebra
    numerical = all((not r.issymbolic for r in rest))
    if numerical and any((len(r.shape) > 1 for r in rest)):
        symbolic_rest = [alg.multivector(name=string.ascii_uppercase[i], keys=mv.keys()) for i, mv in enumerate(rest)]
        symbolic_inputs = [*symbolic_rest, x]
        A, y = expr_as_matrix(expr, *symbolic_inputs, res_like=res_like)
        symbols2values = dict(itertools.chain(*(zip(smv.values(), mv.values()) for smv, mv in zip(symbolic_rest, rest))))
        func = sympy.lambdify(symbols2values.keys(), A, modules={'ImmutableDenseMatrix': list})
        kwargs = {str(k): v for k, v in symbols2values.items()}
        A = func(**kwargs)
        symbols2values.update({v: v for v in x.values()})
        y = y(**{str(k): v for k, v in symbols2values.items() if k in y.free_symbols})
        return (A, y)
    y = expr(*inputs)
    if res_like is not None:
        y = alg.multivector({k: sympy.sympify(getattr(y, alg.bin2canon[k])) for k in res_like.keys()})
    A = sympy.zeros(len(y), len(x)) if not numerical else np.zeros((len(y), len(x)))
    for i, (blade_y, yi) in enumerate(y.items()):
        cv = sympy.collect(yi.expand(), x.values())
        for j, (blade_x, xj) in enumerate(x.items()):
            A[i, j] = cv.coeff(xj)
    return (A, y)".
Proof. reflexivity. Qed.
