(* Bridge/Pins_C16.v - written by `tools/pins.py --accept`: the source text (normalised by ast.unparse) of the functions
   whose hand-written model carries the theorems of C16, as it was when the model was last validated against it.
   Regenerated text (Gen/Pins.v) must still be this text; an edit of one of these functions breaks the lemma. *)
From Coq Require Import String.
From KV Require Import Gen.Pins.
Open Scope string_scope.
Lemma pin_multivector_MultiVector___getitem__ : src_multivector_MultiVector___getitem__ = "def __getitem__(self, item):
    if not isinstance(item, tuple):
        item = (item,)
    values = self.values()
    if isinstance(values, (tuple, list)):
        return_values = values.__class__((value[item] for value in values))
    else:
        return_values = values[slice(None), *item]
    return self.__class__.fromkeysvalues(self.algebra, keys=self.keys(), values=return_values)".
Proof. reflexivity. Qed.
Lemma pin_multivector_MultiVector___setitem__ : src_multivector_MultiVector___setitem__ = "def __setitem__(self, indices, values):
    if isinstance(values, MultiVector):
        if self.keys() != values.keys():
            raise ValueError('setitem with a multivector is only possible for equivalent MVs.')
        values = values.values()
    if not isinstance(indices, tuple):
        indices = (indices,)
    for self_values, other_value in zip(self.values(), values):
        self_values[indices] = other_value".
Proof. reflexivity. Qed.
Lemma pin_multivector_MultiVector_shape : src_multivector_MultiVector_shape = "@property
def shape(self):
    if hasattr(self._values, 'shape'):
        return self._values.shape
    elif len(self._values) and hasattr(self._values[0], 'shape'):
        return (len(self), *self._values[0].shape)
    else:
        return (len(self),)".
Proof. reflexivity. Qed.
Lemma pin_multivector_MultiVector_itermv : src_multivector_MultiVector_itermv = "def itermv(self, axis=None):
    shape = self.shape[1:]
    if not shape:
        return self
    elif axis is None:
        return (self[indices] for indices in product(*(range(n) for n in shape)))
    else:
        raise NotImplementedError".
Proof. reflexivity. Qed.
Lemma pin_multivector_MultiVector_keys : src_multivector_MultiVector_keys = "def keys(self):
    return self._keys".
Proof. reflexivity. Qed.
Lemma pin_multivector_MultiVector_values : src_multivector_MultiVector_values = "def values(self):
    return self._values".
Proof. reflexivity. Qed.
Lemma pin_multivector_MultiVector_items : src_multivector_MultiVector_items = "def items(self):
    return zip(self._keys, self._values)".
Proof. reflexivity. Qed.
Lemma pin_multivector_MultiVector_map : src_multivector_MultiVector_map = "def map(self, func):
    if hasattr(func, '__code__') and func.__code__.co_argcount == 2:
        vals = [func(k, v) for k, v in self.items()]
    else:
        vals = [func(v) for v in self.values()]
    return self.fromkeysvalues(self.algebra, keys=self.keys(), values=vals)".
Proof. reflexivity. Qed.
Lemma pin_operator_dict_OperatorDict___call__ : src_operator_dict_OperatorDict___call__ = "def __call__(self, *mvs):
    if len(mvs) == 2:
        return self._call_binary(*mvs)
    mvs = [mv if isinstance(mv, MultiVector) else MultiVector.fromkeysvalues(self.algebra, (0,), (mv,)) for mv in mvs]
    if any((mvs[0].algebra != mv.algebra for mv in mvs[1:])):
        raise AlgebraError(""Cannot multiply elements of different algebra's."")
    keys_in = tuple((mv.keys() for mv in mvs))
    values_in = tuple((mv.values() for mv in mvs))
    keys_out, func = self[keys_in]
    issymbolic = any((mv.issymbolic for mv in mvs))
    if issymbolic or not mvs[0].algebra.wrapper:
        values_out = func(*values_in)
    else:
        values_out = self.algebra.numspace[func.__name__](*values_in)
    if issymbolic and self.algebra.simp_func:
        keys_out, values_out = self.filter(keys_out, values_out)
    return MultiVector.fromkeysvalues(self.algebra, keys=keys_out, values=values_out)".
Proof. reflexivity. Qed.
Lemma pin_operator_dict_OperatorDict__call_binary : src_operator_dict_OperatorDict__call_binary = "def _call_binary(self, mv1, mv2):
    while isinstance(mv1, Callable) and (not isinstance(mv1, MultiVector)):
        mv1 = mv1()
    while isinstance(mv2, Callable) and (not isinstance(mv2, MultiVector)):
        mv2 = mv2()
    if isinstance(mv2, (tuple, list)):
        return type(mv2)((self._call_binary(mv1, mv) for mv in mv2))
    if isinstance(mv1, (tuple, list)):
        return type(mv1)((self._call_binary(mv, mv2) for mv in mv1))
    mv1 = mv1 if isinstance(mv1, MultiVector) else MultiVector.fromkeysvalues(self.algebra, (0,), [mv1])
    mv2 = mv2 if isinstance(mv2, MultiVector) else MultiVector.fromkeysvalues(self.algebra, (0,), [mv2])
    if not (mv1.algebra is mv2.algebra or mv1.algebra == mv2.algebra):
        raise AlgebraError(""Cannot multiply elements of different algebra's."")
    keys_out, func = self[mv1.keys(), mv2.keys()]
    issymbolic = mv1.issymbolic or mv2.issymbolic
    if issymbolic or not mv1.algebra.wrapper:
        values_out = func(mv1.values(), mv2.values())
    else:
        values_out = self.algebra.numspace[func.__name__](mv1.values(), mv2.values())
    if issymbolic and self.algebra.simp_func:
        keys_out, values_out = self.filter(keys_out, values_out)
    return MultiVector.fromkeysvalues(self.algebra, keys=keys_out, values=values_out)".
Proof. reflexivity. Qed.
Lemma pin_operator_dict_UnaryOperatorDict___call__ : src_operator_dict_UnaryOperatorDict___call__ = "def __call__(self, mv):
    keys_out, func = self[mv.keys()]
    issymbolic = mv.issymbolic
    if issymbolic or not mv.algebra.wrapper:
        values_out = func(mv.values())
    else:
        values_out = self.algebra.numspace[func.__name__](mv.values())
    if issymbolic and self.algebra.simp_func:
        keys_out, values_out = self.filter(keys_out, values_out)
    return MultiVector.fromkeysvalues(self.algebra, keys=keys_out, values=values_out)".
Proof. reflexivity. Qed.
