(* Bridge/Pins_C19.v - written by `tools/pins.py --accept`: the source text (normalised by ast.unparse) of the functions
   whose hand-written model carries the theorems of C19, as it was when the model was last validated against it.
   Regenerated text (Gen/Pins.v) must still be this text; an edit of one of these functions breaks the lemma. *)
From Coq Require Import String.
From KV Require Import Gen.Pins.
Open Scope string_scope.
Lemma pin_codegen_codegen_outerexp : src_codegen_codegen_outerexp = "def codegen_outerexp(x, asterms=False):
    alg = x.algebra
    if len(x.grades) != 1:
        warnings.warn('Outer exponential might not converge for mixed-grade multivectors.', RuntimeWarning)
    k = alg.d
    Ws = [alg.scalar([1]), x]
    j = 2
    while j <= k:
        Wj = Ws[-1] ^ x
        Wj._values = tuple((v / j for v in Wj._values))
        if Wj:
            Ws.append(Wj)
            j += 1
        else:
            break
    if asterms:
        return Ws
    return reduce(operator.add, Ws)".
Proof. reflexivity. Qed.
Lemma pin_codegen_codegen_outersin : src_codegen_codegen_outersin = "def codegen_outersin(x):
    odd_Ws = codegen_outerexp(x, asterms=True)[1::2]
    outersin = reduce(operator.add, odd_Ws)
    return outersin".
Proof. reflexivity. Qed.
Lemma pin_codegen_codegen_outercos : src_codegen_codegen_outercos = "def codegen_outercos(x):
    even_Ws = codegen_outerexp(x, asterms=True)[0::2]
    outercos = reduce(operator.add, even_Ws)
    return outercos".
Proof. reflexivity. Qed.
Lemma pin_codegen_codegen_outertan : src_codegen_codegen_outertan = "def codegen_outertan(x):
    Ws = codegen_outerexp(x, asterms=True)
    even_Ws, odd_Ws = (Ws[0::2], Ws[1::2])
    outercos = reduce(operator.add, even_Ws)
    outersin = reduce(operator.add, odd_Ws)
    outertan = outersin / outercos
    return outertan".
Proof. reflexivity. Qed.
Lemma pin_codegen_codegen_sqrt : src_codegen_codegen_sqrt = "def codegen_sqrt(x):
    alg = x.algebra
    if x.grades == (0,):
        return {0: f'({str(x.e)}**0.5)'}
    a, bI = (x.grade(0), x - x.grade(0))
    has_solution = len(x.grades) <= 2 and 0 in x.grades
    if not has_solution:
        warnings.warn('Cannot verify that we really are taking the sqrt of a Study number.', RuntimeWarning)
    bI_sq = bI * bI
    if not bI_sq:
        cp = f'({str(a.e)}**0.5)'
    else:
        normS = (a * a - bI * bI).e
        cp = f'(0.5 * ({str(a.e)} + ({str(normS)})**0.5)) ** 0.5'
    c = alg.scalar(name='c')
    c2_inv = alg.scalar(name='c2_inv')
    dI = bI * c2_inv
    res = c + dI
    args = {'x': x.values()}
    expr_dict = dict(res.items())
    dependencies = [*zip(c.values(), [cp]), *zip(c2_inv.values(), [f'0.5 / {cp}'])]
    return LambdifyInput(funcname=f'sqrt_{x.type_number}', expr_dict=expr_dict, args=args, dependencies=dependencies)".
Proof. reflexivity. Qed.
Lemma pin_codegen_codegen_normsq : src_codegen_codegen_normsq = "def codegen_normsq(x):
    return x * ~x".
Proof. reflexivity. Qed.
Lemma pin_multivector_MultiVector___pow__ : src_multivector_MultiVector___pow__ = "def __pow__(self, power, modulo=None):
    if power == 0:
        return self.algebra.scalar((1,))
    elif power < 0:
        res = x = self.inv()
        power *= -1
    else:
        res = x = self
    if power == 0.5:
        return res.sqrt()
    for i in range(1, power):
        res = res.gp(x)
    return res".
Proof. reflexivity. Qed.
Lemma pin_multivector_MultiVector_exp : src_multivector_MultiVector_exp = "def exp(self, cosh=None, sinhc=None, sqrt=None):
    ll = (self * self).filter()
    if ll.grades and ll.grades != (0,):
        raise NotImplementedError('Currently only elements that square to a scalar (i.e. are simple) can be exponentiated.')
    ll = ll.e
    if getattr(ll, 'ndim', None) == 0 and hasattr(ll, 'item'):
        ll = ll.item()
    if sqrt is None and cosh is None and (sinhc is None):
        if isinstance(ll, Expr):
            sqrt = lambda x: (-x) ** 0.5
            cosh = cos
            sinhc = sinc
        elif isinstance(ll, (float, int)) and ll > 0:
            sqrt = lambda x: x ** 0.5
            import numpy as np
            cosh = np.cosh
            sinhc = lambda x: np.sinh(x) / x
        elif isinstance(ll, (float, int)) and ll == 0:
            sqrt = lambda x: x ** 0.5
            import numpy as np
            cosh = sinhc = lambda x: 1
        else:
            sqrt = lambda x: (-x) ** 0.5
            import numpy as np
            cosh = np.cos
            sinhc = lambda x: np.sinc(x / np.pi)
    l = sqrt(ll)
    return self * sinhc(l) + cosh(l)".
Proof. reflexivity. Qed.
Lemma pin_multivector_MultiVector_norm : src_multivector_MultiVector_norm = "def norm(self):
    normsq = self.normsq()
    return normsq.sqrt()".
Proof. reflexivity. Qed.
Lemma pin_multivector_MultiVector_normalized : src_multivector_MultiVector_normalized = "def normalized(self):
    return self / self.norm()".
Proof. reflexivity. Qed.
Lemma pin_multivector_MultiVector___bool__ : src_multivector_MultiVector___bool__ = "def __bool__(self):
    return bool(self.values())".
Proof. reflexivity. Qed.
