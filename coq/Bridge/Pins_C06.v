(* Bridge/Pins_C06.v - written by `tools/pins.py --accept`: the source text (normalised by ast.unparse) of the functions
   whose hand-written model carries the theorems of C06, as it was when the model was last validated against it.
   Regenerated text (Gen/Pins.v) must still be this text; an edit of one of these functions breaks the lemma. *)
From Coq Require Import String.
From KV Require Import Gen.Pins.
Open Scope string_scope.
Lemma pin_codegen_codegen_sw : src_codegen_codegen_sw = "def codegen_sw(x, y):
    return x * y * ~x".
Proof. reflexivity. Qed.
Lemma pin_codegen_codegen_proj : src_codegen_codegen_proj = "def codegen_proj(x, y):
    return (x | y) * ~y".
Proof. reflexivity. Qed.
Lemma pin_codegen_codegen_normsq : src_codegen_codegen_normsq = "def codegen_normsq(x):
    return x * ~x".
Proof. reflexivity. Qed.
Lemma pin_operator_dict_OperatorDict_filter : src_operator_dict_OperatorDict_filter = "def filter(self, keys_out, values_out):
    keysvalues = tuple(((k, self.algebra.simp_func(v)) for k, v in zip(keys_out, values_out)))
    if self.algebra.graded:
        grades = {format(k, 'b').count('1') for k, simpv in keysvalues if simpv}
        keysvalues = tuple(((k, simpv) for k, simpv in keysvalues if format(k, 'b').count('1') in grades))
    else:
        keysvalues = tuple(((k, simpv) for k, simpv in keysvalues if simpv))
    keys, values = zip(*keysvalues) if keysvalues else (tuple(), list())
    return (keys, list(values))".
Proof. reflexivity. Qed.
Lemma pin_operator_dict_OperatorDict__call_binary : src_operator_dict_OperatorDict__call_binary = "def _call_binary(self, mv1, mv2):
    while isinstance(mv1, Callable) and (not isinstance(mv1, MultiVector)):
        mv1 = mv1()
    while isinstance(mv2, Callable) and (not isinstance(mv2, MultiVector)):
        mv2 = mv2()
    if isinstance(mv2, (tuple, list)):
        return type(mv2)((self._call_binary(mv1, mv) for mv in mv2))
    if isinstance(mv1, (tuple, list)):
        return type(mv1)((self._call_binary(mv, mv2) for mv in mv1))
    mv1 = mv1 if isinstance(mv1, MultiVector) else MultiVector.fromkeysvalues(self.algebra, (0,), [mv1])
    mv2 = mv2 if isinstance(mv2, MultiVector) else MultiVector.fromkeysvalues(self.algebra, (0,), [mv2])
    if not (mv1.algebra is mv2.algebra or mv1.algebra == mv2.algebra):
        raise AlgebraError(""Cannot multiply elements of different algebra's."")
    keys_out, func = self[mv1.keys(), mv2.keys()]
    issymbolic = mv1.issymbolic or mv2.issymbolic
    if issymbolic or not mv1.algebra.wrapper:
        values_out = func(mv1.values(), mv2.values())
    else:
        values_out = self.algebra.numspace[func.__name__](mv1.values(), mv2.values())
    if issymbolic and self.algebra.simp_func:
        keys_out, values_out = self.filter(keys_out, values_out)
    return MultiVector.fromkeysvalues(self.algebra, keys=keys_out, values=values_out)".
Proof. reflexivity. Qed.
Lemma pin_operator_dict_UnaryOperatorDict___call__ : src_operator_dict_UnaryOperatorDict___call__ = "def __call__(self, mv):
    keys_out, func = self[mv.keys()]
    issymbolic = mv.issymbolic
    if issymbolic or not mv.algebra.wrapper:
        values_out = func(mv.values())
    else:
        values_out = self.algebra.numspace[func.__name__](mv.values())
    if issymbolic and self.algebra.simp_func:
        keys_out, values_out = self.filter(keys_out, values_out)
    return MultiVector.fromkeysvalues(self.algebra, keys=keys_out, values=values_out)".
Proof. reflexivity. Qed.
