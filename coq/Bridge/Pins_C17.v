(* Bridge/Pins_C17.v - written by `tools/pins.py --accept`: the source text (normalised by ast.unparse) of the functions
   whose hand-written model carries the theorems of C17, as it was when the model was last validated against it.
   Regenerated text (Gen/Pins.v) must still be this text; an edit of one of these functions breaks the lemma. *)
From Coq Require Import String.
From KV Require Import Gen.Pins.
Open Scope string_scope.
Lemma pin_polynomial_compare : src_polynomial_compare = "def compare(a, b):
    if a is None:
        return 1
    if b is None:
        return -1
    la = len(a)
    lb = len(b)
    l = min(la, lb)
    for i in range(1, l):
        if a[i] < b[i]:
            return -1
        elif a[i] > b[i]:
            return 1
    return la - lb".
Proof. reflexivity. Qed.
Lemma pin_polynomial_Polynomial___init__ : src_polynomial_Polynomial___init__ = "def __init__(self, coeff):
    if isinstance(coeff, self.__class__):
        self.args = coeff.args
    elif isinstance(coeff, (list, tuple)):
        self.args = coeff
    elif isinstance(coeff, (int, float)):
        self.args = [[coeff]]
    elif isinstance(coeff, str):
        self.args = [[1, coeff]] if coeff[0] != '-' else [[-1, coeff[1:]]]".
Proof. reflexivity. Qed.
Lemma pin_polynomial_Polynomial_fromname : src_polynomial_Polynomial_fromname = "@classmethod
def fromname(cls, name):
    return cls([[1, name]])".
Proof. reflexivity. Qed.
Lemma pin_polynomial_Polynomial___eq__ : src_polynomial_Polynomial___eq__ = "def __eq__(self, other):
    if other == 0 and (not self.args or self.args == [[0]]):
        return True
    if other == 1 and self.args == [[1]]:
        return True
    if self.__class__ != other.__class__:
        return False
    return self.args == other.args".
Proof. reflexivity. Qed.
Lemma pin_polynomial_Polynomial___add__ : src_polynomial_Polynomial___add__ = "def __add__(self, other):
    if other == 0:
        return self
    if not isinstance(other, self.__class__):
        other = self.__class__(other)
    if self == 0:
        return other
    ai = bi = 0
    al = len(self)
    bl = len(other)
    res = []
    while not (ai == al and bi == bl):
        ea = self[ai] if ai < al else None
        eb = other[bi] if bi < bl else None
        diff = compare(ea, eb)
        if diff < 0:
            res.append(ea)
            ai += 1
        elif diff > 0:
            res.append(eb)
            bi += 1
        else:
            ea = ea.copy()
            ea[0] += eb[0]
            if ea[0] != 0:
                res.append(ea)
            ai += 1
            bi += 1
    return self.__class__(res)".
Proof. reflexivity. Qed.
Lemma pin_polynomial_Polynomial___mul__ : src_polynomial_Polynomial___mul__ = "def __mul__(self, other):
    if self == 0 or other == 0:
        return self.__class__([])
    if not isinstance(other, self.__class__):
        other = self.__class__(other)
    res = Polynomial([])
    al = len(self)
    bl = len(other)
    for ai, bi in itertools.product(range(0, al), range(0, bl)):
        A = self[ai]
        B = other[bi]
        C = [A[0] * B[0]]
        i = 1
        j = 1
        while i < len(A) or j < len(B):
            ea = A[i] if i < len(A) else None
            eb = B[j] if j < len(B) else None
            if eb is None or (ea is not None and ea < eb):
                if isinstance(ea, str):
                    C.append(ea)
                else:
                    C[0] *= ea
                i += 1
            else:
                if isinstance(eb, str):
                    C.append(eb)
                else:
                    C[0] *= eb
                j += 1
        res = res + Polynomial([C])
    return Polynomial(res)".
Proof. reflexivity. Qed.
Lemma pin_polynomial_Polynomial___neg__ : src_polynomial_Polynomial___neg__ = "def __neg__(self):
    return self.__class__([[-monomial[0], *monomial[1:]] for monomial in self.args])".
Proof. reflexivity. Qed.
Lemma pin_polynomial_Polynomial___pos__ : src_polynomial_Polynomial___pos__ = "def __pos__(self):
    return self".
Proof. reflexivity. Qed.
Lemma pin_polynomial_Polynomial___sub__ : src_polynomial_Polynomial___sub__ = "def __sub__(self, other):
    return self + -other".
Proof. reflexivity. Qed.
Lemma pin_polynomial_Polynomial___rsub__ : src_polynomial_Polynomial___rsub__ = "def __rsub__(self, other):
    return other + -self".
Proof. reflexivity. Qed.
Lemma pin_polynomial_Polynomial___pow__ : src_polynomial_Polynomial___pow__ = "def __pow__(self, power, modulo=None):
    *_, last = power_supply(self, power)
    return last".
Proof. reflexivity. Qed.
Lemma pin_polynomial_Polynomial___bool__ : src_polynomial_Polynomial___bool__ = "def __bool__(self):
    if len(self.args) == 1:
        return bool(self.args[0][0])
    return bool(self.args)".
Proof. reflexivity. Qed.
Lemma pin_polynomial_Polynomial___len__ : src_polynomial_Polynomial___len__ = "def __len__(self):
    return len(self.args)".
Proof. reflexivity. Qed.
Lemma pin_polynomial_Polynomial_tosympy : src_polynomial_Polynomial_tosympy = "def tosympy(self):
    preprocessed = (monomial if len(monomial) == 1 else monomial[1:] if monomial[0] == 1 else monomial for monomial in self.args)
    sympified = ([Symbol(s) if s.__class__ == str else s for s in monomial] for monomial in preprocessed)
    terms = (Mul(*monomial, evaluate=True) for monomial in sympified)
    res = Add(*terms, evaluate=True)
    return res".
Proof. reflexivity. Qed.
Lemma pin_polynomial_Polynomial___truediv__ : src_polynomial_Polynomial___truediv__ = "def __truediv__(self, other):
    if isinstance(other, self.__class__):
        return RationalPolynomial(self, other)
    return self * (1 / other)".
Proof. reflexivity. Qed.
Lemma pin_polynomial_RationalPolynomial___init__ : src_polynomial_RationalPolynomial___init__ = "def __init__(self, numer, denom=None):
    if isinstance(numer, self.__class__):
        numer = numer.numer
        denom = numer.denom
    elif isinstance(numer, (list, tuple)):
        numer = Polynomial(numer)
    if denom is None:
        denom = Polynomial([[1]])
    elif isinstance(denom, (list, tuple)):
        denom = Polynomial(denom)
    self.numer = numer
    self.denom = denom".
Proof. reflexivity. Qed.
Lemma pin_polynomial_RationalPolynomial_fromname : src_polynomial_RationalPolynomial_fromname = "@classmethod
def fromname(cls, name):
    return cls([[1, name]])".
Proof. reflexivity. Qed.
Lemma pin_polynomial_RationalPolynomial___add__ : src_polynomial_RationalPolynomial___add__ = "def __add__(self, other):
    if hasattr(other, 'algebra'):
        return NotImplemented
    if not isinstance(other, self.__class__):
        other = self.__class__(other if isinstance(other, Polynomial) else [[other]])
    if other == 0:
        return self
    if self == 0:
        return other
    na, da = (self.numer, self.denom)
    nb, db = (other.numer, other.denom)
    if len(da) == len(db) and da == db:
        nn = na + nb
        nd = da
    else:
        nn, nd = (na * db + nb * da, da * db)
    if nn == 0:
        return RationalPolynomial([])
    if len(nn) == len(nd) and nn == nd:
        return RationalPolynomial([[1]])
    return RationalPolynomial(nn, nd)".
Proof. reflexivity. Qed.
Lemma pin_polynomial_RationalPolynomial___mul__ : src_polynomial_RationalPolynomial___mul__ = "def __mul__(self, other):
    if hasattr(other, 'algebra'):
        return NotImplemented
    if not isinstance(other, self.__class__):
        other = self.__class__([[other]])
    if self == 0:
        return self
    if other == 0:
        return other
    if other == 1:
        return self
    if self == 1:
        return other
    na, da = (self.numer, self.denom)
    nb, db = (other.numer, other.denom)
    numer, denom = (na * nb, da * db)
    if numer == 0:
        return RationalPolynomial([[0]])
    if len(numer) == len(denom) and numer == denom:
        return RationalPolynomial([[1]])
    if len(numer) == 1 and len(denom) == 1:
        fl1, fl2 = (numer[0], denom[0])
        nnn, nnd = ([fl1[0]], [fl2[0]])
        p1 = p2 = 1
        while p1 < len(fl1) or p2 < len(fl2):
            f1 = fl1[p1] if p1 < len(fl1) else None
            f2 = fl2[p2] if p2 < len(fl2) else None
            if f1 == f2:
                p1 += 1
                p2 += 1
                continue
            if f2 is None or (f1 is not None and f1 < f2):
                nnn.append(f1)
                p1 += 1
            else:
                nnd.append(f2)
                p2 += 1
        return self.__class__([nnn], [nnd])
    return self.__class__(numer, denom)".
Proof. reflexivity. Qed.
Lemma pin_polynomial_RationalPolynomial___neg__ : src_polynomial_RationalPolynomial___neg__ = "def __neg__(self):
    return self.__class__(-self.numer, self.denom)".
Proof. reflexivity. Qed.
Lemma pin_polynomial_RationalPolynomial___sub__ : src_polynomial_RationalPolynomial___sub__ = "def __sub__(self, other):
    return self + -other".
Proof. reflexivity. Qed.
Lemma pin_polynomial_RationalPolynomial___rsub__ : src_polynomial_RationalPolynomial___rsub__ = "def __rsub__(self, other):
    return other + -self".
Proof. reflexivity. Qed.
Lemma pin_polynomial_RationalPolynomial___truediv__ : src_polynomial_RationalPolynomial___truediv__ = "def __truediv__(self, other):
    if isinstance(other, self.__class__):
        return self * other.inv()
    return self.__class__(self.numer / other, self.denom)".
Proof. reflexivity. Qed.
Lemma pin_polynomial_RationalPolynomial___rtruediv__ : src_polynomial_RationalPolynomial___rtruediv__ = "def __rtruediv__(self, other):
    return self.__class__(other * self.denom, self.numer)".
Proof. reflexivity. Qed.
Lemma pin_polynomial_RationalPolynomial_inv : src_polynomial_RationalPolynomial_inv = "def inv(self):
    if self == 0:
        return 0
    return self.__class__(self.denom, self.numer)".
Proof. reflexivity. Qed.
Lemma pin_polynomial_RationalPolynomial___pow__ : src_polynomial_RationalPolynomial___pow__ = "def __pow__(self, power, modulo=None):
    if power < 0:
        *_, last = power_supply(self, -power)
        return 1 / last
    *_, last = power_supply(self, power)
    return last".
Proof. reflexivity. Qed.
Lemma pin_polynomial_RationalPolynomial___eq__ : src_polynomial_RationalPolynomial___eq__ = "def __eq__(self, other):
    if other == 0 and self.numer == 0:
        return True
    if other == 1 and (self.numer == 1 and self.denom == 1):
        return True
    if self.__class__ != other.__class__:
        return False
    return self.numer == other.numer and self.denom == other.denom".
Proof. reflexivity. Qed.
Lemma pin_polynomial_RationalPolynomial___bool__ : src_polynomial_RationalPolynomial___bool__ = "def __bool__(self):
    return self.numer.__bool__()".
Proof. reflexivity. Qed.
Lemma pin_polynomial_RationalPolynomial_tosympy : src_polynomial_RationalPolynomial_tosympy = "def tosympy(self):
    return self.numer.tosympy() / self.denom.tosympy()".
Proof. reflexivity. Qed.
