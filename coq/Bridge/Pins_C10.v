(* Bridge/Pins_C10.v - written by `tools/pins.py --accept`: the source text (normalised by ast.unparse) of the functions
   whose hand-written model carries the theorems of C10, as it was when the model was last validated against it.
   Regenerated text (Gen/Pins.v) must still be this text; an edit of one of these functions breaks the lemma. *)
From Coq Require Import String.
From KV Require Import Gen.Pins.
Open Scope string_scope.
Lemma pin_operator_dict_OperatorDict___getitem__ : src_operator_dict_OperatorDict___getitem__ = "def __getitem__(self, keys_in: Tuple[Tuple[int]]):
    if keys_in not in self.operator_dict:
        mvs = [self.algebra.multivector(name=name, keys=keys, symbolcls=self.codegen_symbolcls) for name, keys in zip(string.ascii_lowercase, keys_in)]
        keys_out, func = do_codegen(self.codegen, *mvs)
        self._store(keys_in, keys_out, func)
    return self.operator_dict[keys_in]".
Proof. reflexivity. Qed.
Lemma pin_operator_dict_OperatorDict__store : src_operator_dict_OperatorDict__store = "def _store(self, keys_in, keys_out, func):
    wrapped = self.algebra.wrapper(func) if self.algebra.wrapper else func
    while self.algebra.numspace.setdefault(func.__name__, wrapped) is not wrapped:
        func.__name__ += '_'
    self.operator_dict[keys_in] = (keys_out, func)".
Proof. reflexivity. Qed.
Lemma pin_operator_dict_UnaryOperatorDict___getitem__ : src_operator_dict_UnaryOperatorDict___getitem__ = "def __getitem__(self, keys_in: Tuple[Tuple[int]]):
    if keys_in not in self.operator_dict:
        mv = self.algebra.multivector(name='a', keys=keys_in, symbolcls=self.codegen_symbolcls)
        keys_out, func = do_codegen(self.codegen, mv)
        self._store(keys_in, keys_out, func)
    return self.operator_dict[keys_in]".
Proof. reflexivity. Qed.
Lemma pin_operator_dict_Registry___getitem__ : src_operator_dict_Registry___getitem__ = "def __getitem__(self, keys_in: Tuple[Tuple[int]]):
    if keys_in not in self.operator_dict:
        tapes = [TapeRecorder(algebra=self.algebra, expr=name, keys=keys) for name, keys in zip(string.ascii_lowercase, keys_in)]
        keys_out, func = do_compile(self.codegen, *tapes)
        self._store(keys_in, keys_out, func)
    return self.operator_dict[keys_in]".
Proof. reflexivity. Qed.
Lemma pin_operator_dict_Registry___call__ : src_operator_dict_Registry___call__ = "def __call__(self, *mvs):
    mvs = list(mvs)
    for i in range(len(mvs)):
        mv = mvs[i]
        while isinstance(mv, Callable) and (not isinstance(mv, MultiVector)):
            mv = mv()
        mvs[i] = mv
    if any((isinstance(mv, TapeRecorder) for mv in mvs)):
        mvs = [mv if isinstance(mv, TapeRecorder) else TapeRecorder(self.algebra, expr=f'({mv},)', keys=(0,)) for mv in mvs]
        keys_in = tuple((mv.keys() for mv in mvs))
        keys_out, func = self[keys_in]
        expr = f'{func.__name__}({', '.join((mv.expr for mv in mvs))})'
        return TapeRecorder(self.algebra, keys=keys_out, expr=expr)
    mvs = [mv if isinstance(mv, MultiVector) else MultiVector.fromkeysvalues(self.algebra, (0,), (mv,)) for mv in mvs]
    if any((mvs[0].algebra != mv.algebra for mv in mvs[1:])):
        raise AlgebraError(""Cannot multiply elements of different algebra's."")
    keys_in = tuple((mv.keys() for mv in mvs))
    values_in = tuple((mv.values() for mv in mvs))
    keys_out, func = self[keys_in]
    if not mvs[0].algebra.wrapper:
        values_out = func(*values_in)
    else:
        values_out = self.algebra.numspace[func.__name__](*values_in)
    return MultiVector.fromkeysvalues(self.algebra, keys=keys_out, values=values_out)".
Proof. reflexivity. Qed.
Lemma pin_codegen_do_compile : src_codegen_do_compile = "def do_compile(codegen, *tapes):
    algebra = tapes[0].algebra
    namespace = algebra.numspace
    res = codegen(*tapes)
    funcname = f'{_identifier(codegen.__name__)}_' + '_x_'.join((f'{tape.type_number}' for tape in tapes))
    funcstr = f'def {funcname}({', '.join((t.expr for t in tapes))}):'
    if not isinstance(res, str):
        funcstr += f'    return {res.expr}'
    else:
        funcstr += f'    return ({res},)'
    funclocals = {}
    filename = f'<{funcname}>'
    c = compile(funcstr, filename, 'exec')
    exec(c, namespace, funclocals)
    linecache.cache[filename] = (len(funcstr), None, funcstr.splitlines(True), filename)
    func = funclocals[funcname]
    return CodegenOutput(res.keys() if not isinstance(res, str) else (0,), func)".
Proof. reflexivity. Qed.
