(* Bridge/Pins_C02.v - written by `tools/pins.py --accept`: the source text (normalised by ast.unparse) of the functions
   whose hand-written model carries the theorems of C02, as it was when the model was last validated against it.
   Regenerated text (Gen/Pins.v) must still be this text; an edit of one of these functions breaks the lemma. *)
From Coq Require Import String.
From KV Require Import Gen.Pins.
Open Scope string_scope.
Lemma pin_codegen_do_codegen : src_codegen_do_codegen = "def do_codegen(codegen, *mvs):
    algebra = mvs[0].algebra
    res = codegen(*mvs)
    if isinstance(res, CodegenOutput):
        return res
    if not isinstance(res, (dict, LambdifyInput)) and (not hasattr(res, 'keys')):
        res = {0: res}
    if isinstance(res, LambdifyInput):
        funcname = res.funcname
        args = res.args
        dependencies = res.dependencies
        res = res.expr_dict
    else:
        funcname = f'{_identifier(codegen.__name__)}_' + '_x_'.join((f'{mv.type_number}' for mv in mvs))
        args = {arg_name: arg.values() for arg_name, arg in zip(string.ascii_uppercase, mvs)}
        dependencies = None
    keys_out = res.keys()
    if algebra.graded and keys_out:
        grades = tuple(sorted({format(k, 'b').count('1') for k in keys_out}))
        keys_out = algebra.indices_for_grades[grades]
    res = {bin: (res[bin] if isinstance(res, dict) else getattr(res, canon)) if bin in res.keys() else 0 for canon, bin in algebra.canon2bin.items() if bin in keys_out}
    if not algebra.cse and any((isinstance(v, str) for v in res.values())):
        return func_builder(res, *mvs, funcname=funcname)
    keys, exprs = (tuple(res.keys()), list(res.values()))
    func = lambdify(args, exprs, funcname=funcname, cse=algebra.cse, dependencies=dependencies)
    return CodegenOutput(keys, func)".
Proof. reflexivity. Qed.
Lemma pin_operator_dict_OperatorDict___getitem__ : src_operator_dict_OperatorDict___getitem__ = "def __getitem__(self, keys_in: Tuple[Tuple[int]]):
    if keys_in not in self.operator_dict:
        mvs = [self.algebra.multivector(name=name, keys=keys, symbolcls=self.codegen_symbolcls) for name, keys in zip(string.ascii_lowercase, keys_in)]
        keys_out, func = do_codegen(self.codegen, *mvs)
        self._store(keys_in, keys_out, func)
    return self.operator_dict[keys_in]".
Proof. reflexivity. Qed.
Lemma pin_operator_dict_OperatorDict__call_binary : src_operator_dict_OperatorDict__call_binary = "def _call_binary(self, mv1, mv2):
    while isinstance(mv1, Callable) and (not isinstance(mv1, MultiVector)):
        mv1 = mv1()
    while isinstance(mv2, Callable) and (not isinstance(mv2, MultiVector)):
        mv2 = mv2()
    if isinstance(mv2, (tuple, list)):
        return type(mv2)((self._call_binary(mv1, mv) for mv in mv2))
    if isinstance(mv1, (tuple, list)):
        return type(mv1)((self._call_binary(mv, mv2) for mv in mv1))
    mv1 = mv1 if isinstance(mv1, MultiVector) else MultiVector.fromkeysvalues(self.algebra, (0,), [mv1])
    mv2 = mv2 if isinstance(mv2, MultiVector) else MultiVector.fromkeysvalues(self.algebra, (0,), [mv2])
    if not (mv1.algebra is mv2.algebra or mv1.algebra == mv2.algebra):
        raise AlgebraError(""Cannot multiply elements of different algebra's."")
    keys_out, func = self[mv1.keys(), mv2.keys()]
    issymbolic = mv1.issymbolic or mv2.issymbolic
    if issymbolic or not mv1.algebra.wrapper:
        values_out = func(mv1.values(), mv2.values())
    else:
        values_out = self.algebra.numspace[func.__name__](mv1.values(), mv2.values())
    if issymbolic and self.algebra.simp_func:
        keys_out, values_out = self.filter(keys_out, values_out)
    return MultiVector.fromkeysvalues(self.algebra, keys=keys_out, values=values_out)".
Proof. reflexivity. Qed.
Lemma pin_operator_dict_UnaryOperatorDict___getitem__ : src_operator_dict_UnaryOperatorDict___getitem__ = "def __getitem__(self, keys_in: Tuple[Tuple[int]]):
    if keys_in not in self.operator_dict:
        mv = self.algebra.multivector(name='a', keys=keys_in, symbolcls=self.codegen_symbolcls)
        keys_out, func = do_codegen(self.codegen, mv)
        self._store(keys_in, keys_out, func)
    return self.operator_dict[keys_in]".
Proof. reflexivity. Qed.
Lemma pin_operator_dict_UnaryOperatorDict___call__ : src_operator_dict_UnaryOperatorDict___call__ = "def __call__(self, mv):
    keys_out, func = self[mv.keys()]
    issymbolic = mv.issymbolic
    if issymbolic or not mv.algebra.wrapper:
        values_out = func(mv.values())
    else:
        values_out = self.algebra.numspace[func.__name__](mv.values())
    if issymbolic and self.algebra.simp_func:
        keys_out, values_out = self.filter(keys_out, values_out)
    return MultiVector.fromkeysvalues(self.algebra, keys=keys_out, values=values_out)".
Proof. reflexivity. Qed.
Lemma pin_codegen_codegen_gp : src_codegen_codegen_gp = "def codegen_gp(x, y):
    return codegen_product(x, y)".
Proof. reflexivity. Qed.
