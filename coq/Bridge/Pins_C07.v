(* Bridge/Pins_C07.v - written by `tools/pins.py --accept`: the source text (normalised by ast.unparse) of the functions
   whose hand-written model carries the theorems of C07, as it was when the model was last validated against it.
   Regenerated text (Gen/Pins.v) must still be this text; an edit of one of these functions breaks the lemma. *)
From Coq Require Import String.
From KV Require Import Gen.Pins.
Open Scope string_scope.
Lemma pin_codegen_codegen_inv : src_codegen_codegen_inv = "def codegen_inv(y, x=None, symbolic=False):
    alg = y.algebra
    if alg.d < 6:
        num, denom = codegen_hitzer_inv(y, symbolic=True)
    else:
        num, denom = codegen_shirokov_inv(y, symbolic=True)
    num = num if x is None else x * num
    if symbolic:
        return Fraction(num, denom)
    d = alg.scalar(name='d', symbolcls=alg.div.codegen_symbolcls)
    denom_inv = alg.scalar([1 / denom])
    yinv = num * d.e
    args = {'y': y.values()}
    expr_dict = dict(yinv.items())
    dependencies = list(zip(d.values(), denom_inv.values()))
    return LambdifyInput(funcname=f'codegen_inv_{y.type_number}', expr_dict=expr_dict, args=args, dependencies=dependencies)".
Proof. reflexivity. Qed.
Lemma pin_codegen_codegen_hitzer_inv : src_codegen_codegen_hitzer_inv = "def codegen_hitzer_inv(x, symbolic=False):
    alg = x.algebra
    d = alg.d
    if d == 0:
        num = alg.blades.e
    elif d == 1:
        num = x.involute()
    elif d == 2:
        num = x.conjugate()
    elif d == 3:
        xconj = x.conjugate()
        num = xconj * ~(x * xconj)
    elif d == 4:
        xconj = x.conjugate()
        x_xconj = x * xconj
        num = xconj * (x_xconj - 2 * x_xconj.grade(3, 4))
    elif d == 5:
        xconj = x.conjugate()
        x_xconj = x * xconj
        combo = xconj * ~x_xconj
        x_combo = x * combo
        num = combo * (x_combo - 2 * x_combo.grade(1, 4))
    else:
        raise NotImplementedError(f'Closed form inverses are not known in d={d!r} dimensions.')
    denom = x.sp(num).e
    if symbolic:
        return Fraction(num, denom)
    return alg.multivector({k: v / denom for k, v in num.items()})".
Proof. reflexivity. Qed.
Lemma pin_codegen_codegen_shirokov_inv : src_codegen_codegen_shirokov_inv = "def codegen_shirokov_inv(x, symbolic=False):
    alg = x.algebra
    n = 2 ** ((alg.d + 1) // 2)
    supply = power_supply(x, tuple(range(1, n + 1)))
    powers = []
    cs = []
    xs = []
    for i in range(1, n + 1):
        powers.append(next(supply))
        xi = powers[i - 1]
        for j in range(i - 1):
            power_idx = i - j - 2
            xi_diff = powers[power_idx] * cs[j]
            xi = xi - xi_diff
        if xi.grades == (0,):
            break
        xs.append(xi)
        cs.append(s if (s := xi.e) == 0 else n * s / i)
    if i == 1:
        adj = alg.blades.e
    else:
        adj = xs[-1] - cs[-1]
    if symbolic:
        return Fraction(adj, xi.e)
    return alg.multivector({k: v / xi.e for k, v in adj.items()})".
Proof. reflexivity. Qed.
Lemma pin_codegen_codegen_div : src_codegen_codegen_div = "def codegen_div(x, y):
    alg = x.algebra
    num, denom = codegen_inv(y, x, symbolic=True)
    if not denom:
        raise ZeroDivisionError
    d = alg.scalar(name='d', symbolcls=alg.div.codegen_symbolcls)
    denom_inv = alg.scalar([1 / denom])
    res = num * d.e
    args = {'x': x.values(), 'y': y.values()}
    expr_dict = dict(res.items())
    dependencies = list(zip(d.values(), denom_inv.values()))
    return LambdifyInput(funcname=f'div_{x.type_number}_x_{y.type_number}', expr_dict=expr_dict, args=args, dependencies=dependencies)".
Proof. reflexivity. Qed.
Lemma pin_codegen_power_supply : src_codegen_power_supply = "def power_supply(x: 'MultiVector', exponents: Tuple[int, ...], operation: Callable[['MultiVector', 'MultiVector'], 'MultiVector']=operator.mul):
    if isinstance(exponents, int):
        target = exponents
        addition_chains = AdditionChains(target)
        exponents = addition_chains[target]
    else:
        addition_chains = AdditionChains(max(exponents))
    powers = {1: x}
    for step in exponents:
        if step not in powers:
            chain = addition_chains[step]
            powers[step] = operation(powers[chain[-2]], powers[step - chain[-2]])
        yield powers[step]".
Proof. reflexivity. Qed.
Lemma pin_codegen_AdditionChains_minimal_chains : src_codegen_AdditionChains_minimal_chains = "@cached_property
def minimal_chains(self):
    chains = {1: (1,)}
    while any((i not in chains for i in range(1, self.limit + 1))):
        for chain in chains.copy().values():
            right_summand = chain[-1]
            for left_summand in chain:
                value = left_summand + right_summand
                if value <= self.limit and value not in chains:
                    chains[value] = (*chain, value)
    return chains".
Proof. reflexivity. Qed.
Lemma pin_multivector_MultiVector___pow__ : src_multivector_MultiVector___pow__ = "def __pow__(self, power, modulo=None):
    if power == 0:
        return self.algebra.scalar((1,))
    elif power < 0:
        res = x = self.inv()
        power *= -1
    else:
        res = x = self
    if power == 0.5:
        return res.sqrt()
    for i in range(1, power):
        res = res.gp(x)
    return res".
Proof. reflexivity. Qed.
Lemma pin_multivector_MultiVector_inv : src_multivector_MultiVector_inv = "def inv(self):
    return self.algebra.inv(self)".
Proof. reflexivity. Qed.
