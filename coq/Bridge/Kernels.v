(* Bridge/Kernels.v — the list/dict kernels regenerated from /repo (Gen/Kernels.v: _swap_blades,
   _compute_sign, codegen_product, codegen_add/sub/neg, statement by statement) compute, for ALL
   arguments, what the hand-written model computes.  Every theorem of Theory/ is about the model; these
   lemmas make them theorems about today's source. *)
From Coq Require Import List ZArith Bool Lia.
From KV Require Import Model.All Gen.Kernels.
Import ListNotations.
Local Open Scope Z_scope.

(* ---------- _swap_blades ---------- *)
Lemma index_lt c l i : index c l = Some i -> (i < length l)%nat.
Proof.
  revert i. induction l as [|x r IH]; cbn [index]; intros i H; [discriminate|].
  destruct (Nat.eqb x c).
  - injection H as <-. cbn [length]. lia.
  - destruct (index c r) as [j|] eqn:E; cbn [option_map] in H; [|discriminate].
    injection H as <-. specialize (IH j eq_refl). cbn [length]. lia.
Qed.

Lemma pop_at_index c l i : index c l = Some i -> pop_at i l = Some (c, remove1 c l).
Proof.
  revert i. induction l as [|x r IH]; cbn [index]; intros i H; [discriminate|].
  cbn [remove1]. destruct (Nat.eqb x c) eqn:Exc.
  - injection H as <-. apply Nat.eqb_eq in Exc. subst x. reflexivity.
  - destruct (index c r) as [j|] eqn:E; cbn [option_map] in H; [|discriminate].
    injection H as <-. cbn [pop_at]. rewrite (IH j eq_refl). reflexivity.
Qed.

Lemma br_phase1_step s c : gen_phase1_step (Some s) c = Some (phase1_step s c).
Proof.
  destruct s as [[b1 sw] el]. unfold gen_phase1_step, phase1_step.
  destruct (index c b1) as [idx|] eqn:E; cbn [negb]; reflexivity.
Qed.

Lemma fold_phase1_None l : fold_left gen_phase1_step l None = None.
Proof. induction l as [|c l IH]; [reflexivity|exact IH]. Qed.

Lemma br_phase1 b2 : forall s, fold_left gen_phase1_step b2 (Some s) = Some (fold_left phase1_step b2 s).
Proof.
  induction b2 as [|c r IH]; intros s; cbn [fold_left]; [reflexivity|].
  rewrite br_phase1_step. apply IH.
Qed.

Lemma fold_phase2_None l : fold_left gen_phase2_step l None = None.
Proof. induction l as [|[i c] l IH]; [reflexivity|exact IH]. Qed.

Lemma br_phase2 target : forall i b1 sw el,
  fold_left gen_phase2_step (combine (seq i (length target)) target) (Some (b1, sw, el))
  = match phase2 i target b1 sw with Some (b', sw') => Some (b', sw', el) | None => None end.
Proof.
  induction target as [|c t IH]; intros i b1 sw el; cbn [length seq combine fold_left phase2]; [reflexivity|].
  unfold gen_phase2_step at 2.
  destruct (index c b1) as [idx|] eqn:E.
  - rewrite (pop_at_index c b1 idx E). apply IH.
  - apply fold_phase2_None.
Qed.

Theorem br_swap_blades b1 b2 target : gen_swap_blades b1 b2 target = swap_blades b1 b2 target.
Proof.
  unfold gen_swap_blades, swap_blades, phase1. rewrite br_phase1.
  destruct (fold_left phase1_step b2 (b1, 0, [])) as [[b sw] el].
  destruct target as [|c t]; [reflexivity|].
  pose proof (br_phase2 (c :: t) 0%nat b sw el) as H. cbv zeta.
  match goal with |- match ?X with _ => _ end = _ => replace X with
    (match phase2 0 (c :: t) b sw with Some (b', sw') => Some (b', sw', el) | None => None end) by (symmetry; exact H) end.
  destruct (phase2 0 (c :: t) b sw) as [[b' sw']|]; reflexivity.
Qed.

(* ---------- _compute_sign ---------- *)
Lemma br_sign_init sw : gen_sign_init sw = if Z.odd sw then -1 else 1.
Proof.
  unfold gen_sign_init. rewrite Zmod_odd. destruct (Z.odd sw); reflexivity.
Qed.

Lemma fold_sign_None (f : nat -> option Z) el :
  fold_left (fun acc k => match acc, f k with Some s, Some m => Some (s * m) | _, _ => None end) el None = None.
Proof. induction el as [|g r IH]; [reflexivity|exact IH]. Qed.

Lemma br_sign_fold A el : forall s,
  fold_left (fun acc k => match acc, sig_at A k with Some sg, Some m => Some (sg * m) | _, _ => None end) el (Some s)
  = metric_of A el s.
Proof.
  induction el as [|g r IH]; intros s; cbn [fold_left metric_of]; [reflexivity|].
  destruct (sig_at A g) as [m|]; [apply IH|apply fold_sign_None].
Qed.

Theorem br_sign_of A sw el : gen_sign_of (sig_at A) sw el = metric_of A el (if Z.odd sw then -1 else 1).
Proof. unfold gen_sign_of. rewrite br_sign_init. apply br_sign_fold. Qed.

(* the model's sign of two spelled blades is the generated kernels composed as _compute_sign composes them *)
Theorem br_sign_names A n1 n2 target :
  sign_names A n1 n2 target =
  match gen_swap_blades n1 n2 target with
  | Some (swaps, _, eliminated) => of_opt EIndex (gen_sign_of (sig_at A) swaps eliminated)
  | None => Err EValue
  end.
Proof.
  unfold sign_names. rewrite br_swap_blades.
  destruct (swap_blades n1 n2 target) as [[[sw b] el]|]; cbn [of_opt bind]; [|reflexivity].
  rewrite br_sign_of. reflexivity.
Qed.

(* ---------- codegen_product / add / sub / neg ---------- *)
Section Ops.
  Context {R : Type} (O : ops R).

  Lemma dacc_zset k t (d : mv R) :
    dacc O k t d = match zassoc k d with Some old => zset k (o_add O old t) d | None => zset k t d end.
  Proof.
    induction d as [|[k' v] r IH]; cbn [dacc zassoc zset]; [reflexivity|].
    destruct (Z.eqb k' k) eqn:E; [reflexivity|].
    rewrite IH. destruct (zassoc k r); reflexivity.
  Qed.

  Theorem br_product_step sfun filt kout res p :
    gen_product_step O sfun filt kout res p = product_step O sfun filt kout res p.
  Proof.
    destruct p as [[kx vx] [ky vy]]. unfold gen_product_step, product_step.
    destruct (Z.eqb (sfun kx ky) 0); cbn [negb]; [reflexivity|].
    destruct filt as [f|].
    - destruct (f kx ky (kout kx ky)); cbn [negb]; [|reflexivity]. rewrite dacc_zset. reflexivity.
    - rewrite dacc_zset. reflexivity.
  Qed.

  Theorem br_codegen_product sfun filt kout x y :
    gen_codegen_product O sfun filt kout x y = codegen_product O sfun filt kout x y.
  Proof.
    unfold gen_codegen_product, codegen_product. generalize (@nil (Z * R)). generalize (list_prod x y).
    induction l as [|p l IH]; intros acc; cbn [fold_left]; [reflexivity|].
    rewrite br_product_step. apply IH.
  Qed.

  Theorem br_add_step vals kv : gen_add_step O vals kv = add_step O vals kv.
  Proof. reflexivity. Qed.
  Theorem br_sub_step vals kv : gen_sub_step O vals kv = sub_step O vals kv.
  Proof. reflexivity. Qed.
  Theorem br_neg_val v : gen_neg_val O v = o_neg O v.
  Proof. reflexivity. Qed.
End Ops.
