(* Bridge/Pins_C12.v - written by `tools/pins.py --accept`: the source text (normalised by ast.unparse) of the functions
   whose hand-written model carries the theorems of C12, as it was when the model was last validated against it.
   Regenerated text (Gen/Pins.v) must still be this text; an edit of one of these functions breaks the lemma. *)
From Coq Require Import String.
From KV Require Import Gen.Pins.
Open Scope string_scope.
Lemma pin_multivector_MultiVector___call__ : src_multivector_MultiVector___call__ = "def __call__(self, *args, **kwargs):
    if args and kwargs:
        raise Exception('Please provide all input either as positional arguments or as keywords arguments, not both.')
    if not self.free_symbols:
        return self
    keys_out, func = self._callable
    if kwargs:
        args = [kwargs[s.name] for s in sorted(self.free_symbols, key=lambda x: x.name)]
    values = func(args)
    return self.fromkeysvalues(self.algebra, keys_out, values)".
Proof. reflexivity. Qed.
Lemma pin_multivector_MultiVector_free_symbols : src_multivector_MultiVector_free_symbols = "@cached_property
def free_symbols(self):
    return reduce(operator.or_, (v.free_symbols for v in self.values() if hasattr(v, 'free_symbols')), set())".
Proof. reflexivity. Qed.
Lemma pin_multivector_MultiVector__callable : src_multivector_MultiVector__callable = "@cached_property
def _callable(self):
    return _lambdify_mv(self)".
Proof. reflexivity. Qed.
Lemma pin_codegen__lambdify_mv : src_codegen__lambdify_mv = "def _lambdify_mv(mv):
    func = lambdify(args={'x': sorted(mv.free_symbols, key=lambda x: x.name)}, exprs=list(mv.values()), funcname=f'custom_{mv.type_number}', cse=mv.algebra.cse)
    return CodegenOutput(tuple(mv.keys()), func)".
Proof. reflexivity. Qed.
