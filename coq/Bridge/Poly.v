(* Bridge/Poly.v — the index-based loops of kingdon/polynomial.py as regenerated from /repo on every run
   (Gen/Poly.v, by tools/translate_poly.py: compare, Polynomial.__eq__/__bool__/__neg__/__add__/__mul__, statement by
   statement, `while` loops with fuel, subscripts as nth_error, in an option monad whose None is "raises / leaves the
   represented domain / out of fuel") compute, for ALL arguments in the image of the model's representation, what
   the hand-written structural model Model/Poly.v computes - and never None, given the stated fuel.

   Representation maps.  The model's monomial (c, [r1; ...; rn]) : mono is the generated
        enc (c, [r1; ...; rn]) = [PInt c; PStr r1; ...; PStr rn] : gmono
   (python [c, 'v1', ..., 'vn'] with the names abstracted to their ranks, as in the model);  encp = map enc  on
   polynomials (= Polynomial.args = the Polynomial object), option_map enc on "monomial or None".

   Proof method: the index state (ai, bi) / (i, j) of the generated loop is related to the suffixes the model recurses
   on by writing the scanned list as  prefix ++ suffix  with  index = length prefix;  induction on the fuel. *)
From Coq Require Import List ZArith Bool Lia Arith.
From KV Require Import Model.Util Model.Poly Gen.Poly.
Import ListNotations.
Local Open Scope Z_scope.

Definition enc (m : mono) : gmono := PInt (fst m) :: map PStr (snd m).
Definition encp (p : poly) : gpoly := map enc p.

Lemma brp_len p : length (encp p) = length p.
Proof. apply map_length. Qed.

(* ---------- lists and indices ---------- *)
Lemma brp_nth_at {A} (pre : list A) x r k : length pre = k -> nth_error (pre ++ x :: r) k = Some x.
Proof. intros <-. induction pre as [|y pre IH]; [reflexivity|exact IH]. Qed.

Lemma brp_snoc {A} (pre : list A) x r : pre ++ x :: r = (pre ++ [x]) ++ r.
Proof. rewrite <- app_assoc. reflexivity. Qed.

Lemma brp_len_snoc {A} (pre : list A) x k : length pre = k -> length (pre ++ [x]) = (k + 1)%nat.
Proof. intros <-. rewrite app_length. reflexivity. Qed.

Lemma brp_eqb_0 n : Nat.eqb n (n + 0) = true.
Proof. rewrite Nat.add_0_r. apply Nat.eqb_refl. Qed.
Lemma brp_eqb_S n m : Nat.eqb n (n + S m) = false.
Proof. apply Nat.eqb_neq. lia. Qed.
Lemma brp_ltb_0 n : Nat.ltb n (n + 0) = false.
Proof. apply Nat.ltb_ge. lia. Qed.
Lemma brp_ltb_S n m : Nat.ltb n (n + S m) = true.
Proof. apply Nat.ltb_lt. lia. Qed.

(* ---------- compare ---------- *)
(* the for loop of compare: Some z = returned z from inside the loop, None = fell through to `return la - lb` *)
Fixpoint cmp_opt (va vb : list nat) : option Z :=
  match va, vb with
  | x :: ra, y :: rb => if (x <? y)%nat then Some (-1) else if (y <? x)%nat then Some 1 else cmp_opt ra rb
  | _, _ => None
  end.

Lemma brp_cmp_loop_opt va : forall vb d, cmp_loop va vb d = match cmp_opt va vb with Some z => z | None => d end.
Proof.
  induction va as [|x ra IH]; intros [|y rb] d; cbn [cmp_loop cmp_opt]; try reflexivity.
  destruct (x <? y)%nat; [reflexivity|]. destruct (y <? x)%nat; [reflexivity|]. apply IH.
Qed.

Lemma br_compare_for va : forall vb pa pb k, length pa = k -> length pb = k ->
  gen_compare_for (Some (pa ++ map PStr va)) (Some (pb ++ map PStr vb)) (seq k (Nat.min (length va) (length vb)))
  = Some (cmp_opt va vb).
Proof.
  induction va as [|x ra IH]; intros [|y rb] pa pb k Ha Hb; cbn [length Nat.min seq gen_compare_for cmp_opt map]; try reflexivity.
  rewrite (brp_nth_at pa _ _ k Ha), (brp_nth_at pb _ _ k Hb). cbn [py_lt].
  destruct (x <? y)%nat; [reflexivity|]. destruct (y <? x)%nat; [reflexivity|].
  rewrite (brp_snoc pa), (brp_snoc pb).
  replace (S k) with (k + 1)%nat by lia.
  apply IH; apply brp_len_snoc; assumption.
Qed.

(* compare(a, b) on monomials-or-None: the generated function is the model's, for all arguments *)
Theorem br_compare (a b : option mono) : gen_compare (option_map enc a) (option_map enc b) = Some (pcompare a b).
Proof.
  destruct a as [[ca va]|]; [|reflexivity]. destruct b as [[cb vb]|]; [|reflexivity].
  unfold gen_compare, pcompare, enc. cbn [option_map fst snd length Nat.min].
  cbv zeta. cbn [Nat.sub]. rewrite Nat.sub_0_r, !map_length.
  pose proof (br_compare_for va vb [PInt ca] [PInt cb] 1%nat eq_refl eq_refl) as H.
  match goal with |- context [gen_compare_for ?a ?b ?r] =>
    replace (gen_compare_for a b r) with (Some (cmp_opt va vb)) by (symmetry; exact H) end.
  rewrite brp_cmp_loop_opt.
  destruct (cmp_opt va vb); [reflexivity|]. f_equal. lia.
Qed.

Lemma br_compare_SS ea eb : gen_compare (Some (enc ea)) (Some (enc eb)) = Some (pcompare (Some ea) (Some eb)).
Proof. exact (br_compare (Some ea) (Some eb)). Qed.
Lemma br_compare_SN ea : gen_compare (Some (enc ea)) None = Some (-1).
Proof. destruct ea as [c v]. exact (br_compare (Some (c, v)) None). Qed.
Lemma br_compare_NS eb : gen_compare None (Some (enc eb)) = Some 1.
Proof. exact (br_compare None (Some eb)). Qed.

(* ---------- the while loop of Polynomial.__add__ ---------- *)
Lemma brp_padd_nil_cons eb b : padd_loop [] (eb :: b) = eb :: padd_loop [] b.
Proof. reflexivity. Qed.
Lemma brp_padd_cons_nil ea a : padd_loop (ea :: a) [] = ea :: padd_loop a [].
Proof. reflexivity. Qed.
Lemma brp_padd_cons ea a eb b :
  padd_loop (ea :: a) (eb :: b) =
  if pcompare (Some ea) (Some eb) <? 0 then ea :: padd_loop a (eb :: b)
  else if 0 <? pcompare (Some ea) (Some eb) then eb :: padd_loop (ea :: a) b
  else if negb (fst ea + fst eb =? 0) then (fst ea + fst eb, snd ea) :: padd_loop a b
  else padd_loop a b.
Proof. reflexivity. Qed.

Lemma brp_enc_head m : nth_error (enc m) 0 = Some (PInt (fst m)).
Proof. reflexivity. Qed.
Lemma brp_enc_upd m v : upd_nth 0 v (enc m) = Some (v :: map PStr (snd m)).
Proof. reflexivity. Qed.

Ltac brp_side := rewrite ?app_length; cbn [length]; lia.

Lemma br_add_while : forall fuel a b PA PB res al bl,
  al = (length PA + length a)%nat -> bl = (length PB + length b)%nat -> (length a + length b < fuel)%nat ->
  gen_add_while fuel (PA ++ encp a) (PB ++ encp b) al bl (length PA) (length PB) res
  = Some (al, bl, res ++ encp (padd_loop a b)).
Proof.
  induction fuel as [|fuel IH]; intros a b PA PB res al bl Hal Hbl Hf; [lia|].
  subst al bl. cbn [gen_add_while].
  destruct a as [|ea a]; destruct b as [|eb b]; cbn [length encp map] in *.
  - rewrite !brp_eqb_0. cbn [andb negb padd_loop]. rewrite app_nil_r, !Nat.add_0_r. reflexivity.
  - rewrite brp_eqb_0, brp_eqb_S, brp_ltb_0, brp_ltb_S. cbn [andb negb].
    rewrite (brp_nth_at PB _ _ _ eq_refl). cbv zeta. rewrite br_compare_NS. cbn [Z.ltb Z.compare].
    rewrite brp_padd_nil_cons. cbn [map]. rewrite (brp_snoc PB).
    rewrite <- (brp_len_snoc PB (enc eb) _ eq_refl).
    etransitivity; [apply (IH [] b PA (PB ++ [enc eb]) (res ++ [enc eb])); brp_side|].
    rewrite <- app_assoc. reflexivity.
  - rewrite brp_eqb_S, brp_ltb_0, brp_ltb_S. cbn [andb negb].
    rewrite (brp_nth_at PA _ _ _ eq_refl). cbv zeta. rewrite br_compare_SN. cbn [Z.ltb Z.compare].
    rewrite brp_padd_cons_nil. cbn [map]. rewrite (brp_snoc PA).
    rewrite <- (brp_len_snoc PA (enc ea) _ eq_refl).
    etransitivity; [apply (IH a [] (PA ++ [enc ea]) PB (res ++ [enc ea])); brp_side|].
    rewrite <- app_assoc. reflexivity.
  - rewrite brp_eqb_S, !brp_ltb_S. cbn [andb negb].
    rewrite (brp_nth_at PA _ _ _ eq_refl), (brp_nth_at PB _ _ _ eq_refl). cbv zeta. rewrite br_compare_SS.
    rewrite brp_padd_cons.
    destruct (pcompare (Some ea) (Some eb) <? 0).
    { cbn [map]. rewrite (brp_snoc PA). rewrite <- (brp_len_snoc PA (enc ea) _ eq_refl).
      etransitivity; [apply (IH a (eb :: b) (PA ++ [enc ea]) PB (res ++ [enc ea])); brp_side|].
      rewrite <- app_assoc. reflexivity. }
    destruct (0 <? pcompare (Some ea) (Some eb)).
    { cbn [map]. rewrite (brp_snoc PB). rewrite <- (brp_len_snoc PB (enc eb) _ eq_refl).
      etransitivity; [apply (IH (ea :: a) b PA (PB ++ [enc eb]) (res ++ [enc eb])); brp_side|].
      rewrite <- app_assoc. reflexivity. }
    rewrite !brp_enc_head. cbn [py_add]. rewrite brp_enc_upd. cbn [nth_error py_eqb].
    rewrite (brp_snoc PA (enc ea)), (brp_snoc PB (enc eb)).
    rewrite <- (brp_len_snoc PA (enc ea) _ eq_refl), <- (brp_len_snoc PB (enc eb) _ eq_refl).
    destruct (fst ea + fst eb =? 0); cbn [negb].
    + etransitivity; [apply (IH a b (PA ++ [enc ea]) (PB ++ [enc eb]) res); brp_side|]. reflexivity.
    + etransitivity; [apply (IH a b (PA ++ [enc ea]) (PB ++ [enc eb])); brp_side|].
      rewrite <- app_assoc. reflexivity.
Qed.

(* the loop as Polynomial.__add__ runs it (ai = bi = 0, res = []): fuel al + bl + 1 suffices *)
Theorem br_add_loop p q fuel : (length p + length q < fuel)%nat ->
  gen_add_while fuel (encp p) (encp q) (length p) (length q) 0 0 []
  = Some (length p, length q, encp (padd_loop p q)).
Proof.
  intros H. exact (br_add_while fuel p q [] [] [] (length p) (length q) eq_refl eq_refl H).
Qed.

(* ---------- Polynomial.__eq__, __bool__, __neg__ ---------- *)
Lemma brp_vars_eqb va : forall vb, list_eqb py_eqb (map PStr va) (map PStr vb) = list_eqb Nat.eqb va vb.
Proof.
  induction va as [|x ra IH]; intros [|y rb]; cbn [map list_eqb py_eqb]; try reflexivity.
  rewrite IH. reflexivity.
Qed.

Lemma brp_mono_eqb a b : gmono_eqb (enc a) (enc b) = mono_eqb a b.
Proof.
  unfold gmono_eqb, mono_eqb, pair_eqb, enc. cbn [list_eqb py_eqb]. rewrite brp_vars_eqb. reflexivity.
Qed.

Lemma brp_poly_eqb p : forall q, gpoly_eqb (encp p) (encp q) = poly_eqb p q.
Proof.
  unfold gpoly_eqb, poly_eqb.
  induction p as [|a p IH]; intros [|b q]; cbn [encp map list_eqb]; try reflexivity.
  rewrite brp_mono_eqb. f_equal. apply IH.
Qed.

Theorem br_eq_int p c : gen_eq_int (encp p) c = Some (peq_Z p c).
Proof.
  unfold gen_eq_int, peq_Z, is_zero_args.
  change [[PInt 0]] with (encp [(0, [])]). change [[PInt 1]] with (encp [(1, [])]).
  rewrite !brp_poly_eqb.
  destruct p as [|m p]; cbn [encp map negb orb];
    destruct (c =? 0); destruct (c =? 1); cbn [andb];
    repeat match goal with |- context [poly_eqb ?x ?y] => destruct (poly_eqb x y) end; reflexivity.
Qed.

Theorem br_eq p q : gen_eq (encp p) (encp q) = Some (peq p q).
Proof.
  unfold gen_eq, peq. rewrite !br_eq_int. unfold is_zero_args.
  change [[PInt 0]] with (encp [(0, [])]). change [[PInt 1]] with (encp [(1, [])]).
  rewrite !brp_poly_eqb.
  destruct (peq_Z q 0); destruct (peq_Z q 1); destruct p as [|m p]; cbn [encp map negb orb andb];
    repeat match goal with |- context [poly_eqb ?x ?y] => destruct (poly_eqb x y) end; reflexivity.
Qed.

Theorem br_bool p : gen_bool (encp p) = Some (pbool p).
Proof. destruct p as [|m [|m2 r]]; reflexivity. Qed.

Lemma brp_opt_map_neg (f : gmono -> option gmono) :
  (forall m : mono, f (enc m) = Some (enc (- fst m, snd m))) -> forall p, opt_map f (encp p) = Some (encp (pneg p)).
Proof.
  intros Hf p. induction p as [|m p IH]; [reflexivity|].
  cbn [encp map opt_map pneg]. rewrite Hf. fold (encp p). rewrite IH. reflexivity.
Qed.

Theorem br_neg p : gen_neg (encp p) = Some (encp (pneg p)).
Proof.
  unfold gen_neg.
  match goal with |- context [opt_map ?f _] =>
    assert (H : opt_map f (encp p) = Some (encp (pneg p))) by (apply brp_opt_map_neg; intros m; reflexivity) end.
  rewrite H. reflexivity.
Qed.

(* ---------- Polynomial.__add__ (the whole method) ---------- *)
Theorem br_add p q fuel : (length p + length q < fuel)%nat -> gen_add fuel (encp p) (encp q) = Some (encp (padd p q)).
Proof.
  intros H. unfold gen_add, padd. rewrite !br_eq_int.
  destruct (peq_Z q 0); [reflexivity|]. destruct (peq_Z p 0); [reflexivity|].
  cbv zeta. rewrite !brp_len.
  rewrite (br_add_loop p q fuel H). reflexivity.
Qed.

Theorem br_add_int p c fuel : (length p + 1 < fuel)%nat -> gen_add_int fuel (encp p) c = Some (encp (padd_Z p c)).
Proof.
  intros H. unfold gen_add_int, padd_Z.
  destruct (c =? 0); [reflexivity|]. cbv zeta. rewrite br_eq_int.
  destruct (peq_Z p 0); [reflexivity|].
  rewrite brp_len. pose proof (br_add_loop p (P_of_Z c) fuel H) as HL.
  match goal with |- context [gen_add_while ?f ?a ?b ?al ?bl ?i ?j ?r] =>
    replace (gen_add_while f a b al bl i j r) with (Some (length p, length (P_of_Z c), encp (padd_loop p (P_of_Z c))))
      by (symmetry; exact HL) end.
  reflexivity.
Qed.

(* ---------- the merge loop of Polynomial.__mul__ ---------- *)
Lemma brp_vmerge_nil_cons y b : vmerge [] (y :: b) = y :: vmerge [] b.
Proof. reflexivity. Qed.
Lemma brp_vmerge_cons_nil x a : vmerge (x :: a) [] = x :: vmerge a [].
Proof. reflexivity. Qed.
Lemma brp_vmerge_cons x a y b :
  vmerge (x :: a) (y :: b) = if (x <? y)%nat then x :: vmerge a (y :: b) else y :: vmerge (x :: a) b.
Proof. reflexivity. Qed.

Lemma brp_triple {A} (x x' : A) (i i' j j' : nat) : x = x' -> i = i' -> j = j' -> Some (x, i, j) = Some (x', i', j').
Proof. intros -> -> ->. reflexivity. Qed.

Lemma br_mul_while : forall fuel va vb (PA PB C : gmono), (length va + length vb < fuel)%nat ->
  gen_mul_while fuel (PA ++ map PStr va) (PB ++ map PStr vb) C (length PA) (length PB)
  = Some (C ++ map PStr (vmerge va vb), (length PA + length va)%nat, (length PB + length vb)%nat).
Proof.
  induction fuel as [|fuel IH]; intros va vb PA PB C Hf; [lia|].
  cbn [gen_mul_while]. rewrite !app_length, !map_length.
  destruct va as [|x ra]; destruct vb as [|y rb]; cbn [length map] in *.
  - rewrite !brp_ltb_0. cbn [orb vmerge map]. rewrite app_nil_r, !Nat.add_0_r. reflexivity.
  - rewrite brp_ltb_0, brp_ltb_S. cbn [orb]. rewrite (brp_nth_at PB _ _ _ eq_refl). cbv zeta. cbn [py_is_str].
    rewrite brp_vmerge_nil_cons. rewrite (brp_snoc PB). rewrite <- (brp_len_snoc PB (PStr y) _ eq_refl).
    etransitivity; [apply (IH [] rb PA (PB ++ [PStr y]) (C ++ [PStr y])); brp_side|].
    apply brp_triple; [rewrite <- app_assoc; reflexivity | brp_side | brp_side].
  - rewrite brp_ltb_0, brp_ltb_S. cbn [orb]. rewrite (brp_nth_at PA _ _ _ eq_refl). cbv zeta. cbn [py_is_str].
    rewrite brp_vmerge_cons_nil. rewrite (brp_snoc PA). rewrite <- (brp_len_snoc PA (PStr x) _ eq_refl).
    etransitivity; [apply (IH ra [] (PA ++ [PStr x]) PB (C ++ [PStr x])); brp_side|].
    apply brp_triple; [rewrite <- app_assoc; reflexivity | brp_side | brp_side].
  - rewrite !brp_ltb_S. cbn [orb]. rewrite (brp_nth_at PA _ _ _ eq_refl), (brp_nth_at PB _ _ _ eq_refl).
    cbv zeta. cbn [py_lt py_is_str]. rewrite brp_vmerge_cons.
    destruct (x <? y)%nat.
    + rewrite (brp_snoc PA). rewrite <- (brp_len_snoc PA (PStr x) _ eq_refl).
      etransitivity; [apply (IH ra (y :: rb) (PA ++ [PStr x]) PB (C ++ [PStr x])); brp_side|].
      apply brp_triple; [rewrite <- app_assoc; reflexivity | brp_side | brp_side].
    + rewrite (brp_snoc PB). rewrite <- (brp_len_snoc PB (PStr y) _ eq_refl).
      etransitivity; [apply (IH (x :: ra) rb PA (PB ++ [PStr y]) (C ++ [PStr y])); brp_side|].
      apply brp_triple; [rewrite <- app_assoc; reflexivity | brp_side | brp_side].
Qed.

(* the merge loop as __mul__ runs it on the variables of two monomials (i = j = 1, C = [A[0] * B[0]]) *)
Theorem br_vmerge (a b : mono) fuel : (length (snd a) + length (snd b) < fuel)%nat ->
  gen_mul_while fuel (enc a) (enc b) [PInt (fst a * fst b)] 1 1
  = Some (enc (mono_mul a b), S (length (snd a)), S (length (snd b))).
Proof.
  intros H. exact (br_mul_while fuel (snd a) (snd b) [PInt (fst a)] [PInt (fst b)] [PInt (fst a * fst b)] H).
Qed.

(* ---------- the accumulation loop of Polynomial.__mul__ and the whole method ---------- *)
Lemma brp_padd_loop_nil_l b : padd_loop [] b = b.
Proof. induction b as [|eb b IH]; [reflexivity|]. cbn [padd_loop]. f_equal. exact IH. Qed.
Lemma brp_padd_loop_nil_r a : padd_loop a [] = a.
Proof. induction a as [|ea a IH]; [reflexivity|]. cbn [padd_loop]. f_equal. exact IH. Qed.

Lemma brp_padd_loop_len a : forall b, (length (padd_loop a b) <= length a + length b)%nat.
Proof.
  induction a as [|ea a IHa]; intros b; [rewrite brp_padd_loop_nil_l; cbn [length]; lia|].
  induction b as [|eb b IHb]; [rewrite brp_padd_loop_nil_r; lia|].
  rewrite brp_padd_cons.
  destruct (pcompare (Some ea) (Some eb) <? 0); [cbn [length]; specialize (IHa (eb :: b)); cbn [length] in IHa; lia|].
  destruct (0 <? pcompare (Some ea) (Some eb)); [cbn [length] in *; lia|].
  specialize (IHa b). destruct (negb (fst ea + fst eb =? 0)); cbn [length]; lia.
Qed.

Lemma brp_padd_len p q : (length (padd p q) <= length p + length q)%nat.
Proof.
  unfold padd. destruct (peq_Z q 0); [lia|]. destruct (peq_Z p 0); [lia|]. apply brp_padd_loop_len.
Qed.

Definition mul_step (res : poly) (AB : mono * mono) : poly := padd res [mono_mul (fst AB) (snd AB)].

Lemma br_mul_for fuel self other : forall L M, 
  Forall2 (fun (ij : nat * nat) (AB : mono * mono) =>
             nth_error self (fst ij) = Some (enc (fst AB)) /\ nth_error other (snd ij) = Some (enc (snd AB))) L M ->
  (forall AB, In AB M -> (length (snd (fst AB)) + length (snd (snd AB)) < fuel)%nat) ->
  forall res, (length res + length M + 1 < fuel)%nat ->
  gen_mul_for fuel self other L (encp res) = Some (encp (fold_left mul_step M res)).
Proof.
  induction 1 as [|[ai bi] [A B] L M [HA HB] HF IH]; intros Hm res Hf; [reflexivity|].
  cbn [fst snd] in HA, HB. cbn [gen_mul_for fold_left]. rewrite HA, HB. cbv zeta.
  rewrite !brp_enc_head. cbn [py_mul].
  rewrite (br_vmerge A B fuel (Hm (A, B) (or_introl eq_refl))).
  cbn [length] in Hf.
  pose proof (br_add res [mono_mul A B] fuel ltac:(cbn [length]; lia)) as Hadd.
  match goal with |- context [gen_add ?f ?x ?y] => replace (gen_add f x y) with (Some (encp (padd res [mono_mul A B])))
    by (symmetry; exact Hadd) end.
  apply IH.
  - intros AB Hin. apply Hm. right. exact Hin.
  - unfold mul_step. cbn [fst snd]. pose proof (brp_padd_len res [mono_mul A B]) as Hl. cbn [length] in Hl. lia.
Qed.

Lemma brp_F2_seq p : forall PA : gpoly,
  Forall2 (fun i m => nth_error (PA ++ encp p) i = Some (enc m)) (seq (length PA) (length p)) p.
Proof.
  induction p as [|m p IH]; intros PA; cbn [length seq encp map]; constructor.
  - apply brp_nth_at. reflexivity.
  - rewrite brp_snoc. replace (S (length PA)) with (length (PA ++ [enc m])) by brp_side. apply IH.
Qed.

Lemma brp_F2_prod {A B C D} (R1 : A -> C -> Prop) (R2 : B -> D -> Prop) l1 m1 l2 m2 :
  Forall2 R1 l1 m1 -> Forall2 R2 l2 m2 ->
  Forall2 (fun x y => R1 (fst x) (fst y) /\ R2 (snd x) (snd y)) (list_prod l1 l2) (list_prod m1 m2).
Proof.
  intros H1 H2. induction H1 as [|x c l1 m1 Hxc H1 IH]; cbn [list_prod]; [constructor|].
  apply Forall2_app; [|exact IH].
  clear IH. induction H2 as [|y d l2 m2 Hyd H2 IH2]; cbn [map]; constructor; [split; assumption|exact IH2].
Qed.

(* fuel that suffices for __mul__: every intermediate sum has at most len(self) * len(other) terms *)
Fixpoint msize (p : poly) : nat := match p with [] => 0 | m :: r => length (snd m) + msize r end.
Definition mul_fuel (p q : poly) : nat := (length p * length q + msize p + msize q + 2)%nat.

Lemma brp_msize_in m p : In m p -> (length (snd m) <= msize p)%nat.
Proof.
  induction p as [|x p IH]; [intros []|]. cbn [msize]. intros [->|H]; [lia|]. specialize (IH H). lia.
Qed.

Lemma br_mul_loop p q fuel : (mul_fuel p q <= fuel)%nat ->
  gen_mul_for fuel (encp p) (encp q) (list_prod (seq 0 (length p)) (seq 0 (length q))) [] = Some (encp (pmul_loop p q)).
Proof.
  intros Hf. unfold mul_fuel in Hf.
  apply (br_mul_for fuel (encp p) (encp q) _ (list_prod p q)) with (res := []).
  - apply (brp_F2_prod (fun i m => nth_error (encp p) i = Some (enc m)) (fun i m => nth_error (encp q) i = Some (enc m))).
    + exact (brp_F2_seq p []). 
    + exact (brp_F2_seq q []).
  - intros [A B] Hin. apply in_prod_iff in Hin. destruct Hin as [HA HB]. cbn [fst snd].
    apply brp_msize_in in HA. apply brp_msize_in in HB. lia.
  - rewrite prod_length. cbn [length]. lia.
Qed.

Theorem br_mul p q fuel : (mul_fuel p q <= fuel)%nat -> gen_mul fuel (encp p) (encp q) = Some (encp (pmul p q)).
Proof.
  intros Hf. unfold gen_mul, pmul. rewrite !br_eq_int.
  destruct (peq_Z p 0); [reflexivity|]. destruct (peq_Z q 0); [reflexivity|]. cbn [orb].
  cbv zeta. rewrite !brp_len, !Nat.sub_0_r. rewrite (br_mul_loop p q fuel Hf). reflexivity.
Qed.

Theorem br_mul_int p c fuel : (mul_fuel p (P_of_Z c) <= fuel)%nat -> gen_mul_int fuel (encp p) c = Some (encp (pmul_Z p c)).
Proof.
  intros Hf. unfold gen_mul_int, pmul_Z. rewrite !br_eq_int.
  destruct (peq_Z p 0); [reflexivity|]. destruct (c =? 0); [reflexivity|]. cbn [orb].
  cbv zeta. rewrite brp_len, !Nat.sub_0_r. pose proof (br_mul_loop p (P_of_Z c) fuel Hf) as HL.
  match goal with |- context [gen_mul_for ?f ?a ?b ?l ?r] =>
    replace (gen_mul_for f a b l r) with (Some (encp (pmul_loop p (P_of_Z c)))) by (symmetry; exact HL) end.
  reflexivity.
Qed.

(* the translated methods of Polynomial, together *)
Theorem br_methods : forall (p q : poly) (c : Z) (fuel : nat),
  gen_eq_int (encp p) c = Some (peq_Z p c) /\ gen_eq (encp p) (encp q) = Some (peq p q) /\
  gen_bool (encp p) = Some (pbool p) /\ gen_neg (encp p) = Some (encp (pneg p)) /\
  ((length p + length q < fuel)%nat -> gen_add fuel (encp p) (encp q) = Some (encp (padd p q))) /\
  ((length p + 1 < fuel)%nat -> gen_add_int fuel (encp p) c = Some (encp (padd_Z p c))) /\
  ((mul_fuel p q <= fuel)%nat -> gen_mul fuel (encp p) (encp q) = Some (encp (pmul p q))) /\
  ((mul_fuel p (P_of_Z c) <= fuel)%nat -> gen_mul_int fuel (encp p) c = Some (encp (pmul_Z p c))).
Proof.
  intros p q c fuel. repeat split.
  - apply br_eq_int. - apply br_eq. - apply br_bool. - apply br_neg. - apply br_add. - apply br_add_int.
  - apply br_mul. - apply br_mul_int.
Qed.

(* non-vacuity: the encoding of 2*x0*x1 - 3 and of x0 + 1, their generated sum and product *)
Example br_example :
  gen_add 5 (encp [(-3, []); (2, [0%nat; 1%nat])]) (encp [(1, []); (1, [0%nat])])
  = Some [[PInt (-2)]; [PInt 1; PStr 0]; [PInt 2; PStr 0; PStr 1]] /\
  gen_mul 12 (encp [(-3, []); (2, [0%nat; 1%nat])]) (encp [(1, []); (1, [0%nat])])
  = Some [[PInt (-3)]; [PInt (-3); PStr 0]; [PInt 2; PStr 0; PStr 0; PStr 1]; [PInt 2; PStr 0; PStr 1]].
Proof. split; vm_compute; reflexivity. Qed.
