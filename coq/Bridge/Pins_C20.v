(* Bridge/Pins_C20.v - written by `tools/pins.py --accept`: the source text (normalised by ast.unparse) of the functions
   whose hand-written model carries the theorems of C20, as it was when the model was last validated against it.
   Regenerated text (Gen/Pins.v) must still be this text; an edit of one of these functions breaks the lemma. *)
From Coq Require Import String.
From KV Require Import Gen.Pins.
Open Scope string_scope.
Lemma pin_graph_encode : src_graph_encode = "def encode(o, tree_types=TREE_TYPES, root=False):
    if root and isinstance(o, tree_types):
        yield from (encode(value, tree_types) for value in o)
    elif isinstance(o, tree_types):
        yield o.__class__((encode(value, tree_types) for value in o))
    elif isinstance(o, MultiVector) and len(o.shape) > 1:
        yield from (encode(value) for value in o.itermv())
    elif isinstance(o, MultiVector):
        values = o._values.astype(np.float64).tobytes() if isinstance(o._values, np.ndarray) else o._values.copy()
        if tuple(o._keys) != tuple(o.algebra.canon2bin.values()):
            yield {'mv': values, 'keys': o._keys}
        else:
            yield {'mv': values}
    elif isinstance(o, Callable):
        yield encode(o(), tree_types)
    else:
        yield o".
Proof. reflexivity. Qed.
Lemma pin_graph_walker : src_graph_walker = "def walker(encoded_generator, tree_types=TREE_TYPES):
    result = []
    for item in encoded_generator:
        if isinstance(item, GeneratorType):
            result.extend(walker(item))
        elif isinstance(item, tree_types):
            result.append(walker(item))
        else:
            result.append(item)
    return result".
Proof. reflexivity. Qed.
Lemma pin_graph_GraphWidget_inplacereplace : src_graph_GraphWidget_inplacereplace = "def inplacereplace(self, old_subjects, new_subjects: List[Tuple[int, dict]]):
    for j, new_subject in new_subjects:
        old_subject = old_subjects[j]
        old_vals = old_subject._values
        new_vals = new_subject['mv']
        if tuple(old_subject._keys) == tuple(self.algebra.canon2bin.values()):
            for j, val in enumerate(new_vals):
                if old_vals[j] != val:
                    old_vals[j] = val
        else:
            for j, k in enumerate(old_subject._keys):
                val = new_vals[self.key2idx[k]]
                if old_vals[j] != val:
                    old_vals[j] = val".
Proof. reflexivity. Qed.
Lemma pin_graph_GraphWidget_get_key2idx : src_graph_GraphWidget_get_key2idx = "@traitlets.default('key2idx')
def get_key2idx(self):
    return {k: i for i, k in enumerate(self.algebra.canon2bin.values())}".
Proof. reflexivity. Qed.
Lemma pin_graph_GraphWidget_get_pre_subjects : src_graph_GraphWidget_get_pre_subjects = "@traitlets.default('pre_subjects')
def get_pre_subjects(self):
    return self._get_pre_subjects()".
Proof. reflexivity. Qed.
Lemma pin_graph_GraphWidget_get_subjects : src_graph_GraphWidget_get_subjects = "@traitlets.default('subjects')
def get_subjects(self):
    return walker(encode(self._get_pre_subjects(), root=True))".
Proof. reflexivity. Qed.
Lemma pin_graph_GraphWidget_get_draggable_points : src_graph_GraphWidget_get_draggable_points = "@traitlets.default('draggable_points')
def get_draggable_points(self):
    d = self.algebra.d
    points = [s for s in self.pre_subjects if isinstance(s, MultiVector)]
    if self.algebra.r == 1 and (d == 3 or d == 4):
        points = [p for p in points if p.grades == (d - 1,)]
    return walker(encode(points))".
Proof. reflexivity. Qed.
Lemma pin_graph_GraphWidget_get_draggable_points_idxs : src_graph_GraphWidget_get_draggable_points_idxs = "@traitlets.default('draggable_points_idxs')
def get_draggable_points_idxs(self):
    d = self.algebra.d
    if self.algebra.r == 1 and (d == 3 or d == 4):
        return [j for j, s in enumerate(self.pre_subjects) if isinstance(s, MultiVector) and s.grades == (d - 1,)]
    return [j for j, s in enumerate(self.pre_subjects) if isinstance(s, MultiVector)]".
Proof. reflexivity. Qed.
Lemma pin_graph_GraphWidget__get_pre_subjects : src_graph_GraphWidget__get_pre_subjects = "def _get_pre_subjects(self):
    if len(self.raw_subjects) == 1 and (not isinstance((s := self.raw_subjects[0]), MultiVector)) and isinstance(s, Callable):
        pre_subjects = s()
        if not isinstance(pre_subjects, TREE_TYPES):
            pre_subjects = [pre_subjects]
    else:
        pre_subjects = self.raw_subjects
    return pre_subjects".
Proof. reflexivity. Qed.
Lemma pin_graph_GraphWidget__observe_draggable_points : src_graph_GraphWidget__observe_draggable_points = "@traitlets.observe('draggable_points')
def _observe_draggable_points(self, change):
    self.inplacereplace(self.pre_subjects, zip(self.draggable_points_idxs, change['new']))
    self.subjects = self.get_subjects().copy()".
Proof. reflexivity. Qed.
Lemma pin_graph_GraphWidget_get_signature : src_graph_GraphWidget_get_signature = "@traitlets.default('signature')
def get_signature(self):
    return [int(s) for s in self.algebra.signature]".
Proof. reflexivity. Qed.
Lemma pin_graph_GraphWidget_get_cayley : src_graph_GraphWidget_get_cayley = "@traitlets.default('cayley')
def get_cayley(self):
    cayley_table = [[s if (s := self.algebra.cayley[eJ, eI])[-1] != 'e' else f'{s[:-1]}1' for eI in self.algebra.canon2bin] for eJ in self.algebra.canon2bin]
    return cayley_table".
Proof. reflexivity. Qed.
Lemma pin_raw_graph_js : raw_graph_js = "const Algebra = await fetch(""https://enki.ws/ganja.js/ganja.js"")
.then(x=>x.text())
.then(x=>{ const ctx = {}; (new Function('const define=1;'+x)).apply(ctx); return ctx.Algebra });
function render({ model, el }) {
var canvas = Algebra({metric: model.get('signature')}).inline((model)=>{
// Define constants
var key2idx = model.get('key2idx');
var draggable_points_idxs = model.get('draggable_points_idxs');
var options = model.get('options');
// Define helper functions.
var toElement = (o)=>{
/* convert object to Element */
var _values = o['mv'] instanceof DataView?new Float64Array(o['mv'].buffer):o['mv'];
if ('keys' in o) {
var values = Array(Object.keys(key2idx).length).fill(0);
o['keys'].forEach((k, j)=>values[key2idx[k]] = _values[j]);
return new Element(values);
}
return new Element(_values);
}
var decode = x=>typeof x === 'object' && 'mv' in x?toElement(x):Array.isArray(x)?x.map(decode):x;
var encode = x=>x instanceof Element?({mv:[...x]}):x?.map?x.map(encode):x;
// Decode camera if provided.
if (options?.camera && typeof options.camera === 'object' && 'mv' in options.camera) {
options.camera = toElement(options.camera)
}
if (options?.animate) {
var graph_func = ()=>{
if (canvas?.value && draggable_points_idxs?.length) {
model.set('draggable_points', encode(draggable_points_idxs.map(i=>canvas.value[i])));
model.save_changes();
}
// Send an update request. This drives the event loop.
model.send({ type: ""update_mvs"" });
var subjects = decode(model.get('subjects'));
return [...subjects];
}
} else {
var graph_func = ()=>{
if (canvas?.value && draggable_points_idxs?.length) {
model.set('draggable_points', encode(draggable_points_idxs.map(i=>canvas.value[i])));
model.save_changes();
}
var subjects = decode(model.get('subjects'));
return [...subjects];
}
// This ensures the remake is always called one last time to show the final position.
model.on(""change:subjects"", ()=>{
if (canvas.remake) canvas = canvas.remake(0);
if (canvas.update) canvas.update(canvas.value);
});
}
var canvas;
canvas = this.graph(graph_func, options)
return canvas;
})(model)
var options = model.get('options');
canvas.style.width = options?.width || `min( 100%, 1024px )`;
canvas.style.height = options?.height || 'auto';
canvas.style.aspectRatio = '16 / 6';
canvas.style.background = 'white';
canvas.style.marginLeft = `calc( (100% - ${ options?.width??""min(100%, 1024px)"" }) / 2 )`;
el.appendChild(canvas);
}
export default { render };".
Proof. reflexivity. Qed.
