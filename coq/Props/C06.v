(* Props/C06.v — sandwich, projection and squared norm equal their defining compositions.
   Model/Composite.v: on the symbolic path kingdon generates a >> b, a @ b, a.normsq() by multiplying
   symbolic multivectors (coefficients in its polynomial class) and dropping, after EVERY elementary
   operator, the coefficients that test falsy (filter_nz); sw / proj / normsq without filter are the
   compositions a*b*~a, (a|b)*~b, a*~a of the elementary model operators.
   Statements only; proofs in Theory/Natural.v (on top of Theory/Poly.v and Theory/Product.v). *)
From Coq Require Import Ring_theory.
From KV Require Import Model.All Model.Composite Model.Poly Theory.Sparse Theory.Poly Theory.Natural.

Section Eval.
  Variable R : Type.
  Variables (R0 R1 : R) (Radd Rmul Rsub : R -> R -> R) (Ropp : R -> R).
  Hypothesis Rth : ring_theory R0 R1 Radd Rmul Rsub Ropp (@eq R).
  Variable rho : nat -> R.                      (* ANY values for the symbols, in ANY commutative ring *)
  Local Notation O := (mkOps R Radd Rsub Rmul Ropp R0 R1).
  Local Notation "x == y" := (Sparse.equiv R0 R1 Radd Rmul Rsub Ropp x y) (at level 70).
  Local Notation ev := (map_mv (peval R R0 R1 Radd Rmul Ropp rho)).
  Local Notation evN := (map_mv (N R R0 R1 Radd Rmul Ropp rho)).

  (* kingdon's Polynomial class as symbol class: whatever the zero-filter drops, evaluating the
     generated coefficients at any values gives the composition of the elementary operators on them *)
  Theorem C06_sw : forall A (X Y : mv poly), NoDup (canon_keys A) -> all_coeffs Inv X -> all_coeffs Inv Y ->
    ev (sw_with Pops (filter_nz pzero) A X Y) == sw O A (ev X) (ev Y).
  Proof. intros. apply (C06_sw_poly _ _ _ _ _ _ _ Rth); assumption. Qed.
  Theorem C06_proj : forall A (X Y : mv poly), NoDup (canon_keys A) -> all_coeffs Inv X -> all_coeffs Inv Y ->
    ev (proj_with Pops (filter_nz pzero) A X Y) == proj O A (ev X) (ev Y).
  Proof. intros. apply (C06_proj_poly _ _ _ _ _ _ _ Rth); assumption. Qed.
  Theorem C06_normsq : forall A (X : mv poly), NoDup (canon_keys A) -> NoDup (keys X) -> all_coeffs Inv X ->
    ev (normsq_with Pops (filter_nz pzero) A X) == normsq O A (ev X).
  Proof. intros. apply (C06_normsq_poly _ _ _ _ _ _ _ Rth); assumption. Qed.

  (* the default symbol class RationalPolynomial, on the denominator-1 fragment that + - * neg produce
     from symbols (rpolyQ) *)
  Theorem C06_sw_rational : forall A (X Y : mv rpoly), NoDup (canon_keys A) -> all_coeffs rpolyQ X -> all_coeffs rpolyQ Y ->
    evN (sw_with Rops (filter_nz rzero) A X Y) == sw O A (evN X) (evN Y).
  Proof. intros. apply (C06_sw_rpoly _ _ _ _ _ _ _ Rth); assumption. Qed.
  Theorem C06_proj_rational : forall A (X Y : mv rpoly), NoDup (canon_keys A) -> all_coeffs rpolyQ X -> all_coeffs rpolyQ Y ->
    evN (proj_with Rops (filter_nz rzero) A X Y) == proj O A (evN X) (evN Y).
  Proof. intros. apply (C06_proj_rpoly _ _ _ _ _ _ _ Rth); assumption. Qed.
  Theorem C06_normsq_rational : forall A (X : mv rpoly), NoDup (canon_keys A) -> NoDup (keys X) -> all_coeffs rpolyQ X ->
    evN (normsq_with Rops (filter_nz rzero) A X) == normsq O A (evN X).
  Proof. intros. apply (C06_normsq_rpoly _ _ _ _ _ _ _ Rth); assumption. Qed.
End Eval.
Print Assumptions C06_sw.
Print Assumptions C06_proj.
Print Assumptions C06_normsq.
Print Assumptions C06_sw_rational.
Print Assumptions C06_proj_rational.
Print Assumptions C06_normsq_rational.

(* the pre-simplification only ever REMOVES blades: the stored blades of the filtered composite are
   among those of the unfiltered composition *)
Theorem C06_filter_only_removes : forall (R : Type) (O : ops R) (isz : R -> bool) A (x y : mv R),
  incl (keys (sw_with O (filter_nz isz) A x y)) (keys (sw O A x y)) /\
  incl (keys (proj_with O (filter_nz isz) A x y)) (keys (proj O A x y)) /\
  incl (keys (normsq_with O (filter_nz isz) A x)) (keys (normsq O A x)).
Proof. intros. split; [apply keys_sw_with_incl | split; [apply keys_proj_with_incl | apply keys_normsq_with_incl]]. Qed.
Print Assumptions C06_filter_only_removes.

(* a polynomial that tests falsy under the invariant is identically zero *)
Theorem C06_dropped_is_zero : forall (R : Type) (R0 R1 : R) (Radd Rmul Rsub : R -> R -> R) (Ropp : R -> R),
  ring_theory R0 R1 Radd Rmul Rsub Ropp (@eq R) -> forall (rho : nat -> R) p,
  Inv p -> pzero p = true -> peval R R0 R1 Radd Rmul Ropp rho p = R0.
Proof. intros. eapply pzero_sound; eassumption. Qed.
Print Assumptions C06_dropped_is_zero.

(* ---- source pins: the functions whose hand-written model carries the theorems above are still, textually (after
   ast normalisation), the functions the model was validated against; an edit breaks Bridge/Pins_C06.v ---- *)
From KV Require Bridge.Pins_C06.

(* the polynomial class the symbolic generators run on: its translated kernels and pinned methods (see Props/C17.v) *)
From KV Require Bridge.Poly Bridge.Pins_C17.
