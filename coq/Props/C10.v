(* Props/C10.v — code is generated at most once per operator and key pattern.  Statements only;
   proofs in Theory/Cache.v (model: Model/Cache.v, gens = log of code-generation events). *)
From KV Require Import Model.All Model.Cache Theory.Cache.

(* in every sequential history each (operator, ordered key tuples) is generated at most once, and the
   generated keys are exactly the cached ones - including the nested lookups composite generators and
   registered functions make (deps is arbitrary) *)
Theorem C10_generated_at_most_once : forall tn deps byname fuel (h : list (via * okey)) st ok,
  run_history tn deps byname fuel init h = Some (st, ok) ->
  NoDup (gens st) /\ (forall k, In k (gens st) <-> alookup okey_eqb k (cache st) <> None).
Proof. exact C10_at_most_once. Qed.
Print Assumptions C10_generated_at_most_once.

(* a lookup of a cached key changes nothing: no generation, no compilation, no new name *)
Theorem C10_cached_key_generates_nothing : forall tn deps byname fuel st k e,
  alookup okey_eqb k (cache st) = Some e -> getitem tn deps byname fuel st k = Some (st, e).
Proof. exact C10_cached_no_codegen. Qed.
Print Assumptions C10_cached_key_generates_nothing.
(* the cache key of the model is (operator, key tuples) only: coefficient values and types do not
   occur in it; that the implementation's key has this shape is checked by the correspondence *)

(* ---- source pins: the functions whose hand-written model carries the theorems above are still, textually (after
   ast normalisation), the functions the model was validated against; an edit breaks Bridge/Pins_C10.v ---- *)
From KV Require Bridge.Pins_C10.
