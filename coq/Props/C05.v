(* Props/C05.v — duality maps invert each other and define the regressive product.
   Statements only.  (Operator-level theorems are added from Theory/Ops.v.) *)
From KV Require Import Model.All Bridge.Codegen Theory.Bits.
Local Open Scope Z_scope.

(* hodge/unhodge keys and sign tests, the rp filter / key-out / four-factor sign and the polarity
   branch regenerated from today's source are the model's *)
Theorem C05_kernel_tie : forall sgn l kx ky ko,
  Gen.Codegen.hodge_key l kx = l - 1 - kx /\ Gen.Codegen.unhodge_key l kx = l - 1 - kx
  /\ Gen.Codegen.hodge_neg sgn l kx = Z.ltb (sgn kx (l - 1 - kx)) 0
  /\ Gen.Codegen.unhodge_neg sgn l kx = Z.ltb (sgn (l - 1 - kx) kx) 0
  /\ Gen.Codegen.filter_rp l kx ky ko = Model.Codegen.filter_rp l kx ky ko
  /\ Gen.Codegen.keyout_rp l kx ky = Model.Codegen.keyout_rp l kx ky
  /\ Gen.Codegen.sign_rp sgn l kx ky = Model.Codegen.sign_rp sgn l kx ky
  /\ Gen.Codegen.polarity_sign sgn l = sgn (l - 1) (l - 1).
Proof. intros. repeat split. Qed.
Print Assumptions C05_kernel_tie.

(* the regressive product selects exactly the pairs whose complements are disjoint, i.e. the pairs the
   outer product of the Hodge duals selects, and its output key is the key of unhodge(hodge a ^ hodge b) *)
Theorem C05_rp_filter_is_op_of_duals : forall n kx ky, 0 <= n -> 0 <= kx <= 2 ^ n - 1 -> 0 <= ky <= 2 ^ n - 1 ->
  filter_rp (2 ^ n) kx ky (keyout_rp (2 ^ n) kx ky)
  = filter_op (2 ^ n - 1 - kx) (2 ^ n - 1 - ky) (Z.lxor (2 ^ n - 1 - kx) (2 ^ n - 1 - ky))
  /\ keyout_rp (2 ^ n) kx ky = 2 ^ n - 1 - Z.lxor (2 ^ n - 1 - kx) (2 ^ n - 1 - ky).
Proof. intros. split; [apply filter_rp_filter_op | apply keyout_rp_hodge]; assumption. Qed.
Print Assumptions C05_rp_filter_is_op_of_duals.
