(* Props/C05.v — duality maps invert each other and define the regressive product.
   Statements only; proofs in Theory/Bits.v, Theory/Ops.v, Theory/SignBits.v, Theory/OpsWF.v.
   Every commutative ring, every well-formed algebra (r = 0, 1, > 1; default and custom bases, whose
   pseudoscalar is the algebra's own named pseudoscalar), all duplicate-free in-range key tuples. *)
From Coq Require Import Ring_theory.
From KV Require Import Model.All Bridge.Codegen Theory.WF Theory.Bits Theory.Sparse Theory.Product Theory.SignBits Theory.Ops Theory.OpsWF.
Local Open Scope Z_scope.

(* hodge/unhodge keys and sign tests, the rp filter / key-out / four-factor sign and the polarity
   branch regenerated from today's source are the model's *)
Theorem C05_kernel_tie : forall sgn l kx ky ko,
  Gen.Codegen.hodge_key l kx = l - 1 - kx /\ Gen.Codegen.unhodge_key l kx = l - 1 - kx
  /\ Gen.Codegen.hodge_neg sgn l kx = Z.ltb (sgn kx (l - 1 - kx)) 0
  /\ Gen.Codegen.unhodge_neg sgn l kx = Z.ltb (sgn (l - 1 - kx) kx) 0
  /\ Gen.Codegen.filter_rp l kx ky ko = Model.Codegen.filter_rp l kx ky ko
  /\ Gen.Codegen.keyout_rp l kx ky = Model.Codegen.keyout_rp l kx ky
  /\ Gen.Codegen.sign_rp sgn l kx ky = Model.Codegen.sign_rp sgn l kx ky
  /\ Gen.Codegen.polarity_sign sgn l = sgn (l - 1) (l - 1).
Proof. intros. repeat split. Qed.
Print Assumptions C05_kernel_tie.

Theorem C05_rp_filter_is_op_of_duals : forall n kx ky, 0 <= n -> 0 <= kx <= 2 ^ n - 1 -> 0 <= ky <= 2 ^ n - 1 ->
  filter_rp (2 ^ n) kx ky (keyout_rp (2 ^ n) kx ky)
  = filter_op (2 ^ n - 1 - kx) (2 ^ n - 1 - ky) (Z.lxor (2 ^ n - 1 - kx) (2 ^ n - 1 - ky))
  /\ keyout_rp (2 ^ n) kx ky = 2 ^ n - 1 - Z.lxor (2 ^ n - 1 - kx) (2 ^ n - 1 - ky).
Proof. intros. split; [apply filter_rp_filter_op | apply keyout_rp_hodge]; assumption. Qed.
Print Assumptions C05_rp_filter_is_op_of_duals.

Section Ring.
  Variable R : Type.
  Variables (rO rI : R) (radd rmul rsub : R -> R -> R) (ropp : R -> R).
  Hypothesis Rth : ring_theory rO rI radd rmul rsub ropp (@eq R).
  Local Notation O := (mkOps R radd rsub rmul ropp rO rI).
  Local Notation "x == y" := (equiv rO rI radd rmul rsub ropp x y) (at level 70).

  Theorem C05_unhodge_hodge : forall A, wf_alg A = true -> forall x : mv R, wfmv A x ->
    unhodge O A (hodge O A x) == x.
  Proof. intros A H. pose proof (wf_sign_hyps A H) as S.
    apply (hodge_unhodge _ _ _ _ _ _ _ Rth A (sh_keys A S) (sh_nodup A S)). Qed.
  Theorem C05_hodge_unhodge : forall A, wf_alg A = true -> forall x : mv R, wfmv A x ->
    hodge O A (unhodge O A x) == x.
  Proof. intros A H. pose proof (wf_sign_hyps A H) as S.
    apply (unhodge_hodge _ _ _ _ _ _ _ Rth A (sh_keys A S) (sh_nodup A S)). Qed.

  (* every basis blade E satisfies E ^ hodge(E) = pseudoscalar *)
  Theorem C05_blade_wedge_hodge : forall A, wf_alg A = true -> forall k K, 0 <= k < alg_len A -> 0 <= K < alg_len A ->
    coeff O K (op O A [(k, rI)] (hodge O A [(k, rI)])) = if Z.eqb K (pss_key A) then rI else rO.
  Proof. intros A H. pose proof (wf_sign_hyps A H) as S.
    apply (blade_wedge_hodge _ _ _ _ _ _ _ Rth A (sh_keys A S) (sh_nodup A S) (sh_disj A S)). Qed.

  (* a & b = unhodge(hodge(a) ^ hodge(b)), with the pseudoscalar as identity *)
  Theorem C05_rp_spec : forall A, wf_alg A = true -> forall x y : mv R, wfmv A x -> wfmv A y ->
    rp O A x y == unhodge O A (op O A (hodge O A x) (hodge O A y)).
  Proof. intros A H. pose proof (wf_sign_hyps A H) as S.
    apply (rp_spec _ _ _ _ _ _ _ Rth A (sh_keys A S) (sh_nodup A S) (sh_disj A S)). Qed.
  Theorem C05_rp_pss_identity : forall A, wf_alg A = true -> forall x : mv R, wfmv A x ->
    rp O A x (pss_mv O A) == x /\ rp O A (pss_mv O A) x == x.
  Proof. intros A H. pose proof (wf_sign_hyps A H) as S.
    apply (rp_pss _ _ _ _ _ _ _ Rth A (sh_keys A S) (sh_nodup A S) (sh_disj A S) (sh_scal A S)). Qed.

  (* polarity(x) = x * inverse(pseudoscalar); it raises ZeroDivisionError exactly when pss^2 = 0 ... *)
  Theorem C05_polarity_spec : forall A, wf_alg A = true -> forall x : mv R, wfmv A x ->
    (polarity O A x = Err EZeroDiv <-> sgn A (pss_key A) (pss_key A) = 0) /\
    (sgn A (pss_key A) (pss_key A) = 1 -> polarity O A x = Ok (gp O A x (pss_mv O A))) /\
    (sgn A (pss_key A) (pss_key A) = -1 ->
       exists r, polarity O A x = Ok r /\ r == gp O A x [(pss_key A, ropp rI)]).
  Proof. intros A H. pose proof (wf_sign_hyps A H) as S.
    apply (polarity_spec _ _ _ _ _ _ _ Rth A (sh_keys A S) (sh_nodup A S)). Qed.
  Theorem C05_unpolarity_polarity : forall A, wf_alg A = true -> forall x r : mv R, wfmv A x ->
    polarity O A x = Ok r -> unpolarity O A r == x.
  Proof. intros A H. pose proof (wf_sign_hyps A H) as S.
    apply (pol_unpol _ _ _ _ _ _ _ Rth A (sh_keys A S) (sh_nodup A S) (sh_assoc A S) (sh_scal A S)). Qed.
  Theorem C05_polarity_unpolarity : forall A, wf_alg A = true -> forall x r : mv R, wfmv A x ->
    polarity O A (unpolarity O A x) = Ok r -> r == x.
  Proof. intros A H. pose proof (wf_sign_hyps A H) as S.
    apply (unpol_pol _ _ _ _ _ _ _ Rth A (sh_keys A S) (sh_nodup A S) (sh_assoc A S) (sh_scal A S)). Qed.

  (* dual()/undual(): polarity for non-degenerate metrics, Hodge when exactly one generator is null,
     an error otherwise; explicit kinds override *)
  Theorem C05_dual_kind : forall A (x : mv R),
    (alg_r A = 0%nat -> dual O A KAuto x = polarity O A x) /\
    (alg_r A = 1%nat -> dual O A KAuto x = Ok (hodge O A x)) /\
    ((2 <= alg_r A)%nat -> dual O A KAuto x = Err EOther) /\
    dual O A KPolarity x = polarity O A x /\ dual O A KHodge x = Ok (hodge O A x) /\
    dual O A KUnknown x = Err EValue.
  Proof. intros A x. apply dual_kind. Qed.
End Ring.
Print Assumptions C05_unhodge_hodge.
Print Assumptions C05_hodge_unhodge.
Print Assumptions C05_blade_wedge_hodge.
Print Assumptions C05_rp_spec.
Print Assumptions C05_rp_pss_identity.
Print Assumptions C05_polarity_spec.
Print Assumptions C05_unpolarity_polarity.
Print Assumptions C05_polarity_unpolarity.
Print Assumptions C05_dual_kind.

(* ... which is exactly when the metric is degenerate *)
Theorem C05_polarity_raises_iff_degenerate : forall A, wf_alg A = true ->
  (sgn A (alg_len A - 1) (alg_len A - 1) = 0 <-> In 0 (a_sig A)).
Proof. exact sgn_pss_zero_iff. Qed.
Print Assumptions C05_polarity_raises_iff_degenerate.

(* ---- the tie to today's source: codegen_product as regenerated from /repo/kingdon/codegen.py
   (Gen/Kernels.v) IS the model function the theorems above speak about, for every coefficient type ---- *)
From KV Require Import Gen.Kernels Bridge.Kernels.
Theorem C05_product_kernel_is_todays_source : forall (R : Type) (O : ops R) sfun filt kout (x y : mv R),
  gen_codegen_product O sfun filt kout x y = codegen_product O sfun filt kout x y.
Proof. exact @br_codegen_product. Qed.
Print Assumptions C05_product_kernel_is_todays_source.

(* ---- source pins: the functions whose hand-written model carries the theorems above are still, textually (after
   ast normalisation), the functions the model was validated against; an edit breaks Bridge/Pins_C05.v ---- *)
From KV Require Bridge.Pins_C05.
