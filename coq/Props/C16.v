(* Props/C16.v — arrays, sequences, callables and plain numbers broadcast right.
   The operator surface of MultiVector is re-derived from /repo/kingdon/multivector.py on every run
   (Gen/Dunder.v: method, algebra operator it calls, operands swapped?, arity).  Statements only. *)
From Coq Require Import String List Bool.
From KV Require Import Gen.Dunder.
Import ListNotations.
Local Open Scope string_scope.

(* the specification: for every infix operator, `left op right` calls the algebra operator with
   (left, right): the plain dunder is not swapped, the reflected dunder IS swapped (the multivector is
   the right operand).  add is the only operator whose reflected form may be unswapped (it is
   commutative). *)
Definition infix_spec : list (string * string * string) :=     (* dunder, reflected dunder, operator *)
  [("__add__", "__radd__", "add"); ("__sub__", "__rsub__", "sub"); ("__mul__", "__rmul__", "gp");
   ("__truediv__", "__rtruediv__", "div"); ("__xor__", "__rxor__", "op"); ("__or__", "__ror__", "ip");
   ("__and__", "__rand__", "rp"); ("__rshift__", "__rrshift__", "sw"); ("__matmul__", "__rmatmul__", "proj")].

Fixpoint lookup (n : string) (l : list (string * string * bool * nat)) : option (string * bool * nat) :=
  match l with
  | [] => None
  | (m, op, sw, ar) :: r => if String.eqb m n then Some (op, sw, ar) else lookup n r
  end.

Definition entry_ok (e : string * string * string) : bool :=
  let '(d, rd, op) := e in
  match lookup d mv_methods, lookup rd mv_methods with
  | Some (op1, sw1, ar1), Some (op2, sw2, ar2) =>
      String.eqb op1 op && String.eqb op2 op && negb sw1 && Nat.eqb ar1 2 && Nat.eqb ar2 2
      && (sw2 || String.eqb op "add")
  | _, _ => false
  end.

(* `left op right` keeps its operand order for every infix and reflected dunder of today's source *)
Theorem C16_operand_order : forallb entry_ok infix_spec = true.
Proof. vm_compute. reflexivity. Qed.
Print Assumptions C16_operand_order.

(* every method of the surface that forwards to an algebra operator forwards its operands unswapped,
   except the reflected dunders *)
Definition is_reflected (n : string) : bool :=
  existsb (fun e => String.eqb (snd (fst e)) n) infix_spec.
Theorem C16_only_reflected_swap :
  forallb (fun e => let '(n, _, sw, _) := e in implb sw (is_reflected n)) mv_methods = true.
Proof. vm_compute. reflexivity. Qed.
Print Assumptions C16_only_reflected_swap.

(* every named method of the documented operator surface exists in today's source and does nothing but
   forward (self[, other]) unswapped to the algebra operator of the same name: no method carries a
   private fast path next to the generated operator (a method with any other body is absent from the
   regenerated table, and this theorem fails) *)
Definition named_methods : list (string * nat) :=
  [("neg", 1); ("reverse", 1); ("involute", 1); ("conjugate", 1); ("sqrt", 1); ("normsq", 1); ("inv", 1);
   ("add", 2); ("sub", 2); ("div", 2); ("gp", 2); ("sw", 2); ("proj", 2); ("cp", 2); ("acp", 2); ("ip", 2);
   ("op", 2); ("lc", 2); ("rc", 2); ("sp", 2); ("rp", 2); ("outerexp", 1); ("outersin", 1); ("outercos", 1);
   ("outertan", 1); ("polarity", 1); ("unpolarity", 1); ("hodge", 1); ("unhodge", 1)]%nat.
Theorem C16_named_methods_forward :
  forallb (fun e => match lookup (fst e) mv_methods with
                    | Some (op, sw, ar) => String.eqb op (fst e) && negb sw && Nat.eqb ar (snd e)
                    | None => false end) named_methods = true.
Proof. vm_compute. reflexivity. Qed.
Print Assumptions C16_named_methods_forward.

(* ------------------------------------------------------------------------------------------------
   element-wise action on array-valued coefficients: an array-valued coefficient is a function
   idx -> R, the operators run on the pointwise structure pw_ops, and indexing (evaluation at idx)
   commutes LITERALLY with every operator.  Theory/Natural.v (no extensionality, no ring laws). *)
From KV Require Import Model.All Model.Composite Theory.Natural.

Theorem C16_index_commutes : forall (I R : Type) (O : ops R) (i : I) A (x y : mv (I -> R)),
  let at_i := map_mv (fun f : I -> R => f i) in
  at_i (gp (pw_ops I O) A x y) = gp O A (at_i x) (at_i y) /\
  at_i (op (pw_ops I O) A x y) = op O A (at_i x) (at_i y) /\
  at_i (ip (pw_ops I O) A x y) = ip O A (at_i x) (at_i y) /\
  at_i (rp (pw_ops I O) A x y) = rp O A (at_i x) (at_i y) /\
  at_i (add (pw_ops I O) A x y) = add O A (at_i x) (at_i y) /\
  at_i (sub (pw_ops I O) A x y) = sub O A (at_i x) (at_i y) /\
  at_i (neg (pw_ops I O) A x) = neg O A (at_i x) /\
  at_i (reverse (pw_ops I O) A x) = reverse O A (at_i x) /\
  at_i (hodge (pw_ops I O) A x) = hodge O A (at_i x) /\
  at_i (sw (pw_ops I O) A x y) = sw O A (at_i x) (at_i y) /\
  at_i (proj (pw_ops I O) A x y) = proj O A (at_i x) (at_i y) /\
  at_i (normsq (pw_ops I O) A x) = normsq O A (at_i x).
Proof.
  intros. subst at_i.
  repeat split; [apply index_commutes_gp | apply index_commutes_op | apply index_commutes_ip | apply index_commutes_rp
                | apply index_commutes_add | apply index_commutes_sub | apply index_commutes_neg | apply index_commutes_reverse
                | apply index_commutes_hodge | apply index_commutes_sw | apply index_commutes_proj | apply index_commutes_normsq].
Qed.
Print Assumptions C16_index_commutes.
