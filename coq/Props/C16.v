(* Props/C16.v — arrays, sequences, callables and plain numbers broadcast right.
   The operator surface of MultiVector is re-derived from /repo/kingdon/multivector.py on every run
   (Gen/Dunder.v: method, algebra operator it calls, operands swapped?, arity).  Statements only. *)
From Coq Require Import String List Bool.
From KV Require Import Gen.Dunder.
Import ListNotations.
Local Open Scope string_scope.

(* the specification: for every infix operator, `left op right` calls the algebra operator with
   (left, right): the plain dunder is not swapped, the reflected dunder IS swapped (the multivector is
   the right operand).  add is the only operator whose reflected form may be unswapped (it is
   commutative). *)
Definition infix_spec : list (string * string * string) :=     (* dunder, reflected dunder, operator *)
  [("__add__", "__radd__", "add"); ("__sub__", "__rsub__", "sub"); ("__mul__", "__rmul__", "gp");
   ("__truediv__", "__rtruediv__", "div"); ("__xor__", "__rxor__", "op"); ("__or__", "__ror__", "ip");
   ("__and__", "__rand__", "rp"); ("__rshift__", "__rrshift__", "sw"); ("__matmul__", "__rmatmul__", "proj")].

Fixpoint lookup (n : string) (l : list (string * string * bool * nat)) : option (string * bool * nat) :=
  match l with
  | [] => None
  | (m, op, sw, ar) :: r => if String.eqb m n then Some (op, sw, ar) else lookup n r
  end.

Definition entry_ok (e : string * string * string) : bool :=
  let '(d, rd, op) := e in
  match lookup d mv_methods, lookup rd mv_methods with
  | Some (op1, sw1, ar1), Some (op2, sw2, ar2) =>
      String.eqb op1 op && String.eqb op2 op && negb sw1 && Nat.eqb ar1 2 && Nat.eqb ar2 2
      && (sw2 || String.eqb op "add")
  | _, _ => false
  end.

(* `left op right` keeps its operand order for every infix and reflected dunder of today's source *)
Theorem C16_operand_order : forallb entry_ok infix_spec = true.
Proof. vm_compute. reflexivity. Qed.
Print Assumptions C16_operand_order.

(* every method of the surface that forwards to an algebra operator forwards its operands unswapped,
   except the reflected dunders *)
Definition is_reflected (n : string) : bool :=
  existsb (fun e => String.eqb (snd (fst e)) n) infix_spec.
Theorem C16_only_reflected_swap :
  forallb (fun e => let '(n, _, sw, _) := e in implb sw (is_reflected n)) mv_methods = true.
Proof. vm_compute. reflexivity. Qed.
Print Assumptions C16_only_reflected_swap.

(* every named method of the documented operator surface exists in today's source and does nothing but
   forward (self[, other]) unswapped to the algebra operator of the same name: no method carries a
   private fast path next to the generated operator (a method with any other body is absent from the
   regenerated table, and this theorem fails) *)
Definition named_methods : list (string * nat) :=
  [("neg", 1); ("reverse", 1); ("involute", 1); ("conjugate", 1); ("sqrt", 1); ("normsq", 1); ("inv", 1);
   ("add", 2); ("sub", 2); ("div", 2); ("gp", 2); ("sw", 2); ("proj", 2); ("cp", 2); ("acp", 2); ("ip", 2);
   ("op", 2); ("lc", 2); ("rc", 2); ("sp", 2); ("rp", 2); ("outerexp", 1); ("outersin", 1); ("outercos", 1);
   ("outertan", 1); ("polarity", 1); ("unpolarity", 1); ("hodge", 1); ("unhodge", 1)]%nat.
Theorem C16_named_methods_forward :
  forallb (fun e => match lookup (fst e) mv_methods with
                    | Some (op, sw, ar) => String.eqb op (fst e) && negb sw && Nat.eqb ar (snd e)
                    | None => false end) named_methods = true.
Proof. vm_compute. reflexivity. Qed.
Print Assumptions C16_named_methods_forward.

(* ------------------------------------------------------------------------------------------------
   element-wise action on array-valued coefficients: an array-valued coefficient is a function
   idx -> R, the operators run on the pointwise structure pw_ops, and indexing (evaluation at idx)
   commutes LITERALLY with every operator.  Theory/Natural.v (no extensionality, no ring laws). *)
From KV Require Import Model.All Model.Composite Theory.Natural.

Theorem C16_index_commutes : forall (I R : Type) (O : ops R) (i : I) A (x y : mv (I -> R)),
  let at_i := map_mv (fun f : I -> R => f i) in
  at_i (gp (pw_ops I O) A x y) = gp O A (at_i x) (at_i y) /\
  at_i (op (pw_ops I O) A x y) = op O A (at_i x) (at_i y) /\
  at_i (ip (pw_ops I O) A x y) = ip O A (at_i x) (at_i y) /\
  at_i (rp (pw_ops I O) A x y) = rp O A (at_i x) (at_i y) /\
  at_i (add (pw_ops I O) A x y) = add O A (at_i x) (at_i y) /\
  at_i (sub (pw_ops I O) A x y) = sub O A (at_i x) (at_i y) /\
  at_i (neg (pw_ops I O) A x) = neg O A (at_i x) /\
  at_i (reverse (pw_ops I O) A x) = reverse O A (at_i x) /\
  at_i (hodge (pw_ops I O) A x) = hodge O A (at_i x) /\
  at_i (sw (pw_ops I O) A x y) = sw O A (at_i x) (at_i y) /\
  at_i (proj (pw_ops I O) A x y) = proj O A (at_i x) (at_i y) /\
  at_i (normsq (pw_ops I O) A x) = normsq O A (at_i x).
Proof.
  intros. subst at_i.
  repeat split; [apply index_commutes_gp | apply index_commutes_op | apply index_commutes_ip | apply index_commutes_rp
                | apply index_commutes_add | apply index_commutes_sub | apply index_commutes_neg | apply index_commutes_reverse
                | apply index_commutes_hodge | apply index_commutes_sw | apply index_commutes_proj | apply index_commutes_normsq].
Qed.
Print Assumptions C16_index_commutes.

(* ------------------------------------------------------------------------------------------------
   storage, indexing, assignment, operand normalisation: theorems about Model/Storage.v, the executable
   model of MultiVector.__getitem__ / __setitem__ / shape / itermv / items / map and of
   OperatorDict.__call__ / _call_binary (tied to the code by the in-Coq correspondence of tools/props/C16.py).
   R is an arbitrary coefficient type; an array-valued coefficient is a [list R] (one trailing axis).
   Definitions used in the statements (Theory/Storage.v): [wf_store] a 2-D ndarray is rectangular;
   [entries] the coefficients `_values` iterates over; [get_coef ix v] = v[ix]; [addr_of n ix] the position /
   positions a subscript tuple addresses on an axis of length n; [addressed n ix q]; [frame_coef ix s s']: s'
   is s up to the addressed entries; [bcast_coef ad o]: o broadcast to the addressed shape;
   [denote] / [eval_tree]: the fuel-free specification of `left op right`. *)
From Coq Require Import ZArith.
From KV Require Import Model.Storage Theory.Storage.
Local Open Scope nat_scope.

(* which subscripts raise: IndexError exactly for an integer outside [-n, n) or too many subscripts, ValueError
   exactly for a zero slice step *)
Theorem C16_subscript_raises : forall (n : nat) (ix : list idx1) (e : err),
  addr_of n ix = Err e <->
  (exists i : Z, ix = [IInt i] /\ e = EIndex /\ ((i < - Z.of_nat n)%Z \/ (Z.of_nat n <= i)%Z)) \/
  (exists s : pyslice, ix = [ISlice s] /\ e = EValue /\ sl_step s = Some 0%Z) \/
  2 <= length ix /\ e = EIndex.
Proof. exact addr_of_Err. Qed.
Print Assumptions C16_subscript_raises.

Theorem C16_slice_positions : forall (n : nat) (s : pyslice) (ps : list nat),
  slice_pos n s = Ok ps -> Forall (fun p : nat => p < n) ps /\ NoDup ps.
Proof. exact slice_pos_wf. Qed.
Print Assumptions C16_slice_positions.

Theorem C16_slice_meaning : forall (n : nat) (s : pyslice) (start stop step : Z) (ps : list nat),
  slice_indices (Z.of_nat n) s = Ok (start, stop, step) -> (0 < step)%Z -> slice_pos n s = Ok ps ->
  forall p : nat, In p ps <-> (start <= Z.of_nat p < stop)%Z /\ ((Z.of_nat p - start) mod step)%Z = 0%Z.
Proof. exact slice_pos_meaning. Qed.
Print Assumptions C16_slice_meaning.

(* X[idx]: same keys in the same order, for every key exactly values[key][idx]; the three storage kinds *)
Theorem C16_getitem_exact : forall (R : Type) (X : smv R) (item : pyidx) (Y : smv R),
  wf_store (s_vals X) -> mv_getitem X item = Ok Y ->
  s_keys Y = s_keys X /\
  Forall2 (fun v v' : coef R => get_coef (norm_item item) v = Ok v') (entries (s_vals X)) (entries (s_vals Y)) /\
  wf_store (s_vals Y).
Proof. exact @getitem_exact. Qed.
Print Assumptions C16_getitem_exact.

Theorem C16_getitem_raises : forall (R : Type) (X : smv R) (item : pyidx) (e : err),
  wf_store (s_vals X) ->
  (mv_getitem X item = Err e <->
   match s_vals X with
   | LBack l => exists (pre : list (coef R)) (c : coef R) (post cs : list (coef R)),
                  l = pre ++ c :: post /\
                  Forall2 (fun v v' : coef R => get_coef (norm_item item) v = Ok v') pre cs /\
                  get_coef (norm_item item) c = Err e
   | Nd1 _ => norm_item item <> [] /\ e = EIndex
   | Nd2 n _ => addr_of n (norm_item item) = Err e
   end).
Proof. exact @getitem_raises. Qed.
Print Assumptions C16_getitem_raises.

Theorem C16_getitem_int_index_error : forall (R : Type) (keys : list Z) (n : nat) (rows : list (list R)) (i : Z),
  Forall (fun r : list R => length r = n) rows ->
  (mv_getitem (mkSmv keys (Nd2 n rows)) (PyOne (IInt i)) = Err EIndex <-> (i < - Z.of_nat n)%Z \/ (Z.of_nat n <= i)%Z) /\
  (forall e : err, mv_getitem (mkSmv keys (Nd2 n rows)) (PyOne (IInt i)) = Err e -> e = EIndex).
Proof. exact @getitem_int_nd2. Qed.
Print Assumptions C16_getitem_int_index_error.

Theorem C16_getitem_int_index_error_list : forall (R : Type) (keys : list Z) (arrs : list (list R)) (n : nat) (i : Z),
  arrs <> [] -> Forall (fun a : list R => length a = n) arrs ->
  (mv_getitem (mkSmv keys (LBack (map CArr arrs))) (PyOne (IInt i)) = Err EIndex
   <-> (i < - Z.of_nat n)%Z \/ (Z.of_nat n <= i)%Z).
Proof. exact @getitem_int_list. Qed.
Print Assumptions C16_getitem_int_index_error_list.

Theorem C16_getitem_slice_total : forall (R : Type) (keys : list Z) (st : store R) (s : pyslice),
  wf_store st ->
  (exists arrs : list (list R), st = LBack (map CArr arrs)) \/ (exists (n : nat) (rows : list (list R)), st = Nd2 n rows) ->
  sl_step s <> Some 0%Z -> exists Y : smv R, mv_getitem (mkSmv keys st) (PyOne (ISlice s)) = Ok Y.
Proof. exact @getitem_slice_total. Qed.
Print Assumptions C16_getitem_slice_total.

(* X[i] is the evaluation map of C16_index_commutes (an array a is the function p |-> nth p a d) *)
Theorem C16_getitem_is_evaluation : forall (R : Type) (keys : list Z) (arrs : list (list R)) (n : nat) (i : Z) (p : nat) (d : R),
  Forall (fun a : list R => length a = n) arrs -> norm_int n i = Ok p ->
  mv_getitem (mkSmv keys (LBack (map CArr arrs))) (PyOne (IInt i))
  = Ok (mkSmv keys (LBack (map (fun a : list R => CNp (nth p a d)) arrs))).
Proof. exact @getitem_int_is_evaluation. Qed.
Print Assumptions C16_getitem_is_evaluation.

(* X[idx] = V, FRAME: whatever is assigned, whether or not it raises -- kind of storage, number and length of the
   coefficients unchanged; an entry the subscript does not address keeps its value; numbers never change *)
Theorem C16_setitem_frame : forall (R : Type) (X : smv R) (item : pyidx) (V : rhs R) (st' : store R) (e : option err),
  mv_setitem X item V = (st', e) ->
  Forall2 (frame_coef (norm_item item)) (entries (s_vals X)) (entries st') /\
  same_kind (s_vals X) st' /\ (wf_store (s_vals X) -> wf_store st').
Proof. exact @setitem_frame. Qed.
Print Assumptions C16_setitem_frame.

(* EXACT: a successful assignment of a multivector is, coefficient by coefficient (blade by blade),
   the 1-D assignment a[idx] = o of V's coefficient of the SAME blade, for every storage kind *)
Theorem C16_setitem_exact : forall (R : Type) (X : smv R) (item : pyidx) (ks : list Z) (vst st' : store R),
  mv_setitem X item (FromMv ks vst) = (st', None) ->
  ks = s_keys X /\
  Forall2 (fun (so : coef R * coef R) (s' : coef R) => assign_coef (norm_item item) (fst so) (snd so) = Ok s')
          (combine (entries (s_vals X)) (entries vst)) (firstn (length (entries vst)) (entries st')) /\
  skipn (length (entries vst)) (entries st') = skipn (length (entries vst)) (entries (s_vals X)) /\
  length (entries st') = length (entries (s_vals X)).
Proof. exact @setitem_exact. Qed.
Print Assumptions C16_setitem_exact.

(* round trip: afterwards X[idx] holds V's coefficients, each broadcast to the addressed shape of its own blade *)
Theorem C16_getitem_setitem : forall (R : Type) (X : smv R) (item : pyidx) (ks : list Z) (vst st' : store R) (Y : smv R),
  wf_store (s_vals X) -> length (entries vst) = length (entries (s_vals X)) ->
  mv_setitem X item (FromMv ks vst) = (st', None) ->
  mv_getitem (mkSmv (s_keys X) st') item = Ok Y ->
  s_keys Y = s_keys X /\
  Forall2 (fun (so : coef R * coef R) (y : coef R) =>
             exists ad : addr, addr_of (coef_len (fst so)) (norm_item item) = Ok ad /\ y = bcast_coef ad (snd so))
          (combine (entries (s_vals X)) (entries vst)) (entries (s_vals Y)).
Proof. exact @getitem_setitem. Qed.
Print Assumptions C16_getitem_setitem.

Theorem C16_getitem_setitem_aligned : forall (R : Type) (X : smv R) (item : pyidx) (ks : list Z) (vst st' : store R) (Y : smv R),
  wf_store (s_vals X) -> length (entries vst) = length (entries (s_vals X)) ->
  Forall (fun so : coef R * coef R =>
            forall ad : addr, addr_of (coef_len (fst so)) (norm_item item) = Ok ad -> aligned ad (snd so))
         (combine (entries (s_vals X)) (entries vst)) ->
  mv_setitem X item (FromMv ks vst) = (st', None) ->
  mv_getitem (mkSmv (s_keys X) st') item = Ok Y ->
  s_keys Y = s_keys X /\ entries (s_vals Y) = map np_of (entries vst).
Proof. exact @getitem_setitem_aligned. Qed.
Print Assumptions C16_getitem_setitem_aligned.

(* number coefficients: every blade receives its own number on every addressed entry (fixed finding 76adadb) *)
Theorem C16_setitem_scalar_broadcast : forall (R : Type) (X : smv R) (item : pyidx) (ks : list Z) (vst st' : store R) (Y : smv R),
  wf_store (s_vals X) -> length (entries vst) = length (entries (s_vals X)) ->
  Forall (fun o : coef R => exists x : R, is_scalar o x) (entries vst) ->
  mv_setitem X item (FromMv ks vst) = (st', None) ->
  mv_getitem (mkSmv (s_keys X) st') item = Ok Y ->
  Forall2 (fun (so : coef R * coef R) (y : coef R) =>
             exists (ad : addr) (x : R),
               addr_of (coef_len (fst so)) (norm_item item) = Ok ad /\ is_scalar (snd so) x /\
               y = match ad with AOne _ => CNp x | AMany ps => CArr (repeat x (length ps)) end)
          (combine (entries (s_vals X)) (entries vst)) (entries (s_vals Y)).
Proof. exact @setitem_scalar_broadcast. Qed.
Print Assumptions C16_setitem_scalar_broadcast.

Theorem C16_setitem_succeeds_iff : forall (R : Type) (X : smv R) (item : pyidx) (vst : store R),
  length (entries vst) = length (entries (s_vals X)) ->
  ((exists st' : store R, mv_setitem X item (FromMv (s_keys X) vst) = (st', None)) <->
   Forall (fun so : coef R * coef R =>
             exists (a : list R) (ad : addr),
               fst so = CArr a /\ addr_of (length a) (norm_item item) = Ok ad /\ compatible ad (snd so))
          (combine (entries (s_vals X)) (entries vst))).
Proof. exact @setitem_succeeds_iff. Qed.
Print Assumptions C16_setitem_succeeds_iff.

(* what one blade's assignment raises: TypeError for a number, the subscript's error, else ValueError exactly
   when the value cannot be broadcast *)
Theorem C16_assignment_raises : forall (R : Type) (ix : list idx1) (s o : coef R) (e : err),
  assign_coef ix s o = Err e ->
  (forall a : list R, s <> CArr a) /\ e = EType \/
  (exists a : list R, s = CArr a /\
     (addr_of (length a) ix = Err e \/
      (exists ad : addr, addr_of (length a) ix = Ok ad /\ e = EValue /\ ~ compatible ad o))).
Proof. exact @assign_coef_Err. Qed.
Print Assumptions C16_assignment_raises.

Theorem C16_setitem_of_getitem : forall (R : Type) (X : smv R) (item : pyidx) (Y : smv R),
  Forall (fun c : coef R => exists a : list R, c = CArr a) (entries (s_vals X)) ->
  mv_getitem X item = Ok Y -> wf_store (s_vals X) ->
  mv_setitem X item (FromMv (s_keys X) (s_vals Y)) = (s_vals X, None).
Proof. exact @setitem_of_getitem. Qed.
Print Assumptions C16_setitem_of_getitem.

Theorem C16_setitem_keys_mismatch : forall (R : Type) (X : smv R) (item : pyidx) (ks : list Z) (vst : store R),
  ks <> s_keys X -> mv_setitem X item (FromMv ks vst) = (s_vals X, Some EValue).
Proof. exact @setitem_keys_mismatch. Qed.
Print Assumptions C16_setitem_keys_mismatch.

(* operands: for ALL operands (numbers, multivectors, lists, tuples, nested callables, any nesting) and every
   operator f, _call_binary with enough fuel is the structural specification; fuel above the bound is irrelevant *)
Theorem C16_operands_spec : forall (R : Type) (self_alg : nat) (f : mv R -> mv R -> res (mv R)) (n : nat) (l r : operand R),
  osize l + osize r < n ->
  call_binary self_alg f n l r = eval_tree f (denote self_alg l) (denote self_alg r).
Proof. exact @call_binary_spec. Qed.
Print Assumptions C16_operands_spec.

Theorem C16_fuel_irrelevant : forall (R : Type) (self_alg : nat) (f : mv R -> mv R -> res (mv R)) (n : nat) (l r : operand R),
  osize l + osize r < n -> call_binary self_alg f n l r = call_binary_total self_alg f l r.
Proof. exact @call_binary_fuel. Qed.
Print Assumptions C16_fuel_irrelevant.

Theorem C16_scalar_wrap : forall (R : Type) (self_alg : nat) (f : mv R -> mv R -> res (mv R)) (c : R) (o : operand R),
  call_binary_total self_alg f (ONum c) o = call_binary_total self_alg f (OMv self_alg [(0%Z, c)]) o /\
  call_binary_total self_alg f o (ONum c) = call_binary_total self_alg f o (OMv self_alg [(0%Z, c)]).
Proof. exact @scalar_wrap. Qed.
Print Assumptions C16_scalar_wrap.

Theorem C16_list_maps : forall (R : Type) (self_alg : nat) (f : mv R -> mv R -> res (mv R)) (xs : list (operand R)) (o : operand R),
  let ev := call_binary_total self_alg f in
  ev o (OSeq xs) = (s <- mapM (fun x => ev o x) xs ;; Ok (RSeq s)) /\
  ev o (OTup xs) = (s <- mapM (fun x => ev o x) xs ;; Ok (RTup s)) /\
  (atomic self_alg o ->
   ev (OSeq xs) o = (s <- mapM (fun x => ev x o) xs ;; Ok (RSeq s)) /\
   ev (OTup xs) o = (s <- mapM (fun x => ev x o) xs ;; Ok (RTup s))).
Proof. exact @seq_maps. Qed.
Print Assumptions C16_list_maps.

Theorem C16_callable_unwrap : forall (R : Type) (self_alg : nat) (f : mv R -> mv R -> res (mv R)) (j k : nat) (l r : operand R),
  call_binary_total self_alg f (ncall j l) (ncall k r) = call_binary_total self_alg f l r.
Proof. exact @callable_unwrap. Qed.
Print Assumptions C16_callable_unwrap.

(* `left op right` keeps its order: on two multivectors, and element-wise: [x, y] op z = [x op z, y op z],
   z op [x, y] = [z op x, z op y] *)
Theorem C16_operand_order_sequences : forall (R : Type) (self_alg : nat) (f : mv R -> mv R -> res (mv R)) (a : nat) (x y z : mv R),
  let ev := call_binary_total self_alg f in
  ev (OMv a x) (OMv a y) = (m <- f x y ;; Ok (RMv m)) /\
  ev (OSeq [OMv a x; OMv a y]) (OMv a z) = (u <- f x z ;; v <- f y z ;; Ok (RSeq [RMv u; RMv v])) /\
  ev (OMv a z) (OSeq [OMv a x; OMv a y]) = (u <- f z x ;; v <- f z y ;; Ok (RSeq [RMv u; RMv v])).
Proof. exact @operand_order. Qed.
Print Assumptions C16_operand_order_sequences.

Theorem C16_same_value_same_result : forall (R : Type) (self_alg : nat) (f : mv R -> mv R -> res (mv R)) (l l' r r' : operand R),
  denote self_alg l = denote self_alg l' -> denote self_alg r = denote self_alg r' ->
  call_binary_total self_alg f l r = call_binary_total self_alg f l' r'.
Proof. exact @same_value_same_result. Qed.
Print Assumptions C16_same_value_same_result.

Theorem C16_sequence_raises_first : forall (R : Type) (self_alg : nat) (f : mv R -> mv R -> res (mv R)) (l : operand R) (xs : list (operand R)) (e : err),
  call_binary_total self_alg f l (OSeq xs) = Err e <->
  (exists (pre : list (operand R)) (x : operand R) (post : list (operand R)) (rs : list (result R)),
     xs = pre ++ x :: post /\
     Forall2 (fun (a : operand R) (b : result R) => call_binary_total self_alg f l a = Ok b) pre rs /\
     call_binary_total self_alg f l x = Err e).
Proof. exact @seq_right_raises. Qed.
Print Assumptions C16_sequence_raises_first.

Theorem C16_algebra_check : forall (R : Type) (self_alg : nat) (f : mv R -> mv R -> res (mv R)) (a b : nat) (x y : mv R),
  a <> b -> call_binary_total self_alg f (OMv a x) (OMv b y) = Err EAlgebra.
Proof. exact @algebra_check. Qed.
Print Assumptions C16_algebra_check.

(* ---- source pins: the functions whose hand-written model (Model/Storage.v) carries the theorems above are still, textually
   (after ast normalisation), the functions the model was validated against; an edit breaks Bridge/Pins_C16.v ---- *)
From KV Require Bridge.Pins_C16.
