(* Props/C16.v — arrays, sequences, callables and plain numbers broadcast right.
   The operator surface of MultiVector is re-derived from /repo/kingdon/multivector.py on every run
   (Gen/Dunder.v: method, algebra operator it calls, operands swapped?, arity).  Statements only. *)
From Coq Require Import String List Bool.
From KV Require Import Gen.Dunder.
Import ListNotations.
Local Open Scope string_scope.

(* the specification: for every infix operator, `left op right` calls the algebra operator with
   (left, right): the plain dunder is not swapped, the reflected dunder IS swapped (the multivector is
   the right operand).  add is the only operator whose reflected form may be unswapped (it is
   commutative). *)
Definition infix_spec : list (string * string * string) :=     (* dunder, reflected dunder, operator *)
  [("__add__", "__radd__", "add"); ("__sub__", "__rsub__", "sub"); ("__mul__", "__rmul__", "gp");
   ("__truediv__", "__rtruediv__", "div"); ("__xor__", "__rxor__", "op"); ("__or__", "__ror__", "ip");
   ("__and__", "__rand__", "rp"); ("__rshift__", "__rrshift__", "sw"); ("__matmul__", "__rmatmul__", "proj")].

Fixpoint lookup (n : string) (l : list (string * string * bool * nat)) : option (string * bool * nat) :=
  match l with
  | [] => None
  | (m, op, sw, ar) :: r => if String.eqb m n then Some (op, sw, ar) else lookup n r
  end.

Definition entry_ok (e : string * string * string) : bool :=
  let '(d, rd, op) := e in
  match lookup d mv_methods, lookup rd mv_methods with
  | Some (op1, sw1, ar1), Some (op2, sw2, ar2) =>
      String.eqb op1 op && String.eqb op2 op && negb sw1 && Nat.eqb ar1 2 && Nat.eqb ar2 2
      && (sw2 || String.eqb op "add")
  | _, _ => false
  end.

(* `left op right` keeps its operand order for every infix and reflected dunder of today's source *)
Theorem C16_operand_order : forallb entry_ok infix_spec = true.
Proof. vm_compute. reflexivity. Qed.
Print Assumptions C16_operand_order.

(* every method of the surface that forwards to an algebra operator forwards its operands unswapped,
   except the reflected dunders *)
Definition is_reflected (n : string) : bool :=
  existsb (fun e => String.eqb (snd (fst e)) n) infix_spec.
Theorem C16_only_reflected_swap :
  forallb (fun e => let '(n, _, sw, _) := e in implb sw (is_reflected n)) mv_methods = true.
Proof. vm_compute. reflexivity. Qed.
Print Assumptions C16_only_reflected_swap.
