(* Props/C08.v — results do not depend on how an operand is stored.
   x == x' means: the same coefficient on every blade (absent = 0); permuting the key tuple and storing
   explicit zeros (up to the full layouts) produce ==-equal multivectors.  Statements only. *)
From Coq Require Import Ring_theory Permutation.
From KV Require Import Model.All Theory.Sparse Theory.Product.
Local Open Scope Z_scope.

Section Ring.
  Variable R : Type.
  Variables (rO rI : R) (radd rmul rsub : R -> R -> R) (ropp : R -> R).
  Hypothesis Rth : ring_theory rO rI radd rmul rsub ropp (@eq R).
  Local Notation O := (mkOps R radd rsub rmul ropp rO rI).
  Local Notation "x == y" := (equiv rO rI radd rmul rsub ropp x y) (at level 70).

  (* every product-type operator (gp, op, ip, lc, rc, sp, cp, acp, rp: any sign function, filter and
     key-out function) respects == in both operands *)
  Theorem C08_products : forall A sfun filt kout (x x' y y' : mv R),
    NoDup (keys x) -> NoDup (keys x') -> NoDup (keys y) -> NoDup (keys y') ->
    x == x' -> y == y' ->
    canon_sort A (codegen_product O sfun filt kout x y) == canon_sort A (codegen_product O sfun filt kout x' y').
  Proof. intros. apply (sorted_product_congr _ _ _ _ _ _ _ Rth); assumption. Qed.

  Theorem C08_add : forall A (x x' y y' : mv R),
    NoDup (keys x) -> NoDup (keys x') -> NoDup (keys y) -> NoDup (keys y') ->
    x == x' -> y == y' -> add O A x y == add O A x' y'.
  Proof. intros. apply (add_congr _ _ _ _ _ _ _ Rth); assumption. Qed.
  Theorem C08_sub : forall A (x x' y y' : mv R),
    NoDup (keys x) -> NoDup (keys x') -> NoDup (keys y) -> NoDup (keys y') ->
    x == x' -> y == y' -> sub O A x y == sub O A x' y'.
  Proof. intros. apply (sub_congr _ _ _ _ _ _ _ Rth); assumption. Qed.
  Theorem C08_neg : forall A (x x' : mv R), NoDup (keys x) -> NoDup (keys x') -> x == x' -> neg O A x == neg O A x'.
  Proof. intros. apply (neg_congr _ _ _ _ _ _ _ Rth); assumption. Qed.
  Theorem C08_reverse : forall A (x x' : mv R), NoDup (keys x) -> NoDup (keys x') -> x == x' -> reverse O A x == reverse O A x'.
  Proof. intros. apply (reverse_congr _ _ _ _ _ _ _ Rth); assumption. Qed.
  Theorem C08_involute : forall A (x x' : mv R), NoDup (keys x) -> NoDup (keys x') -> x == x' -> involute O A x == involute O A x'.
  Proof. intros. apply (involute_congr _ _ _ _ _ _ _ Rth); assumption. Qed.
  Theorem C08_conjugate : forall A (x x' : mv R), NoDup (keys x) -> NoDup (keys x') -> x == x' -> conjugate O A x == conjugate O A x'.
  Proof. intros. apply (conjugate_congr _ _ _ _ _ _ _ Rth); assumption. Qed.
  Theorem C08_hodge : forall A (x x' : mv R), NoDup (keys x) -> NoDup (keys x') -> x == x' -> hodge O A x == hodge O A x'.
  Proof. intros. apply (hodge_congr _ _ _ _ _ _ _ Rth); assumption. Qed.
  Theorem C08_unhodge : forall A (x x' : mv R), NoDup (keys x) -> NoDup (keys x') -> x == x' -> unhodge O A x == unhodge O A x'.
  Proof. intros. apply (unhodge_congr _ _ _ _ _ _ _ Rth); assumption. Qed.
End Ring.
Print Assumptions C08_products.
Print Assumptions C08_add.
Print Assumptions C08_sub.
Print Assumptions C08_neg.
Print Assumptions C08_reverse.
Print Assumptions C08_involute.
Print Assumptions C08_conjugate.
Print Assumptions C08_hodge.
Print Assumptions C08_unhodge.

(* ---- the tie to today's source: codegen_product as regenerated from /repo/kingdon/codegen.py
   (Gen/Kernels.v) IS the model function the theorems above speak about, for every coefficient type ---- *)
From KV Require Import Gen.Kernels Bridge.Kernels.
Theorem C08_product_kernel_is_todays_source : forall (R : Type) (O : ops R) sfun filt kout (x y : mv R),
  gen_codegen_product O sfun filt kout x y = codegen_product O sfun filt kout x y.
Proof. exact @br_codegen_product. Qed.
Print Assumptions C08_product_kernel_is_todays_source.

(* ---- inverse, division, integer powers (Model/Inverse.v; proofs in Theory/InverseCongr.v) ----
   [res_equiv r r']: both raise the same exception, or both return and the results are == ;
   [same_keys x x']: the same SET of stored blades (any order);
   [filter_respects F]: OperatorDict.filter maps re-stored operands to re-stored operands - true of the
   identity (numeric evaluation) and of the zero filter of the symbolic generation (C08_inverse_filters);
   dv (the division of coefficients) and isz (their truth value) are ARBITRARY functions.
   Explicit stored zeros are covered by == (a stored 0 and an absent key have the same coefficient):
   C08_inverse_padded.  For d >= 6 (Shirokov's iteration) the operands must store the same blades: the break
   test `xi.grades == (0,)` reads stored keys; without it the statement is false for the numeric filter
   (C08_shirokov_padded_numeric_refuted). *)
From Coq Require Import QArith Qcanon.
From KV Require Import Model.Inverse Theory.WF Theory.Inverse Theory.InverseCongr.
Local Open Scope Z_scope.

Section RingInverse.
  Variable R : Type.
  Variables (rO rI : R) (radd rmul rsub : R -> R -> R) (ropp : R -> R).
  Hypothesis Rth : ring_theory rO rI radd rmul rsub ropp (@eq R).
  Local Notation O := (mkOps R radd rsub rmul ropp rO rI).
  Local Notation "x == y" := (Sparse.equiv rO rI radd rmul rsub ropp x y) (at level 70).
  Local Notation same_keys := (same_keys R).
  Local Notation res_equiv := (res_equiv R rO rI radd rmul rsub ropp).
  Local Notation filter_respects := (filter_respects R rO rI radd rmul rsub ropp).
  Local Notation IC l := (l R rO rI radd rmul rsub ropp Rth) (only parsing).

  (* the hypotheses are satisfiable: every well-formed algebra, both filters of kingdon *)
  Theorem C08_inverse_algebras : forall A, wf_alg A = true -> NoDup (canon_keys A).
  Proof. exact nodup_of_wf. Qed.
  Theorem C08_inverse_filters :
    filter_respects (fun z => z)
    /\ forall isz : R -> bool, (forall r, isz r = true -> r = rO) -> filter_respects (filter_nz isz).
  Proof. split; [apply filter_respects_id | apply filter_respects_nz]. Qed.

  (* closed-form numerators (d <= 5; NotImplementedError beyond, on both sides) and denominators *)
  Theorem C08_hitzer_num : forall A F (x x' : mv R), NoDup (canon_keys A) -> filter_respects F ->
    NoDup (keys x) -> NoDup (keys x') -> x == x' ->
    res_equiv (hitzer_num O F A x) (hitzer_num O F A x').
  Proof. intros. apply (IC hitzer_num_storage_independent); try assumption. repeat split; assumption. Qed.
  Theorem C08_hitzer : forall A F (x x' : mv R), NoDup (canon_keys A) -> filter_respects F ->
    NoDup (keys x) -> NoDup (keys x') -> x == x' ->
    res_rel (fun p p' => fst p == fst p' /\ snd p = snd p') (hitzer O F A x) (hitzer O F A x').
  Proof. intros. apply (IC hitzer_storage_independent); try assumption. repeat split; assumption. Qed.

  (* the Shirokov loop: same break round i, == xi and xs storing the same blades, EQUAL coefficients cs *)
  Theorem C08_shirokov : forall A dv isz F (x x' : mv R), NoDup (canon_keys A) -> filter_respects F ->
    NoDup (keys x) -> NoDup (keys x') -> x == x' -> same_keys x x' ->
    res_rel (fun r r' =>
               let '(i, xi, xs, cs) := r in
               let '(i', xi', xs', cs') := r' in
               i = i' /\ (xi == xi' /\ same_keys xi xi')
               /\ Forall2 (fun u u' => u == u' /\ same_keys u u') xs xs' /\ cs = cs')
            (shirokov_run O dv isz F A x) (shirokov_run O dv isz F A x').
  Proof. intros. apply (IC shirokov_storage_independent); assumption. Qed.

  (* alg.inv(x) *)
  Theorem C08_inverse : forall A dv isz F (x x' : mv R), NoDup (canon_keys A) -> filter_respects F ->
    NoDup (keys x) -> NoDup (keys x') -> x == x' -> ((a_d A < 6)%nat \/ same_keys x x') ->
    res_equiv (inv_model O dv isz F A x) (inv_model O dv isz F A x').
  Proof. intros. apply (IC inverse_storage_independent); try assumption. repeat split; assumption. Qed.
  (* every permutation of the key tuple, every dimension *)
  Theorem C08_inverse_permuted : forall A dv isz F (x x' : mv R), NoDup (canon_keys A) -> filter_respects F ->
    NoDup (keys x) -> Permutation x x' ->
    res_equiv (inv_model O dv isz F A x) (inv_model O dv isz F A x').
  Proof. intros. apply (IC inverse_storage_independent); try assumption. apply restored_perm; assumption. Qed.
  (* explicit zeros on any extra blades ks *)
  Theorem C08_inverse_padded : forall A dv isz F (x : mv R) ks, NoDup (canon_keys A) -> filter_respects F ->
    (a_d A < 6)%nat -> NoDup (keys x ++ ks) ->
    res_equiv (inv_model O dv isz F A x) (inv_model O dv isz F A (x ++ map (fun k => (k, rO)) ks)).
  Proof. intros. apply (IC inverse_storage_independent); try assumption. apply restored_pad; assumption. Qed.
  (* operands storing the same blades: so do the inverses *)
  Theorem C08_inverse_same_blades : forall A dv isz F (x x' : mv R), NoDup (canon_keys A) -> filter_respects F ->
    NoDup (keys x) -> NoDup (keys x') -> x == x' -> same_keys x x' ->
    res_rel (fun r r' => r == r' /\ same_keys r r') (inv_model O dv isz F A x) (inv_model O dv isz F A x').
  Proof. intros. apply (IC inverse_storage_independent_keys); assumption. Qed.

  (* a / b with both operands re-stored (no restriction on the dividend), number / x, x / number *)
  Theorem C08_division : forall A dv isz F (a a' y y' : mv R), NoDup (canon_keys A) -> filter_respects F ->
    NoDup (keys a) -> NoDup (keys a') -> a == a' ->
    NoDup (keys y) -> NoDup (keys y') -> y == y' -> ((a_d A < 6)%nat \/ same_keys y y') ->
    res_equiv (div_model O dv isz F A a y) (div_model O dv isz F A a' y').
  Proof. intros. apply (IC division_storage_independent); try assumption; repeat split; assumption. Qed.
  Theorem C08_number_over : forall A dv isz F c (x x' : mv R), NoDup (canon_keys A) -> filter_respects F ->
    NoDup (keys x) -> NoDup (keys x') -> x == x' -> ((a_d A < 6)%nat \/ same_keys x x') ->
    res_equiv (rdiv_number O dv isz F A c x) (rdiv_number O dv isz F A c x').
  Proof. intros. apply (IC rdivision_storage_independent); try assumption. repeat split; assumption. Qed.
  Theorem C08_over_number : forall A dv isz F (x x' : mv R) c, NoDup (canon_keys A) -> filter_respects F ->
    NoDup (keys x) -> NoDup (keys x') -> x == x' ->
    res_equiv (div_number O dv isz F A x c) (div_number O dv isz F A x' c).
  Proof. intros. apply (IC division_by_number_storage_independent); try assumption. repeat split; assumption. Qed.

  (* x ** p, every integer p: p >= 0 unrestricted, p < 0 as the inverse *)
  Theorem C08_power : forall A dv isz F (x x' : mv R) (p : Z), NoDup (canon_keys A) -> filter_respects F ->
    NoDup (keys x) -> NoDup (keys x') -> x == x' -> (0 <= p \/ (a_d A < 6)%nat \/ same_keys x x') ->
    res_equiv (pow_model O dv isz F A x p) (pow_model O dv isz F A x' p).
  Proof.
    intros A dv isz F x x' p HA HF H1 H2 H3 H4. apply (IC power_storage_independent); try assumption.
    - repeat split; assumption.
    - destruct H4 as [H4|H4]; [left; exact H4 | right; repeat split; assumption].
  Qed.
End RingInverse.
Print Assumptions C08_inverse_algebras.
Print Assumptions C08_inverse_filters.
Print Assumptions C08_hitzer_num.
Print Assumptions C08_hitzer.
Print Assumptions C08_shirokov.
Print Assumptions C08_inverse.
Print Assumptions C08_inverse_permuted.
Print Assumptions C08_inverse_padded.
Print Assumptions C08_inverse_same_blades.
Print Assumptions C08_division.
Print Assumptions C08_number_over.
Print Assumptions C08_over_number.
Print Assumptions C08_power.

(* the restriction for d >= 6 is needed: over the rationals with their own division, numeric evaluation
   (nothing filtered), signature (+,+,+,+,-,0): the scalar 2 stored as {e: 2} and as {e: 2, e1: 0} leaves the
   Shirokov loop in round 1 resp. after all 8 rounds, and the model returns 1/2 resp. 0.  (The public
   alg.inv never runs the loop on numbers: it generates code from a symbolic operand, one nonzero symbol per
   stored blade, with the zero filter.) *)
Theorem C08_shirokov_padded_numeric_refuted :
  let A := mk_default [1; 1; 1; 1; -1; 0] 1 false in
  let x := [(0, Q2Qc (2 # 1))] in
  let x' := [(0, Q2Qc (2 # 1)); (1, Q2Qc (0 # 1))] in
  restored_any Qc (Q2Qc 0) (Q2Qc 1) Qcplus Qcmult Qcminus Qcopp x x' /\
  (exists i i' xi xi' xs xs' cs cs',
      shirokov_run Qcops Qcdiv Qcisz idF A x = Ok (i, xi, xs, cs)
      /\ shirokov_run Qcops Qcdiv Qcisz idF A x' = Ok (i', xi', xs', cs') /\ i = 1%nat /\ i' = 8%nat) /\
  ~ res_equiv Qc (Q2Qc 0) (Q2Qc 1) Qcplus Qcmult Qcminus Qcopp
      (inv_model Qcops Qcdiv Qcisz idF A x) (inv_model Qcops Qcdiv Qcisz idF A x').
Proof. exact shirokov_padded_numeric_refuted. Qed.
Print Assumptions C08_shirokov_padded_numeric_refuted.

(* non-vacuity (computed in Theory/InverseCongr.v): 2 + e1 + 5 e12 + e123 in signature (+,+,-), and the same
   element with its blades permuted and explicit zeros on e2 and e13 - the hypotheses hold, both inverses are
   computed over the rationals and agree on every blade; a 6-dimensional operand and a permutation of it *)
Example C08_ex_inverse_hypotheses :
  NoDup (canon_keys exA3) /\ restored Qc (Q2Qc 0) (Q2Qc 1) Qcplus Qcmult Qcminus Qcopp exA3 ex_x ex_x'.
Proof. split; [exact ex_A3_nodup | exact ex_restored]. Qed.
Example C08_ex_inverse_computed :
  match inv_model Qcops Qcdiv Qcisz idF exA3 ex_x, inv_model Qcops Qcdiv Qcisz idF exA3 ex_x' with
  | Ok r, Ok r' => qmv_eqb r r' = true
                   /\ map (fun kv => (fst kv, this (snd kv))) r
                      = [(0, (18 # 275)%Q); (1, (-29 # 825)%Q); (2, (0 # 1)%Q); (4, (-4 # 165)%Q);
                         (3, (-29 # 165)%Q); (5, (0 # 1)%Q); (6, (4 # 825)%Q); (7, (7 # 275)%Q)]
  | _, _ => False
  end.
Proof. exact ex_inverse_computed. Qed.
Example C08_ex_inverse_instance :
  res_equiv Qc (Q2Qc 0) (Q2Qc 1) Qcplus Qcmult Qcminus Qcopp
    (inv_model Qcops Qcdiv Qcisz idF exA3 ex_x) (inv_model Qcops Qcdiv Qcisz idF exA3 ex_x').
Proof.
  apply (C08_inverse Qc (Q2Qc 0) (Q2Qc 1) Qcplus Qcmult Qcminus Qcopp Qcrt exA3 Qcdiv Qcisz idF ex_x ex_x');
    try apply ex_restored; [exact ex_A3_nodup | apply C08_inverse_filters].
Qed.
