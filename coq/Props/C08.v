(* Props/C08.v — results do not depend on how an operand is stored.
   x == x' means: the same coefficient on every blade (absent = 0); permuting the key tuple and storing
   explicit zeros (up to the full layouts) produce ==-equal multivectors.  Statements only. *)
From Coq Require Import Ring_theory Permutation.
From KV Require Import Model.All Theory.Sparse Theory.Product.
Local Open Scope Z_scope.

Section Ring.
  Variable R : Type.
  Variables (rO rI : R) (radd rmul rsub : R -> R -> R) (ropp : R -> R).
  Hypothesis Rth : ring_theory rO rI radd rmul rsub ropp (@eq R).
  Local Notation O := (mkOps R radd rsub rmul ropp rO rI).
  Local Notation "x == y" := (equiv rO rI radd rmul rsub ropp x y) (at level 70).

  (* every product-type operator (gp, op, ip, lc, rc, sp, cp, acp, rp: any sign function, filter and
     key-out function) respects == in both operands *)
  Theorem C08_products : forall A sfun filt kout (x x' y y' : mv R),
    NoDup (keys x) -> NoDup (keys x') -> NoDup (keys y) -> NoDup (keys y') ->
    x == x' -> y == y' ->
    canon_sort A (codegen_product O sfun filt kout x y) == canon_sort A (codegen_product O sfun filt kout x' y').
  Proof. intros. apply (sorted_product_congr _ _ _ _ _ _ _ Rth); assumption. Qed.

  Theorem C08_add : forall A (x x' y y' : mv R),
    NoDup (keys x) -> NoDup (keys x') -> NoDup (keys y) -> NoDup (keys y') ->
    x == x' -> y == y' -> add O A x y == add O A x' y'.
  Proof. intros. apply (add_congr _ _ _ _ _ _ _ Rth); assumption. Qed.
  Theorem C08_sub : forall A (x x' y y' : mv R),
    NoDup (keys x) -> NoDup (keys x') -> NoDup (keys y) -> NoDup (keys y') ->
    x == x' -> y == y' -> sub O A x y == sub O A x' y'.
  Proof. intros. apply (sub_congr _ _ _ _ _ _ _ Rth); assumption. Qed.
  Theorem C08_neg : forall A (x x' : mv R), NoDup (keys x) -> NoDup (keys x') -> x == x' -> neg O A x == neg O A x'.
  Proof. intros. apply (neg_congr _ _ _ _ _ _ _ Rth); assumption. Qed.
  Theorem C08_reverse : forall A (x x' : mv R), NoDup (keys x) -> NoDup (keys x') -> x == x' -> reverse O A x == reverse O A x'.
  Proof. intros. apply (reverse_congr _ _ _ _ _ _ _ Rth); assumption. Qed.
  Theorem C08_involute : forall A (x x' : mv R), NoDup (keys x) -> NoDup (keys x') -> x == x' -> involute O A x == involute O A x'.
  Proof. intros. apply (involute_congr _ _ _ _ _ _ _ Rth); assumption. Qed.
  Theorem C08_conjugate : forall A (x x' : mv R), NoDup (keys x) -> NoDup (keys x') -> x == x' -> conjugate O A x == conjugate O A x'.
  Proof. intros. apply (conjugate_congr _ _ _ _ _ _ _ Rth); assumption. Qed.
  Theorem C08_hodge : forall A (x x' : mv R), NoDup (keys x) -> NoDup (keys x') -> x == x' -> hodge O A x == hodge O A x'.
  Proof. intros. apply (hodge_congr _ _ _ _ _ _ _ Rth); assumption. Qed.
  Theorem C08_unhodge : forall A (x x' : mv R), NoDup (keys x) -> NoDup (keys x') -> x == x' -> unhodge O A x == unhodge O A x'.
  Proof. intros. apply (unhodge_congr _ _ _ _ _ _ _ Rth); assumption. Qed.
End Ring.
Print Assumptions C08_products.
Print Assumptions C08_add.
Print Assumptions C08_sub.
Print Assumptions C08_neg.
Print Assumptions C08_reverse.
Print Assumptions C08_involute.
Print Assumptions C08_conjugate.
Print Assumptions C08_hodge.
Print Assumptions C08_unhodge.

(* ---- the tie to today's source: codegen_product as regenerated from /repo/kingdon/codegen.py
   (Gen/Kernels.v) IS the model function the theorems above speak about, for every coefficient type ---- *)
From KV Require Import Gen.Kernels Bridge.Kernels.
Theorem C08_product_kernel_is_todays_source : forall (R : Type) (O : ops R) sfun filt kout (x y : mv R),
  gen_codegen_product O sfun filt kout x y = codegen_product O sfun filt kout x y.
Proof. exact @br_codegen_product. Qed.
Print Assumptions C08_product_kernel_is_todays_source.
