(* Props/C09.v — results depend only on the operands, never on earlier operations.
   Model/Cache.v: a generated function is identified by the (operator, ORDERED key tuples) it was
   generated for; a call is "right" when it runs the function generated for its own ordered keys and
   every callee a compiled registered function calls BY NAME still denotes the function it denoted
   when the body was compiled.  Statements only; proofs in Theory/Cache.v.
   tn = type_number (any function: names may collide arbitrarily), deps = the operator lookups made
   while generating code for a key (any function), byname = which operators are Registries. *)
From KV Require Import Model.All Model.Cache Theory.Cache.

(* every call of every sequential history - any mix of operators, key patterns and key orders,
   direct / through the wrapped function in numspace / through registered functions - runs the
   right function *)
Theorem C09_sequential_histories : forall tn deps byname fuel (h : list (via * okey)) st ok,
  run_history tn deps byname fuel init h = Some (st, ok) -> ok = true.
Proof. exact C09_sequential. Qed.
Print Assumptions C09_sequential_histories.

(* the invariant behind it is preserved by every single call from every state satisfying it, so
   failing (raising) calls, which leave the state at some intermediate point of the same kind, do
   not matter either *)
Theorem C09_call_right : forall tn deps byname fuel st v k st' ok,
  Inv st -> call tn deps byname fuel st v k = Some (st', ok) -> ok = true /\ Inv st'.
Proof. exact call_right. Qed.
Print Assumptions C09_call_right.

(* every interleaving of any number of threads, at the granularity of single dict operations
   (membership test, one setdefault attempt, store, read): every completed call ran the right function *)
Theorem C09_all_interleavings : forall tn deps byname (hs : list (list (via * okey))) sched st ts,
  run_sched tn deps byname init (map thread_of hs) sched = (st, ts) ->
  forall t, In t ts -> forallb (fun b => b) (verdicts t) = true.
Proof. exact C09_interleaving. Qed.
Print Assumptions C09_all_interleavings.

(* ... and that statement is not vacuous: no call is lost (one verdict per finished call), and a
   thread running alone reproduces the sequential semantics *)
Theorem C09_interleaving_accounts_for_all_calls : forall tn deps byname (hs : list (list (via * okey))) sched st ts,
  run_sched tn deps byname init (map thread_of hs) sched = (st, ts) ->
  map pending ts = map (@length (via * okey)) hs.
Proof. exact interleaving_all_calls_accounted. Qed.
Print Assumptions C09_interleaving_accounts_for_all_calls.

(* the name-claiming loop of _store always ends on a name that was free: an existing binding of the
   shared namespace is never overwritten *)
Theorem C09_claim_never_overwrites : forall ns nm f nm' ns',
  claim (S (length ns)) ns nm f = (nm', ns') ->
  alookup fname_eqb nm' ns = None /\ ns' = ns ++ [(nm', f)].
Proof. exact claim_fresh. Qed.
Print Assumptions C09_claim_never_overwrites.

(* ---- source pins: the functions whose hand-written model carries the theorems above are still, textually (after
   ast normalisation), the functions the model was validated against; an edit breaks Bridge/Pins_C09.v ---- *)
From KV Require Bridge.Pins_C09.
