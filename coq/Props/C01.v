(* Props/C01.v — basis-blade products follow the Clifford relations.
   Statements only; proofs in Theory/Words.v, Theory/Sign.v (name level: kingdon computes the table by
   string manipulation on blade NAMES; a name is the list of its hex-digit values, the metric
   m g is the signature entry of generator g).  The lift to the bit-keyed table is in Theory/SignBits.v. *)
From Coq Require Import Permutation.
From KV Require Import Model.All Theory.Words Theory.Sign.
Local Open Scope Z_scope.

(* parity of the swap count of _swap_blades = inversion parity of the concatenated spelling relative
   to the target spelling; the run never raises when the target spells the result *)
Theorem C01_swap_parity : forall b1 b2 target,
  NoDup b1 -> Permutation (fst (fst (phase1 b1 b2))) target ->
  exists sw el, swap_blades b1 b2 target = Some (sw, target, el) /\
    Z.odd sw = xorb (inv2 (b1 ++ b2)) (inv2 target).
Proof. exact swap_blades_parity. Qed.
Print Assumptions C01_swap_parity.

(* closed form of the sign kingdon computes for spellings a, b and the table's spelling t of the
   result blade: orientation parity x product of the metric over the common generators *)
Theorem C01_sign_closed_form : forall (m : nat -> Z) a b t,
  NoDup a -> NoDup b -> Permutation (sdiff a b) t ->
  sgn_names m a b t = Some (par (xorb (inv2 (a ++ b)) (inv2 t)) * mprod m (common a b)).
Proof. exact sgn_names_closed. Qed.
Print Assumptions C01_sign_closed_form.

(* the model's _compute_sign on names is that closed form whenever the signature lookups succeed *)
Theorem C01_model_sign_closed_form : forall (m : nat -> Z) A a b t,
  NoDup a -> NoDup b -> Permutation (sdiff a b) t ->
  (forall g, In g a -> In g b -> sig_at A g = Some (m g)) ->
  sign_names A a b t = Ok (par (xorb (inv2 (a ++ b)) (inv2 t)) * mprod m (common a b)).
Proof. exact sign_names_closed. Qed.
Print Assumptions C01_model_sign_closed_form.

(* each basis vector squares to its signature entry (result: the scalar blade) *)
Theorem C01_square : forall (m : nat -> Z) g, sgn_names m [g] [g] [] = Some (m g).
Proof. exact sq. Qed.
Print Assumptions C01_square.

(* distinct basis vectors anticommute, whichever way the table spells their product *)
Theorem C01_anticommute : forall (m : nat -> Z) g h t,
  g <> h -> Permutation [g; h] t ->
  exists s, (s = 1 \/ s = -1) /\ sgn_names m [g] [h] t = Some s /\ sgn_names m [h] [g] t = Some (- s).
Proof. exact anticomm. Qed.
Print Assumptions C01_anticommute.

(* blade multiplication is associative: all triples of spellings, any spellings of the intermediate
   and final blades, any metric (null and negative generators included) *)
Theorem C01_assoc : forall (m : nat -> Z) a b c ab bc abc,
  NoDup a -> NoDup b -> NoDup c ->
  Permutation (sdiff a b) ab -> Permutation (sdiff b c) bc -> Permutation (sdiff ab c) abc ->
  exists s1 s2 s3 s4,
    sgn_names m a b ab = Some s1 /\ sgn_names m ab c abc = Some s2 /\
    sgn_names m b c bc = Some s3 /\ sgn_names m a bc abc = Some s4 /\
    s1 * s2 = s3 * s4.
Proof. exact assoc. Qed.
Print Assumptions C01_assoc.

(* a blade named e_ij..k equals the ordered product e_i e_j .. e_k computed through the table,
   whatever spellings the table uses for the partial products *)
Theorem C01_named_blade_is_ordered_product : forall (m : nat -> Z) n ts,
  NoDup n ->
  (forall i, (i < length n)%nat -> exists t, nth_error ts i = Some t /\ Permutation (firstn (S i) n) t) ->
  length ts = length n -> last ts [] = n ->
  chain m [] n ts = Some 1.
Proof. exact ordered_product. Qed.
Print Assumptions C01_named_blade_is_ordered_product.

(* a product vanishes exactly when the factors share a null generator; otherwise it is +-1 *)
Theorem C01_nonzero_iff : forall (m : nat -> Z) a b t,
  (forall g, m g = 1 \/ m g = -1 \/ m g = 0) ->
  NoDup a -> NoDup b -> Permutation (sdiff a b) t ->
  (sgn_names m a b t = Some 0 <-> exists g, In g a /\ In g b /\ m g = 0) /\
  (~ (exists g, In g a /\ In g b /\ m g = 0) ->
   sgn_names m a b t = Some 1 \/ sgn_names m a b t = Some (-1)).
Proof. exact nonzero_iff. Qed.
Print Assumptions C01_nonzero_iff.

(* exchanging the factors multiplies the sign by (-1)^(|a||b| - |a n b|) *)
Theorem C01_swap_factors : forall (m : nat -> Z) a b t s,
  NoDup a -> NoDup b -> Permutation (sdiff a b) t ->
  sgn_names m a b t = Some s ->
  sgn_names m b a t = Some (par (Nat.odd (length a * length b - length (common a b))) * s).
Proof. exact swap_sym. Qed.
Print Assumptions C01_swap_factors.
