(* Props/C01.v — basis-blade products follow the Clifford relations.  Statements only; proofs in Theory/. *)
From Coq Require Import Permutation.
From KV Require Import Model.All Theory.Words.

(* parity of the swap count of _swap_blades = inversion parity of the concatenated spelling
   relative to the target spelling; the run never raises when the target spells the result *)
Theorem C01_swap_parity : forall b1 b2 target,
  NoDup b1 ->
  Permutation (fst (fst (phase1 b1 b2))) target ->
  exists sw el, swap_blades b1 b2 target = Some (sw, target, el) /\
    Z.odd sw = xorb (inv2 (b1 ++ b2)) (inv2 target).
Proof. exact swap_blades_parity. Qed.
Print Assumptions C01_swap_parity.
