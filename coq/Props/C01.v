(* Props/C01.v — basis-blade products follow the Clifford relations.
   Statements only; proofs in Theory/Words.v, Theory/Sign.v (name level: kingdon computes the table by
   string manipulation on blade NAMES; a name is the list of its hex-digit values, the metric
   m g is the signature entry of generator g).  The lift to the bit-keyed table is in Theory/SignBits.v. *)
From Coq Require Import Permutation.
From KV Require Import Model.All Theory.Words Theory.Sign.
Local Open Scope Z_scope.

(* parity of the swap count of _swap_blades = inversion parity of the concatenated spelling relative
   to the target spelling; the run never raises when the target spells the result *)
Theorem C01_swap_parity : forall b1 b2 target,
  NoDup b1 -> Permutation (fst (fst (phase1 b1 b2))) target ->
  exists sw el, swap_blades b1 b2 target = Some (sw, target, el) /\
    Z.odd sw = xorb (inv2 (b1 ++ b2)) (inv2 target).
Proof. exact swap_blades_parity. Qed.
Print Assumptions C01_swap_parity.

(* closed form of the sign kingdon computes for spellings a, b and the table's spelling t of the
   result blade: orientation parity x product of the metric over the common generators *)
Theorem C01_sign_closed_form : forall (m : nat -> Z) a b t,
  NoDup a -> NoDup b -> Permutation (sdiff a b) t ->
  sgn_names m a b t = Some (par (xorb (inv2 (a ++ b)) (inv2 t)) * mprod m (common a b)).
Proof. exact sgn_names_closed. Qed.
Print Assumptions C01_sign_closed_form.

(* the model's _compute_sign on names is that closed form whenever the signature lookups succeed *)
Theorem C01_model_sign_closed_form : forall (m : nat -> Z) A a b t,
  NoDup a -> NoDup b -> Permutation (sdiff a b) t ->
  (forall g, In g a -> In g b -> sig_at A g = Some (m g)) ->
  sign_names A a b t = Ok (par (xorb (inv2 (a ++ b)) (inv2 t)) * mprod m (common a b)).
Proof. exact sign_names_closed. Qed.
Print Assumptions C01_model_sign_closed_form.

(* each basis vector squares to its signature entry (result: the scalar blade) *)
Theorem C01_square : forall (m : nat -> Z) g, sgn_names m [g] [g] [] = Some (m g).
Proof. exact sq. Qed.
Print Assumptions C01_square.

(* distinct basis vectors anticommute, whichever way the table spells their product *)
Theorem C01_anticommute : forall (m : nat -> Z) g h t,
  g <> h -> Permutation [g; h] t ->
  exists s, (s = 1 \/ s = -1) /\ sgn_names m [g] [h] t = Some s /\ sgn_names m [h] [g] t = Some (- s).
Proof. exact anticomm. Qed.
Print Assumptions C01_anticommute.

(* blade multiplication is associative: all triples of spellings, any spellings of the intermediate
   and final blades, any metric (null and negative generators included) *)
Theorem C01_assoc : forall (m : nat -> Z) a b c ab bc abc,
  NoDup a -> NoDup b -> NoDup c ->
  Permutation (sdiff a b) ab -> Permutation (sdiff b c) bc -> Permutation (sdiff ab c) abc ->
  exists s1 s2 s3 s4,
    sgn_names m a b ab = Some s1 /\ sgn_names m ab c abc = Some s2 /\
    sgn_names m b c bc = Some s3 /\ sgn_names m a bc abc = Some s4 /\
    s1 * s2 = s3 * s4.
Proof. exact assoc. Qed.
Print Assumptions C01_assoc.

(* a blade named e_ij..k equals the ordered product e_i e_j .. e_k computed through the table,
   whatever spellings the table uses for the partial products *)
Theorem C01_named_blade_is_ordered_product : forall (m : nat -> Z) n ts,
  NoDup n ->
  (forall i, (i < length n)%nat -> exists t, nth_error ts i = Some t /\ Permutation (firstn (S i) n) t) ->
  length ts = length n -> last ts [] = n ->
  chain m [] n ts = Some 1.
Proof. exact ordered_product. Qed.
Print Assumptions C01_named_blade_is_ordered_product.

(* a product vanishes exactly when the factors share a null generator; otherwise it is +-1 *)
Theorem C01_nonzero_iff : forall (m : nat -> Z) a b t,
  (forall g, m g = 1 \/ m g = -1 \/ m g = 0) ->
  NoDup a -> NoDup b -> Permutation (sdiff a b) t ->
  (sgn_names m a b t = Some 0 <-> exists g, In g a /\ In g b /\ m g = 0) /\
  (~ (exists g, In g a /\ In g b /\ m g = 0) ->
   sgn_names m a b t = Some 1 \/ sgn_names m a b t = Some (-1)).
Proof. exact nonzero_iff. Qed.
Print Assumptions C01_nonzero_iff.

(* exchanging the factors multiplies the sign by (-1)^(|a||b| - |a n b|) *)
Theorem C01_swap_factors : forall (m : nat -> Z) a b t s,
  NoDup a -> NoDup b -> Permutation (sdiff a b) t ->
  sgn_names m a b t = Some s ->
  sgn_names m b a t = Some (par (Nat.odd (length a * length b - length (common a b))) * s).
Proof. exact swap_sym. Qed.
Print Assumptions C01_swap_factors.

(* ------------------------------------------------------------------------------------------------
   The same relations for the bit-keyed TABLE signs[I, J] of every well-formed algebra (any dimension,
   any ordering of +1/-1/0 signature entries, any start index, default or admissible custom basis);
   wf_alg is a boolean evaluated for every algebra the correspondence explores.  Theory/SignBits.v. *)
From KV Require Import Theory.WF Theory.SignBits.

(* the table never falls into the error default, and is the name-level sign of the table's spellings *)
Theorem C01_table_is_name_sign : forall A, wf_alg A = true -> forall I J,
  0 <= I < alg_len A -> 0 <= J < alg_len A ->
  exists nI nJ nIJ s, bin2canon A I = Some nI /\ bin2canon A J = Some nJ /\
    bin2canon A (Z.lxor I J) = Some nIJ /\ sgn_names (metric A) nI nJ nIJ = Some s /\
    compute_sign A I J = Ok s /\ sgn A I J = s.
Proof. exact compute_sign_closed. Qed.
Print Assumptions C01_table_is_name_sign.

(* each basis vector squares to its signature entry *)
Theorem C01_table_square : forall A, wf_alg A = true -> forall j, 0 <= j < Z.of_nat (a_d A) ->
  exists g, bin2canon A (2 ^ j) = Some [g] /\ In g (alg_vecs A) /\ gpos A g = j /\
    sgn A (2 ^ j) (2 ^ j) = metric A g /\ Z.lxor (2 ^ j) (2 ^ j) = 0 /\
    metric A g = nth (Z.to_nat (Z.of_nat g - a_start A)) (a_sig A) 0.
Proof. exact sgn_square. Qed.
Print Assumptions C01_table_square.

Theorem C01_table_anticommute : forall A, wf_alg A = true -> forall j k,
  0 <= j < Z.of_nat (a_d A) -> 0 <= k < Z.of_nat (a_d A) -> j <> k ->
  sgn A (2 ^ j) (2 ^ k) = - sgn A (2 ^ k) (2 ^ j) /\ (sgn A (2 ^ j) (2 ^ k) = 1 \/ sgn A (2 ^ j) (2 ^ k) = -1).
Proof. exact sgn_anticomm. Qed.
Print Assumptions C01_table_anticommute.

Theorem C01_table_assoc : forall A, wf_alg A = true -> forall I J K,
  0 <= I < alg_len A -> 0 <= J < alg_len A -> 0 <= K < alg_len A ->
  sgn A I J * sgn A (Z.lxor I J) K = sgn A J K * sgn A I (Z.lxor J K).
Proof. exact sgn_assoc. Qed.
Print Assumptions C01_table_assoc.

(* a blade named e_ij..k is +1 x the ordered product of its generators, computed through the table *)
Theorem C01_table_named_blade : forall A, wf_alg A = true -> forall B n, bin2canon A B = Some n ->
  fold_left (fun '(s, k) g => (s * sgn A k (genbit A g), Z.lxor k (genbit A g))) n (1, 0) = (1, B).
Proof. exact sgn_ordered_product. Qed.
Print Assumptions C01_table_named_blade.

Theorem C01_table_values : forall A, wf_alg A = true -> forall I J,
  0 <= I < alg_len A -> 0 <= J < alg_len A -> sgn A I J = 1 \/ sgn A I J = -1 \/ sgn A I J = 0.
Proof. exact sgn_values. Qed.
Print Assumptions C01_table_values.

Theorem C01_table_zero_iff : forall A, wf_alg A = true -> forall I J,
  0 <= I < alg_len A -> 0 <= J < alg_len A ->
  (sgn A I J = 0 <-> exists g, In g (alg_vecs A) /\ Z.testbit (Z.land I J) (gpos A g) = true /\ metric A g = 0).
Proof. exact sgn_zero_iff. Qed.
Print Assumptions C01_table_zero_iff.

(* the eager table (iterating canon2bin.items()) and the lazy table (looking names up through
   bin2canon) evaluate _compute_sign on the same spellings; every key 0 .. 2^d-1 has exactly one name *)
Theorem C01_lazy_eq_eager : forall A, wf_alg A = true -> forall n b, In (n, b) (a_c2b A) ->
  0 <= b < alg_len A /\ bin2canon A b = Some n /\ canon2bin A n = Some b /\ NoDup n.
Proof. exact c2b_entry_spec. Qed.
Print Assumptions C01_lazy_eq_eager.

Theorem C01_table_complete : forall A, wf_alg A = true -> forall I J r,
  In (I, J, r) (signs_table A) <-> 0 <= I < alg_len A /\ 0 <= J < alg_len A /\ r = Ok (sgn A I J).
Proof. exact signs_table_spec. Qed.
Print Assumptions C01_table_complete.

(* non-vacuity: the 3DPGA basis of Algebra.fromname is well-formed *)
Example C01_wf_3dpga :
  match mk_custom (sig_of_pqr 3 0 1) [[];[1];[2];[3];[0];[0;1];[0;2];[0;3];[1;2];[3;1];[2;3];[0;3;2];[0;1;3];[0;2;1];[1;2;3];[0;1;2;3]]%nat false
  with Ok A => wf_alg A | Err _ => false end = true.
Proof. vm_compute. reflexivity. Qed.

(* ---- the tie to today's source: _swap_blades and _compute_sign as regenerated from /repo/kingdon/algebra.py
   (Gen/Kernels.v, statement by statement) ARE the model functions the theorems above speak about ---- *)
From KV Require Import Gen.Kernels Bridge.Kernels.
Theorem C01_swap_blades_kernel_is_todays_source : forall b1 b2 target,
  gen_swap_blades b1 b2 target = swap_blades b1 b2 target.
Proof. exact br_swap_blades. Qed.
Print Assumptions C01_swap_blades_kernel_is_todays_source.

Theorem C01_compute_sign_kernel_is_todays_source : forall A n1 n2 target,
  sign_names A n1 n2 target =
  match gen_swap_blades n1 n2 target with
  | Some (swaps, _, eliminated) => of_opt EIndex (gen_sign_of (sig_at A) swaps eliminated)
  | None => Err EValue
  end.
Proof. exact br_sign_names. Qed.
Print Assumptions C01_compute_sign_kernel_is_todays_source.

(* ---- the hypothesis [wf_alg A = true] of the table theorems above is PROVED for the algebras kingdon
   constructs (Theory/WFDefault.v): every default-basis algebra (any signature over {1,-1,0}, any number of
   generators, any start_index >= 0; false for start_index < 0: WFDefault.wf_default_neg_start), in
   particular every Algebra(p,q,r); and for a custom basis the constructor's result is well-formed exactly
   when the decidable admissibility condition [basis_ok] holds (one duplicate-free spelling per subset of
   the generators, 2^d of them, ordered by grade, generator digits start..start+d-1) ---- *)
From KV Require Import Theory.WFDefault.
Theorem C01_default_algebras_wellformed : forall (sig : list Z) (start : Z) (graded : bool),
  (forall s, In s sig -> s = 1 \/ s = -1 \/ s = 0) -> 0 <= start ->
  wf_alg (mk_default sig start graded) = true.
Proof. exact wf_default. Qed.
Print Assumptions C01_default_algebras_wellformed.

Theorem C01_pqr_algebras_wellformed : forall (p q r : nat) (graded : bool),
  wf_alg (mk_default (sig_of_pqr p q r) (default_start (sig_of_pqr p q r)) graded) = true.
Proof. exact wf_default_pqr. Qed.
Print Assumptions C01_pqr_algebras_wellformed.

Theorem C01_custom_algebras_wellformed_iff_admissible : forall (sig : list Z) (basis : list name) (graded : bool),
  (forall A, mk_custom sig basis graded = Ok A -> wf_alg A = basis_ok sig basis) /\
  ((exists A, mk_custom sig basis graded = Ok A /\ wf_alg A = true) <-> basis_ok sig basis = true).
Proof. exact wf_custom_spec. Qed.
Print Assumptions C01_custom_algebras_wellformed_iff_admissible.

(* ---- source pins: the functions whose hand-written model carries the theorems above are still, textually (after
   ast normalisation), the functions the model was validated against; an edit breaks Bridge/Pins_C01.v ---- *)
From KV Require Bridge.Pins_C01.
