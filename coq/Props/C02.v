(* Props/C02.v — geometric product of sparse multivectors = bilinear extension over the blade table.
   Statements only; proofs in Theory/Sparse.v, Theory/Product.v.  Every theorem holds for all key
   lists (any subset, any order, empty), all coefficient values of every commutative ring. *)
From Coq Require Import Ring_theory.
From KV Require Import Model.All Bridge.Codegen Theory.Sparse Theory.Product.
Local Open Scope Z_scope.

Section Ring.
  Variable R : Type.
  Variables (rO rI : R) (radd rmul rsub : R -> R -> R) (ropp : R -> R).
  Hypothesis Rth : ring_theory rO rI radd rmul rsub ropp (@eq R).
  Local Notation O := (mkOps R radd rsub rmul ropp rO rI).
  Local Notation "x == y" := (equiv rO rI radd rmul rsub ropp x y) (at level 70).

  (* what one pair of stored entries contributes to blade K: sign x coefficient x coefficient when the
     pair multiplies to K with a non-zero table sign, nothing otherwise *)
  Definition gp_term (A : alg) (K : Z) (p : (Z * R) * (Z * R)) : R :=
    let '((kx, vx), (ky, vy)) := p in
    if Z.eqb (sgn A kx ky) 0 then rO
    else if negb (Z.eqb (Z.lxor kx ky) K) then rO
    else if Z.ltb 0 (sgn A kx ky) then rmul vx vy else ropp (rmul vx vy).

  (* the coefficient of every blade is the sum over ALL pairs of stored input blades: no contributing
     term omitted, duplicated or attributed to another blade *)
  Theorem C02_coeff : forall (A : alg) (x y : mv R) (K : Z),
    In K (canon_keys A) ->
    coeff O K (gp O A x y) = rsum rO radd (map (gp_term A K) (list_prod x y)).
  Proof.
    intros A x y K HK. rewrite (gp_coeff _ _ _ _ _ _ _ Rth A x y K HK).
    f_equal. apply map_ext. intros [[kx vx] [ky vy]].
    rewrite contrib_cases. reflexivity.
  Qed.

  (* every blade that can receive a contribution is present in the result, and only those *)
  Theorem C02_keys_complete : forall (A : alg) (x y : mv R) (K : Z),
    In K (keys (gp O A x y)) <->
    In K (canon_keys A) /\
    exists kx vx ky vy, In (kx, vx) x /\ In (ky, vy) y /\ sgn A kx ky <> 0 /\ Z.lxor kx ky = K.
  Proof.
    intros A x y K. unfold gp, raw_gp. rewrite sorted_product_keys.
    split; intros [H1 (kx & vx & ky & vy & H)]; (split; [exact H1|]); exists kx, vx, ky, vy; cbn [accepts] in *; tauto.
  Qed.

  (* the canonical re-sort of do_codegen stores each blade once *)
  Theorem C02_sorted_keys_nodup : forall (A : alg) (x y : mv R),
    NoDup (canon_keys A) -> NoDup (keys (gp O A x y)).
  Proof. intros A x y H. unfold gp. apply NoDup_keys_canon_sort. exact H. Qed.

  (* the product does not depend on how the operands are stored (order, explicit zeros) *)
  Theorem C02_storage_independent : forall (A : alg) (x x' y y' : mv R),
    NoDup (keys x) -> NoDup (keys x') -> NoDup (keys y) -> NoDup (keys y') ->
    x == x' -> y == y' -> gp O A x y == gp O A x' y'.
  Proof. intros. unfold gp, raw_gp. apply (sorted_product_congr _ _ _ _ _ _ _ Rth); assumption. Qed.
End Ring.
Print Assumptions C02_coeff.
Print Assumptions C02_keys_complete.
Print Assumptions C02_sorted_keys_nodup.
Print Assumptions C02_storage_independent.

(* the kernels of codegen_product regenerated from today's source are those of the model *)
Theorem C02_kernel_tie : forall s kx ky,
  Gen.Codegen.term_positive s = Z.ltb 0 s /\ Gen.Codegen.sign_truthy s = negb (Z.eqb s 0)
  /\ Gen.Codegen.keyout_default kx ky = Z.lxor kx ky.
Proof. intros. repeat split. Qed.
Print Assumptions C02_kernel_tie.

(* non-vacuity: (e1 + 2 e2) (3 e1) = 3 - 6 e12 in Cl(2,0) *)
Example C02_example :
  gp Zops (mk_default [1; 1] 1 false) [(1, 1); (2, 2)] [(1, 3)] = [(0, 3); (3, -6)].
Proof. vm_compute. reflexivity. Qed.

(* ---- the tie to today's source: codegen_product as regenerated from /repo/kingdon/codegen.py
   (Gen/Kernels.v) IS the model function the theorems above speak about, for every coefficient type ---- *)
From KV Require Import Gen.Kernels Bridge.Kernels.
Theorem C02_product_kernel_is_todays_source : forall (R : Type) (O : ops R) sfun filt kout (x y : mv R),
  gen_codegen_product O sfun filt kout x y = codegen_product O sfun filt kout x y.
Proof. exact @br_codegen_product. Qed.
Print Assumptions C02_product_kernel_is_todays_source.

(* ---- source pins: the functions whose hand-written model carries the theorems above are still, textually (after
   ast normalisation), the functions the model was validated against; an edit breaks Bridge/Pins_C02.v ---- *)
From KV Require Bridge.Pins_C02.
